"""C01 — TDC q-values: correspondence of Model/Tdc.v with mokapot.qvalues.tdc, qvalues_from_scores,
dataset._update_labels and LinearPsmDataset._update_labels."""
import itertools
from fractions import Fraction

from .. import lib
from ..lib import call_impl

PROP = "C01"
RULE = ("(1) exhaustive: every weak ordering of n<=5 (quick) / n<=6 (thorough) scores x every label vector x both "
        "directions (n=6: alternating direction); (2) dtype sweep float64/float32/int8/uint8/int64 scores, bool/int/float "
        "labels; (3) random n<=400 (quick) / 1500 (thorough) with tie density 0..0.9, decoy-only groups, all-decoy "
        "prefixes; (4) malformed labels (2, -1, 0.5, length mismatch, empty); (5) label vectors from _update_labels and "
        "LinearPsmDataset._update_labels at decimal thresholds including ones hit exactly by (D+1)/T. "
        "distinct = distinct case; non-trivial = has a tie group of size>=2 or a decoy ranked above a target")
ASSUMPTIONS = [
    "scores are passed to the model as exact integers (dyadic floats scaled by a common power of two): order and ties exact",
    "q comparison: |impl - exact| <= 2^-23 * exact (float32 storage of a correctly rounded ratio; sound for n <= 1500)",
    "thresholds are decimal literals; the model gets the exact decimal, the implementation float(decimal)",
]
TRUSTED_EXTRA = ["numpy argsort/cumsum/unique and numba are exercised, not modelled"]

KINDS = {"bool": 0, "int": 1, "float": 2}
TOL = Fraction(1, 2 ** 23)


# ----------------------------------------------------------------------------- helpers
def weak_orderings(n):
    """all weak orderings of n items as rank vectors (ranks 0..k-1, all used)"""
    if n == 0:
        yield ()
        return
    seen = set()
    for v in itertools.product(range(n), repeat=n):
        k = max(v) + 1
        if set(v) == set(range(k)):
            yield v


def exact_ints(values):
    """exact integer images of a list of floats/ints (common power-of-two scaling)"""
    frs = [Fraction(v) for v in values]
    den = 1
    for f in frs:
        den = max(den, f.denominator)
    return [int(f * den) for f in frs]


def q_spec(scores_exact, targets, desc):
    """the defining formula, computed directly"""
    n = len(scores_exact)
    key = [-s if desc else s for s in scores_exact]
    out = []
    fd = {}
    for k in set(key):
        t = sum(1 for j in range(n) if targets[j] and key[j] <= k)
        d = sum(1 for j in range(n) if not targets[j] and key[j] <= k)
        fd[k] = Fraction(1) if t == 0 else Fraction(d + 1, t)
    ks = sorted(fd)
    # running minimum from the worst key
    best = {}
    cur = Fraction(1)
    for k in reversed(ks):
        cur = min(cur, fd[k])
        best[k] = cur
    return [best[k] for k in key]


def np_scores(c):
    import numpy as np
    dt = c.get("sdtype", "float64")
    return np.array(c["scores"], dtype=dt)


def np_labels(c):
    import numpy as np
    k = c["lkind"]
    if k == "bool":
        return np.array([bool(v) for v in c["labels"]], dtype=bool)
    if k == "int":
        return np.array(c["labels"], dtype=c.get("ldtype", "int64"))
    return np.array([v / 2 for v in c["labels"]], dtype=c.get("ldtype", "float64"))


# ----------------------------------------------------------------------------- generation
def _tdc_case(scores, labels, desc, lkind="bool", sdtype="float64", via="tdc", tags=()):
    return {"fn": "tdc", "scores": list(scores), "labels": list(labels), "desc": bool(desc),
            "lkind": lkind, "sdtype": sdtype, "via": via, "tags": list(tags)}


def gen(ctx):
    cases = []
    nmax = 6 if ctx.thorough else 5
    for n in range(1, nmax + 1):
        flip = 0
        for w in weak_orderings(n):
            for lab in itertools.product((0, 1), repeat=n):
                if n <= 5:
                    dirs = (True, False)
                else:
                    flip ^= 1
                    dirs = (bool(flip),)
                for desc in dirs:
                    cases.append(_tdc_case([float(r) for r in w], lab, desc, tags=("exhaustive", f"n={n}")))
    # dtype sweep
    rng = ctx.sub("dtype")
    for sd in ("float64", "float32", "int8", "uint8", "int64", "int32"):
        for lk in ("bool", "int", "float"):
            for _ in range(40 if ctx.thorough else 12):
                n = rng.randint(1, 30)
                lo = 0 if sd == "uint8" else -20
                if sd.startswith("float"):
                    sc = [rng.randint(lo * 4, 80) / 4 for _ in range(n)]
                else:
                    sc = [rng.randint(lo, 40) for _ in range(n)]
                lab = [rng.randint(0, 1) * (2 if lk == "float" else 1) for _ in range(n)]
                via = "qfs" if rng.random() < 0.25 else "tdc"
                desc = True if via == "qfs" else rng.random() < 0.5
                cases.append(_tdc_case(sc, lab, desc, lk, sd, via, tags=("dtype", sd, "labels-" + lk)))
    # integer dtypes at the ends of their range (negation / conversion corner cases)
    rng = ctx.sub("int-extremes")
    for sd, lo, hi in (("int8", -128, 127), ("uint8", 0, 255), ("int16", -32768, 32767), ("int32", -2 ** 24, 2 ** 24)):
        for _ in range(20 if ctx.thorough else 8):
            n = rng.randint(2, 24)
            pool = [lo, lo, hi, hi, lo + 1, hi - 1, 0] + [rng.randint(lo, hi) for _ in range(6)]
            sc = [rng.choice(pool) for _ in range(n)]
            sc[rng.randrange(n)] = lo
            sc[rng.randrange(n)] = hi
            lab = [rng.randint(0, 1) for _ in range(n)]
            for desc in (True, False):
                cases.append(_tdc_case(sc, lab, desc, "bool", sd, "tdc", tags=("dtype", sd, "extremes")))
    # random, larger
    rng = ctx.sub("random")
    nr = 300 if ctx.thorough else 80
    for k in range(nr):
        n = rng.randint(1, 1500 if ctx.thorough else 400)
        tie = rng.choice([0.0, 0.1, 0.5, 0.9])
        levels = max(1, int(n * (1 - tie)))
        shape = rng.choice(["mix", "decoy-top", "target-top", "all-decoy", "all-target", "float-noise"])
        sc, lab = [], []
        for j in range(n):
            if shape == "float-noise":
                s = rng.gauss(0, 1)
                if rng.random() < tie and sc:
                    s = rng.choice(sc)
            else:
                s = float(rng.randrange(levels))
            if shape == "all-decoy":
                t = 0
            elif shape == "all-target":
                t = 1
            else:
                t = 1 if rng.random() < 0.6 else 0
            sc.append(s)
            lab.append(t)
        if shape == "decoy-top":
            m = max(sc)
            for j in range(n):
                if sc[j] >= m - 1:
                    lab[j] = 0
        if shape == "target-top":
            m = max(sc)
            for j in range(n):
                if sc[j] >= m - 1:
                    lab[j] = 1
        cases.append(_tdc_case(sc, lab, rng.random() < 0.5, tags=("random", shape, f"tie={tie}")))
    # strictly monotone rescalings to extreme magnitudes: every value is an exactly representable double, so the
    # order and the tie pattern are those of the base vector (tiny magnitudes, adjacent doubles, huge offsets, subnormals)
    rng = ctx.sub("rescaled")
    maps = [("x*2^-60", lambda x: x * 2.0 ** -60), ("x*2^-100", lambda x: x * 2.0 ** -100), ("x*2^-1000", lambda x: x * 2.0 ** -1000),
            ("x*2^-1070", lambda x: x * 2.0 ** -1070), ("x*2^60", lambda x: x * 2.0 ** 60), ("x*2^900", lambda x: x * 2.0 ** 900),
            ("1+x*2^-52", lambda x: 1.0 + x * 2.0 ** -52), ("-2-x*2^-51", lambda x: -2.0 + x * 2.0 ** -51),
            ("2^52+x", lambda x: 2.0 ** 52 + x), ("x*2^-52", lambda x: x * 2.0 ** -52)]
    for k in range(240 if ctx.thorough else 60):
        n = rng.randint(2, 60)
        levels = rng.randint(2, n)
        base = [rng.randrange(-levels // 2, levels) for _ in range(n)]
        lab = [1 if rng.random() < 0.6 else 0 for _ in range(n)]
        name, f = maps[k % len(maps)]
        sc = [f(float(x)) for x in base]
        assert len(set(sc)) == len(set(base)), name
        via = "qfs" if rng.random() < 0.2 else "tdc"
        cases.append(_tdc_case(sc, lab, True if via == "qfs" else rng.random() < 0.5, "bool", "float64", via, tags=("rescaled", name)))
    # malformed
    rng = ctx.sub("malformed")
    for k in range(60):
        n = rng.randint(1, 8)
        sc = [float(rng.randint(0, 5)) for _ in range(n)]
        kind = rng.choice(["int2", "intneg", "floathalf", "mismatch", "empty", "emptyboth"])
        if kind == "int2":
            lab = [rng.choice([0, 1, 2]) for _ in range(n)]
            lab[rng.randrange(n)] = 2
            c = _tdc_case(sc, lab, True, "int", tags=("malformed", kind))
        elif kind == "intneg":
            lab = [rng.choice([1, -1]) for _ in range(n)]
            lab[rng.randrange(n)] = -1
            c = _tdc_case(sc, lab, True, "int", tags=("malformed", kind))
        elif kind == "floathalf":
            lab = [rng.choice([0, 2, 1, 4, -2]) for _ in range(n)]
            c = _tdc_case(sc, lab, True, "float", tags=("malformed", kind))
        elif kind == "mismatch":
            lab = [rng.randint(0, 1) for _ in range(n + rng.choice([-1, 1, 2]))]
            c = _tdc_case(sc, lab, True, rng.choice(["bool", "int"]), tags=("malformed", kind))
        elif kind == "empty":
            c = _tdc_case(sc, [], True, rng.choice(["bool", "int", "float"]), tags=("malformed", kind))
        else:
            c = _tdc_case([], [], True, rng.choice(["bool", "int", "float"]), tags=("malformed", kind))
        cases.append(c)
    # labels
    rng = ctx.sub("labels")
    thrs = ["0.01", "0.05", "0.1", "0.2", "0.25", "0.3", "0.5", "0.125", "0.4", "0.75", "1.0", "0.333", "0.0"]
    nl = 1200 if ctx.thorough else 300
    for k in range(nl):
        n = rng.randint(1, 60)
        levels = rng.randint(1, n)
        sc = [float(rng.randrange(levels)) for _ in range(n)]
        lab = [1 if rng.random() < 0.7 else 0 for _ in range(n)]
        thr = rng.choice(thrs)
        via = rng.choice(["_update_labels", "_update_labels", "linear", "series", "series-int", "series-float", "array-int", "array-float"])
        cases.append({"fn": "labels", "scores": sc, "labels": lab, "desc": rng.random() < 0.5 if via != "linear" else rng.random() < 0.5,
                      "thr": thr, "via": via, "tags": ["labels", via, "thr=" + thr]})
    # thresholds hit exactly by (D+1)/T: t targets on top, d decoys right below
    for (d, t) in [(0, 20), (1, 20), (0, 10), (1, 10), (0, 5), (2, 10), (0, 4), (1, 8), (0, 100), (4, 100), (0, 2), (2, 30)]:
        fr = Fraction(d + 1, t)
        thr = str(float(fr))
        if Fraction(thr) != fr:
            continue
        sc = [100.0 - j for j in range(t)] + [50.0 - j for j in range(d + 3)] + [10.0, 9.0]
        lab = [1] * t + [0] * (d + 3) + [1, 1]
        for via in ("_update_labels", "linear"):
            cases.append({"fn": "labels", "scores": sc, "labels": lab, "desc": True, "thr": thr, "via": via,
                          "tags": ["labels", via, "thr-exact-hit", "thr=" + thr]})
    return cases


# ----------------------------------------------------------------------------- model side
def encode(c):
    ex = exact_ints(c["scores"])
    if c["fn"] == "tdc":
        return "c01.tdc %s %s %d %s" % (lib.b(c["desc"]), lib.lst(ex), KINDS[c["lkind"]], lib.lst(c["labels"]))
    return "c01.labels %s %s %s %s" % (lib.b(c["desc"]), lib.lst(ex), lib.lst(c["labels"], lib.b),
                                       lib.q(Fraction(c["thr"])))


def decode(c, t):
    if c["fn"] == "tdc":
        return t.result(lambda: t.lst(t.q))
    return t.result(lambda: t.lst(t.z))


# ----------------------------------------------------------------------------- implementation side
def _impl_tdc(c):
    import numpy as np
    from mokapot import qvalues
    sc, lb = np_scores(c), np_labels(c)
    if c.get("via") == "qfs":
        q = qvalues.qvalues_from_scores(sc, lb, "tdc")
    else:
        q = qvalues.tdc(sc, lb, desc=c["desc"])
    return [Fraction(float(v)) for v in q]


def _impl_labels(c):
    import numpy as np
    import pandas as pd
    from mokapot import dataset
    sc = np.array(c["scores"], dtype=float)
    tg = np.array([bool(v) for v in c["labels"]], dtype=bool)
    thr = float(c["thr"])
    via = c["via"]
    if via == "linear" and (all(tg) or not any(tg)):
        via = "_update_labels"   # LinearPsmDataset needs both targets and decoys
    if via == "_update_labels":
        r = dataset._update_labels(sc, tg, thr, c["desc"])
    elif via == "series":
        r = dataset._update_labels(pd.Series(sc), pd.Series(tg), thr, c["desc"])
    elif via == "series-int":         # the label column of a table as pandas reads it: 0/1 integers
        r = dataset._update_labels(pd.Series(sc), pd.Series([int(v) for v in tg]), thr, c["desc"])
    elif via == "series-float":
        r = dataset._update_labels(pd.Series(sc), pd.Series([float(v) for v in tg]), thr, c["desc"])
    elif via == "array-int":          # the labellings tdc itself accepts: 0/1 integers, 0.0/1.0 floats
        r = dataset._update_labels(sc, np.array([int(v) for v in tg]), thr, c["desc"])
    elif via == "array-float":
        r = dataset._update_labels(sc, np.array([float(v) for v in tg]), thr, c["desc"])
    else:
        n = len(sc)
        df = pd.DataFrame({"target": tg, "spectrum": list(range(n)), "peptide": ["P%d" % j for j in range(n)],
                           "protein": ["X"] * n, "f1": sc})
        ds = dataset.LinearPsmDataset(df, target_column="target", spectrum_columns="spectrum",
                                      peptide_column="peptide", protein_column="protein",
                                      feature_columns=None, copy_data=True)
        r = ds._update_labels(sc, eval_fdr=thr, desc=c["desc"])
    out = []
    for v in r:
        fv = float(v)
        if fv != int(fv):
            raise ValueError("non-integer label")
        out.append(int(fv))
    return out


def impl(c):
    if c["fn"] == "tdc":
        return call_impl(_impl_tdc, c)
    return call_impl(_impl_labels, c)


def _close(a, b):
    return abs(a - b) <= TOL * abs(b)


def same(c, m, i):
    if m[0] != i[0]:
        return False
    if m[0] == "err":
        return m[1] == i[1]
    if len(m[1]) != len(i[1]):
        return False
    if c["fn"] == "tdc":
        return all(_close(a, b) for a, b in zip(i[1], m[1]))
    return list(m[1]) == list(i[1])


def nontrivial(c):
    if "malformed" in c.get("tags", []):
        return True
    sc, lab = c["scores"], c["labels"]
    if len(set(sc)) < len(sc):
        return True
    n = min(len(sc), len(lab))
    order = sorted(range(n), key=lambda j: -sc[j] if c["desc"] else sc[j])
    seen_decoy = False
    for j in order:
        if not lab[j]:
            seen_decoy = True
        elif seen_decoy:
            return True
    return False


def _targets(c):
    if c["fn"] == "labels" or c["lkind"] == "bool":
        return [bool(v) for v in c["labels"]]
    if c["lkind"] == "int":
        return [v == 1 for v in c["labels"]]
    return [v == 2 for v in c["labels"]]


def _valid(c):
    if len(c["scores"]) != len(c["labels"]) or not c["scores"]:
        return False
    if c["fn"] == "labels" or c["lkind"] == "bool":
        return True
    if c["lkind"] == "int":
        return all(v in (0, 1) for v in c["labels"])
    return all(v in (0, 2) for v in c["labels"])


def oracle(c, i):
    """the property itself on the implementation's output"""
    if not _valid(c):
        return None
    tg = _targets(c)
    spec = q_spec(exact_ints(c["scores"]), tg, c["desc"])
    if i[0] != "ok":
        return f"valid input rejected/crashed: {i!r}"
    if c["fn"] == "tdc":
        for j, (a, b) in enumerate(zip(i[1], spec)):
            if not _close(a, b):
                return f"q[{j}] = {float(a)!r} but the defining formula gives {b} = {float(b)!r}"
        if len(i[1]) != len(spec):
            return "wrong length"
        return None
    thr = Fraction(c["thr"])
    exp = [(-1 if not t else (1 if q <= thr else 0)) for q, t in zip(spec, tg)]
    if list(i[1]) != exp:
        j = [a != b for a, b in zip(i[1], exp)].index(True) if len(i[1]) == len(exp) else -1
        return (f"labels differ from 'targets with q<=thr -> +1, decoys -> -1, other targets -> 0' at row {j}: "
                f"got {i[1][j] if j >= 0 else None}, expected {exp[j] if j >= 0 else None} (q={spec[j] if j >= 0 else None}, thr={c['thr']})")
    return None


def finding_key(c, m, i):
    if c["fn"] != "labels" or not _valid(c) or i is None or i[0] != "ok":
        return None
    tg = _targets(c)
    spec = q_spec(exact_ints(c["scores"]), tg, c["desc"])
    thr = Fraction(c["thr"])
    exp = [(-1 if not t else (1 if q <= thr else 0)) for q, t in zip(spec, tg)]
    if len(exp) != len(i[1]):
        return None
    bad = [j for j in range(len(exp)) if exp[j] != i[1][j]]
    if bad and all(spec[j] == thr and exp[j] == 1 and i[1][j] == 0 for j in bad):
        return "labels:q-exactly-at-threshold-float32"
    return None


def shrink(c):
    n = len(c["scores"])
    if len(c["labels"]) != n:
        return
    for j in range(n):
        yield dict(c, scores=c["scores"][:j] + c["scores"][j + 1:], labels=c["labels"][:j] + c["labels"][j + 1:])
