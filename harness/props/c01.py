"""C01 — TDC q-values: correspondence of Model/Tdc.v with mokapot.qvalues.tdc, qvalues_from_scores,
dataset._update_labels and LinearPsmDataset._update_labels.

Case format (JSON-able).  Every optional field defaults to the simplest form, so a minimal case is
{"fn", "scores", "labels", "desc", ...}:

 fn="tdc":    scores, labels, desc, lkind (bool|int|float; float labels are stored doubled: 2 = 1.0),
              sdtype / ldtype (numpy dtype strings), via (tdc | qfs | qfs-kw), call (kw | pos | allkw | default),
              layout (plain | strided | negstride | offset | readonly), negzero (decoys of a float labelling as -0.0),
              hold (None | again | later-call), nojit (run in an interpreter with NUMBA_DISABLE_JIT=1)
 fn="labels": scores, labels (0/1), desc, thr (decimal string, or None = the default eval_fdr is used), via
              (_update_labels | linear, plus the historical spellings series, series-int, ...), scont / tcont
              (array | series), sdtype / tdtype, sindex / tindex (row labels of a Series), call (pos | kw | nodesc),
              thrtype (float | int | np.float64), layout, hold, history (earlier calls on the same objects),
              and for via=linear: tcol, dfindex, colorder, copy_data, enforce, extra_cols
"""
import itertools
import json
import os
import subprocess
import sys
from fractions import Fraction

from .. import lib
from ..lib import call_impl

PROP = "C01"
RULE = ("(1) exhaustive: every weak ordering of n<=5 (quick) / n<=6 (thorough) scores x every label vector x both "
        "directions (n=6: alternating direction); (2) dtype sweeps: scores float64/float32/int8..int64/uint8..uint64 "
        "(integers also at the ends of their range), labels bool / int8..uint64 / float16..float64 (decoys also as -0.0), "
        "through tdc (desc by keyword, positionally, all-keyword, omitted) and qvalues_from_scores (positional, keyword), "
        "on contiguous, strided, negative-stride, offset-view and read-only arrays; (3) random n<=400 (quick) / 1500 "
        "(thorough) with tie density 0..0.9, decoy-only groups, all-decoy prefixes; pre-sorted inputs (ascending, "
        "descending, targets or decoys first inside every tie group), lengths around the sort-algorithm switch (16/17) "
        "and powers of two; (4) extreme but exactly representable scores: strictly monotone rescalings to tiny / huge / "
        "adjacent doubles, +0.0 with -0.0 (a tie), subnormals next to 1e308, adjacent float32 values; (5) malformed "
        "labels (2, -1, 0.5, length mismatch, empty); (6) call patterns: the same array objects passed twice (second "
        "result observed), and a result read only after two later calls on other inputs; a sample run in an "
        "interpreter started with NUMBA_DISABLE_JIT=1; (7) label vectors from _update_labels and "
        "LinearPsmDataset._update_labels: n<=60 and n<=600 (so that 0.01 and 0.05 accept something), decimal thresholds "
        "including ones hit exactly by (D+1)/T, just below and just above, eval_fdr / desc omitted, eval_fdr as int or "
        "numpy.float64; scores and labels independently as numpy array or pandas Series (default, shuffled, reversed, "
        "offset, string, duplicated row labels; the two Series labelled differently), score dtypes float64 / float32 / "
        "int, label dtypes bool / int / uint / float / object / nullable boolean / Int64; datasets whose frame has a "
        "non-default index, another column order, another name for the label column, copy_data=False, one class only "
        "(enforce_checks=False), and several calls on ONE dataset object; extreme rescalings also here; (8) outside the "
        "model (property oracle alone, extra_checks): n = 33 000 and 70 000 (quick) / 20 000 .. 131 100 (thorough), i.e. counts past 2^15, 2^16, 2^17. "
        "Scores of a float dtype numba cannot type (float16, byte-swapped) are refused by tdc and not generated (observation, see reviews/C01.md). "
        "distinct = distinct case; non-trivial = tdc: a tie group of size>=2 or a decoy ranked above a target; labels: "
        "additionally at least one target is accepted (+1) and at least one is not (0)")
ASSUMPTIONS = [
    "scores are passed to the model as exact integers (dyadic floats scaled by a common power of two): order and ties exact",
    "q comparison: |impl - exact| <= 2^-50 * exact (a float64 quotient of two exact counts; the float32 tolerance of "
    "round 1 is gone since 8723652)",
    "thresholds are decimal literals; the model gets the exact decimal, the implementation float(decimal)",
    "integer scores stay within +-2^24 (tdc turns integer scores into float32; 'small-integer dtype' in the property text)",
    "the streams of item (8) are larger than the extracted model can sort in reasonable time; they are judged by the "
    "property's defining formula (an O(n log n) evaluation that is cross-checked against the direct one on every run)",
]
TRUSTED_EXTRA = ["numpy argsort/cumsum/unique and numba are exercised, not modelled"]

KINDS = {"bool": 0, "int": 1, "float": 2}
TOL = Fraction(1, 2 ** 50)
DEFAULT_THR = "0.01"
KEY_F14 = "labels:q-exactly-at-threshold-float32"
KEY_NUMBA_DTYPE = "tdc:float-scores-numba-cannot-type"
NUMBA_HOSTILE = ("float16", ">f8", ">f4")


# ----------------------------------------------------------------------------- helpers
def weak_orderings(n):
    """all weak orderings of n items as rank vectors (ranks 0..k-1, all used)"""
    if n == 0:
        yield ()
        return
    for v in itertools.product(range(n), repeat=n):
        k = max(v) + 1
        if set(v) == set(range(k)):
            yield v


def exact_ints(values):
    """exact integer images of a list of floats/ints (common power-of-two scaling)"""
    frs = [Fraction(v) for v in values]
    den = 1
    for f in frs:
        den = max(den, f.denominator)
    return [int(f * den) for f in frs]


def q_spec_direct(scores_exact, targets, desc):
    """the defining formula, computed directly (quadratic)"""
    n = len(scores_exact)
    key = [-s if desc else s for s in scores_exact]
    fd = {}
    for k in set(key):
        t = sum(1 for j in range(n) if targets[j] and key[j] <= k)
        d = sum(1 for j in range(n) if not targets[j] and key[j] <= k)
        fd[k] = Fraction(1) if t == 0 else Fraction(d + 1, t)
    ks = sorted(fd)
    best = {}
    cur = Fraction(1)
    for k in reversed(ks):
        cur = min(cur, fd[k])
        best[k] = cur
    return [best[k] for k in key]


def q_spec(scores_exact, targets, desc):
    """the same formula in O(n log n): counts at or better than each distinct threshold, minimum from the worst"""
    n = len(scores_exact)
    key = [-s if desc else s for s in scores_exact]
    order = sorted(range(n), key=key.__getitem__)
    groups = []
    t = d = 0
    i = 0
    while i < n:
        k = key[order[i]]
        while i < n and key[order[i]] == k:
            if targets[order[i]]:
                t += 1
            else:
                d += 1
            i += 1
        groups.append((k, t, d))
    best = {}
    cur = Fraction(1)
    for k, t, d in reversed(groups):
        f = Fraction(1) if t == 0 else Fraction(d + 1, t)
        cur = min(cur, f)
        best[k] = cur
    return [best[k] for k in key]


def _layout(arr, layout, salt=0):
    """the same values behind a different memory layout"""
    import numpy as np
    n = len(arr)
    if layout in (None, "plain") or arr.ndim != 1:
        return arr
    if n == 0:
        return arr
    if layout == "strided":
        big = np.empty(2 * n + 1, dtype=arr.dtype)
        big[0::2] = np.resize(arr[::-1], n + 1)          # other values of the same kind between the elements
        big[1::2] = arr
        return big[1::2]
    if layout == "negstride":
        return arr[::-1].copy()[::-1]
    if layout == "offset":
        junk = arr[::-1][: min(n, 3)]
        big = np.concatenate([junk, arr, junk]).astype(arr.dtype)
        return big[len(junk): len(junk) + n]
    if layout == "readonly":
        a = arr.copy()
        a.flags.writeable = False
        return a
    raise ValueError(layout)


def np_scores(c):
    import numpy as np
    dt = c.get("sdtype", "float64")
    return _layout(np.array(c["scores"], dtype=dt), c.get("layout"))


def np_labels(c):
    import numpy as np
    k = c["lkind"]
    if k == "bool":
        a = np.array([bool(v) for v in c["labels"]], dtype=bool)
    elif k == "int":
        a = np.array(c["labels"], dtype=c.get("ldtype", "int64"))
    else:
        vals = [v / 2 for v in c["labels"]]
        if c.get("negzero"):
            vals = [-0.0 if v == 0 else v for v in vals]
        a = np.array(vals, dtype=c.get("ldtype", "float64"))
    return _layout(a, c.get("layout"))


# ----------------------------------------------------------------------------- generation
def _tdc_case(scores, labels, desc, lkind="bool", sdtype="float64", via="tdc", tags=(), **opt):
    c = {"fn": "tdc", "scores": list(scores), "labels": list(labels), "desc": bool(desc),
         "lkind": lkind, "sdtype": sdtype, "via": via, "tags": list(tags)}
    for k, v in opt.items():
        if v is not None:
            c[k] = v
    return c


def _lab_case(scores, labels, desc, thr, via, tags=(), **opt):
    c = {"fn": "labels", "scores": list(scores), "labels": list(labels), "desc": bool(desc), "thr": thr, "via": via,
         "tags": list(tags)}
    for k, v in opt.items():
        if v is not None:
            c[k] = v
    return c


RESCALE_MAPS = [("x*2^-60", lambda x: x * 2.0 ** -60), ("x*2^-100", lambda x: x * 2.0 ** -100),
                ("x*2^-1000", lambda x: x * 2.0 ** -1000), ("x*2^-1070", lambda x: x * 2.0 ** -1070),
                ("x*2^60", lambda x: x * 2.0 ** 60), ("x*2^900", lambda x: x * 2.0 ** 900),
                ("1+x*2^-52", lambda x: 1.0 + x * 2.0 ** -52), ("-2-x*2^-51", lambda x: -2.0 + x * 2.0 ** -51),
                ("2^52+x", lambda x: 2.0 ** 52 + x), ("x*2^-52", lambda x: x * 2.0 ** -52)]

INT_RANGES = {"int8": (-128, 127), "uint8": (0, 255), "int16": (-32768, 32767), "uint16": (0, 65535),
              "int32": (-2 ** 24, 2 ** 24), "uint32": (0, 2 ** 24), "int64": (-2 ** 24, 2 ** 24), "uint64": (0, 2 ** 24)}
INT_LABEL_DTYPES = ["int8", "uint8", "int16", "uint16", "int32", "uint32", "int64", "uint64"]
FLOAT_LABEL_DTYPES = ["float16", "float32", "float64"]
LAYOUTS = ["plain", "strided", "negstride", "offset", "readonly"]

_NOJIT_CASES = []          # the cases of this run that go to the NUMBA_DISABLE_JIT interpreter (one batch)


def _rand_labels(rng, n, lk, p=0.6):
    return [(1 if rng.random() < p else 0) * (2 if lk == "float" else 1) for _ in range(n)]


def _call_form(rng, desc, via):
    """how desc reaches tdc"""
    if via != "tdc":
        return None
    forms = ["kw", "pos", "allkw"] + (["default"] if desc else [])
    return rng.choice(forms)


def _gen_tdc_old(ctx, cases):
    """the streams of rounds 1-3, unchanged"""
    nmax = 6 if ctx.thorough else 5
    for n in range(1, nmax + 1):
        flip = 0
        for w in weak_orderings(n):
            for lab in itertools.product((0, 1), repeat=n):
                if n <= 5:
                    dirs = (True, False)
                else:
                    flip ^= 1
                    dirs = (bool(flip),)
                for desc in dirs:
                    cases.append(_tdc_case([float(r) for r in w], lab, desc, tags=("exhaustive", f"n={n}")))
    # dtype sweep
    rng = ctx.sub("dtype")
    for sd in ("float64", "float32", "int8", "uint8", "int64", "int32"):
        for lk in ("bool", "int", "float"):
            for _ in range(40 if ctx.thorough else 12):
                n = rng.randint(1, 30)
                lo = 0 if sd == "uint8" else -20
                if sd.startswith("float"):
                    sc = [rng.randint(lo * 4, 80) / 4 for _ in range(n)]
                else:
                    sc = [rng.randint(lo, 40) for _ in range(n)]
                lab = [rng.randint(0, 1) * (2 if lk == "float" else 1) for _ in range(n)]
                via = "qfs" if rng.random() < 0.25 else "tdc"
                desc = True if via == "qfs" else rng.random() < 0.5
                cases.append(_tdc_case(sc, lab, desc, lk, sd, via, tags=("dtype", sd, "labels-" + lk)))
    # integer dtypes at the ends of their range (negation / conversion corner cases)
    rng = ctx.sub("int-extremes")
    for sd, lo, hi in (("int8", -128, 127), ("uint8", 0, 255), ("int16", -32768, 32767), ("int32", -2 ** 24, 2 ** 24)):
        for _ in range(20 if ctx.thorough else 8):
            n = rng.randint(2, 24)
            pool = [lo, lo, hi, hi, lo + 1, hi - 1, 0] + [rng.randint(lo, hi) for _ in range(6)]
            sc = [rng.choice(pool) for _ in range(n)]
            sc[rng.randrange(n)] = lo
            sc[rng.randrange(n)] = hi
            lab = [rng.randint(0, 1) for _ in range(n)]
            for desc in (True, False):
                cases.append(_tdc_case(sc, lab, desc, "bool", sd, "tdc", tags=("dtype", sd, "extremes")))
    # random, larger
    rng = ctx.sub("random")
    nr = 300 if ctx.thorough else 80
    for k in range(nr):
        n = rng.randint(1, 1500 if ctx.thorough else 400)
        tie = rng.choice([0.0, 0.1, 0.5, 0.9])
        levels = max(1, int(n * (1 - tie)))
        shape = rng.choice(["mix", "decoy-top", "target-top", "all-decoy", "all-target", "float-noise"])
        sc, lab = [], []
        for j in range(n):
            if shape == "float-noise":
                s = rng.gauss(0, 1)
                if rng.random() < tie and sc:
                    s = rng.choice(sc)
            else:
                s = float(rng.randrange(levels))
            if shape == "all-decoy":
                t = 0
            elif shape == "all-target":
                t = 1
            else:
                t = 1 if rng.random() < 0.6 else 0
            sc.append(s)
            lab.append(t)
        if shape == "decoy-top":
            m = max(sc)
            for j in range(n):
                if sc[j] >= m - 1:
                    lab[j] = 0
        if shape == "target-top":
            m = max(sc)
            for j in range(n):
                if sc[j] >= m - 1:
                    lab[j] = 1
        cases.append(_tdc_case(sc, lab, rng.random() < 0.5, tags=("random", shape, f"tie={tie}")))
    # strictly monotone rescalings to extreme magnitudes: every value is an exactly representable double, so the
    # order and the tie pattern are those of the base vector (tiny magnitudes, adjacent doubles, huge offsets, subnormals)
    rng = ctx.sub("rescaled")
    for k in range(240 if ctx.thorough else 60):
        n = rng.randint(2, 60)
        levels = rng.randint(2, n)
        base = [rng.randrange(-levels // 2, levels) for _ in range(n)]
        lab = [1 if rng.random() < 0.6 else 0 for _ in range(n)]
        name, f = RESCALE_MAPS[k % len(RESCALE_MAPS)]
        sc = [f(float(x)) for x in base]
        assert len(set(sc)) == len(set(base)), name
        via = "qfs" if rng.random() < 0.2 else "tdc"
        cases.append(_tdc_case(sc, lab, True if via == "qfs" else rng.random() < 0.5, "bool", "float64", via, tags=("rescaled", name)))
    # malformed
    rng = ctx.sub("malformed")
    for k in range(60):
        n = rng.randint(1, 8)
        sc = [float(rng.randint(0, 5)) for _ in range(n)]
        kind = rng.choice(["int2", "intneg", "floathalf", "mismatch", "empty", "emptyboth"])
        if kind == "int2":
            lab = [rng.choice([0, 1, 2]) for _ in range(n)]
            lab[rng.randrange(n)] = 2
            c = _tdc_case(sc, lab, True, "int", tags=("malformed", kind))
        elif kind == "intneg":
            lab = [rng.choice([1, -1]) for _ in range(n)]
            lab[rng.randrange(n)] = -1
            c = _tdc_case(sc, lab, True, "int", tags=("malformed", kind))
        elif kind == "floathalf":
            lab = [rng.choice([0, 2, 1, 4, -2]) for _ in range(n)]
            c = _tdc_case(sc, lab, True, "float", tags=("malformed", kind))
        elif kind == "mismatch":
            lab = [rng.randint(0, 1) for _ in range(n + rng.choice([-1, 1, 2]))]
            c = _tdc_case(sc, lab, True, rng.choice(["bool", "int"]), tags=("malformed", kind))
        elif kind == "empty":
            c = _tdc_case(sc, [], True, rng.choice(["bool", "int", "float"]), tags=("malformed", kind))
        else:
            c = _tdc_case([], [], True, rng.choice(["bool", "int", "float"]), tags=("malformed", kind))
        cases.append(c)


def _small_scores(rng, n, sd):
    """scores that the dtype sd holds exactly"""
    if sd in INT_RANGES:
        lo, hi = INT_RANGES[sd]
        lo, hi = max(lo, -20), min(hi, 40)
        return [rng.randint(lo, hi) for _ in range(n)]
    return [rng.randint(-80, 80) / 4 for _ in range(n)]       # quarter-integers: exact in float16/32/64


def _gen_tdc_new(ctx, cases):
    T = ctx.thorough
    # ---- (a) every score dtype x every label dtype x every way of calling x memory layouts
    rng = ctx.sub("wb-dtype")
    sdts = ["float64", "float32", "int8", "uint8", "int16", "uint16", "int32", "uint32", "int64", "uint64"]
    ldts = [("bool", None)] + [("int", d) for d in INT_LABEL_DTYPES] + [("float", d) for d in FLOAT_LABEL_DTYPES]
    for sd in sdts:
        for lk, ld in ldts:
            for _ in range(10 if T else 2):
                n = rng.randint(1, 40)
                sc = _small_scores(rng, n, sd)
                lab = _rand_labels(rng, n, lk, rng.choice([0.3, 0.6, 0.8]))
                via = rng.choice(["tdc", "tdc", "tdc", "qfs", "qfs-kw"])
                desc = True if via != "tdc" else rng.random() < 0.5
                lay = rng.choice(LAYOUTS)
                cases.append(_tdc_case(sc, lab, desc, lk, sd, via, ldtype=ld, call=_call_form(rng, desc, via), layout=lay,
                                       negzero=(True if lk == "float" and rng.random() < 0.4 else None),
                                       tags=("wb-dtype", "s:" + sd, "l:" + (ld or "bool"), "via=" + via, "layout=" + lay)))
    # integer score dtypes not swept before, at the ends of their range, with integer / float labels as well
    rng = ctx.sub("wb-int-extremes")
    for sd in ("uint16", "uint32", "int64", "uint64", "int8", "int16"):
        lo, hi = INT_RANGES[sd]
        for _ in range(10 if T else 4):
            n = rng.randint(2, 24)
            pool = [lo, lo, hi, hi, lo + 1, hi - 1, 0] + [rng.randint(lo, hi) for _ in range(6)]
            sc = [rng.choice(pool) for _ in range(n)]
            sc[rng.randrange(n)] = lo
            sc[rng.randrange(n)] = hi
            lk = rng.choice(["bool", "int", "float"])
            ld = None if lk == "bool" else rng.choice(INT_LABEL_DTYPES if lk == "int" else FLOAT_LABEL_DTYPES)
            lab = _rand_labels(rng, n, lk, 0.5)
            for desc in (True, False):
                cases.append(_tdc_case(sc, lab, desc, lk, sd, "tdc", ldtype=ld, call=_call_form(rng, desc, "tdc"),
                                       tags=("wb-dtype", "s:" + sd, "extremes")))
    # ---- (b) +0.0 and -0.0 are one tie group; subnormals and the largest doubles in one vector; adjacent float32
    rng = ctx.sub("wb-special")
    tiny, huge = 5e-324, 1.7976931348623157e308
    pools = {"negzero": [0.0, -0.0, 0.0, -0.0, tiny, -tiny, 1.0, -1.0],
             "wide": [0.0, -0.0, tiny, -tiny, 2 * tiny, 2.2250738585072014e-308, -2.2250738585072014e-308, 1.0,
                      1.0 + 2.0 ** -52, 1.0 - 2.0 ** -53, -1.0, huge, -huge, huge / 2, 2.0 ** 53, 2.0 ** 53 + 2, 1e-300, -1e300]}
    for name, pool in pools.items():
        for _ in range(120 if T else 20):
            n = rng.randint(2, 30)
            sc = [rng.choice(pool) for _ in range(n)]
            if name == "negzero":
                sc[rng.randrange(n)] = 0.0
                sc[(rng.randrange(n - 1) + 1 + sc.index(0.0)) % n] = -0.0
            lab = _rand_labels(rng, n, "bool", 0.6)
            via = rng.choice(["tdc", "tdc", "qfs"])
            desc = True if via != "tdc" else rng.random() < 0.5
            cases.append(_tdc_case(sc, lab, desc, "bool", "float64", via, call=_call_form(rng, desc, via),
                                   layout=rng.choice(LAYOUTS), tags=("wb-special", name)))
    for _ in range(40 if T else 12):
        n = rng.randint(2, 40)
        base = rng.choice([1.0, -3.0, 1024.0, 2.0 ** -100])
        lv = rng.randint(2, 6)
        sc = [base * (1.0 + rng.randrange(lv) * 2.0 ** -23) for _ in range(n)]       # exact float32 neighbours
        lab = _rand_labels(rng, n, "bool", 0.6)
        desc = rng.random() < 0.5
        cases.append(_tdc_case(sc, lab, desc, "bool", "float32", "tdc", call=_call_form(rng, desc, "tdc"),
                               tags=("wb-special", "adjacent-float32")))
    # ---- (c) pre-sorted inputs, fixed order inside tie groups, lengths around algorithm switches
    rng = ctx.sub("wb-sorted")
    sizes = [15, 16, 17, 31, 32, 33, 63, 64, 65, 127, 128, 129, 255, 256, 257] + ([511, 512, 513, 1023, 1024, 1025] if T else [])
    for n in sizes:
        for arrangement in ("asc", "desc", "asc-targets-first", "desc-decoys-first", "shuffled"):
            tie = rng.choice([0.0, 0.5, 0.9])
            levels = max(1, int(n * (1 - tie)))
            rows = [(float(rng.randrange(levels)), 1 if rng.random() < 0.6 else 0) for _ in range(n)]
            if arrangement == "asc":
                rows.sort(key=lambda r: r[0])
            elif arrangement == "desc":
                rows.sort(key=lambda r: -r[0])
            elif arrangement == "asc-targets-first":
                rows.sort(key=lambda r: (r[0], -r[1]))
            elif arrangement == "desc-decoys-first":
                rows.sort(key=lambda r: (-r[0], r[1]))
            desc = rng.random() < 0.5
            sd = rng.choice(["float64", "float64", "float32", "int32"])
            sc = [int(r[0]) if sd == "int32" else r[0] for r in rows]
            cases.append(_tdc_case(sc, [r[1] for r in rows], desc, "bool", sd, "tdc", call=_call_form(rng, desc, "tdc"),
                                   tags=("wb-sorted", arrangement, f"tie={tie}")))
    # ---- (d) call patterns: same objects twice; result read after later calls
    rng = ctx.sub("wb-hold")
    for k in range(300 if T else 40):
        n = rng.randint(1, 50)
        sd = rng.choice(["float64", "float64", "float32", "int16", "uint8"])
        lk = rng.choice(["bool", "bool", "int", "float"])
        sc = _small_scores(rng, n, sd)
        lab = _rand_labels(rng, n, lk, 0.6)
        via = rng.choice(["tdc", "tdc", "qfs"])
        desc = True if via != "tdc" else rng.random() < 0.5
        hold = ("again", "later-call")[k % 2]
        cases.append(_tdc_case(sc, lab, desc, lk, sd, via, call=_call_form(rng, desc, via), hold=hold,
                               layout=rng.choice(["plain", "plain", "strided", "negstride"]),
                               tags=("wb-hold", "hold=" + hold)))
    # ---- (e) the same kind of input in an interpreter started with NUMBA_DISABLE_JIT=1
    rng = ctx.sub("wb-nojit")
    del _NOJIT_CASES[:]
    for k in range(400 if T else 50):
        n = rng.randint(1, 24)
        sd = rng.choice(["float64", "float32", "int8", "uint16"])
        lk = rng.choice(["bool", "int", "float"])
        levels = rng.randint(1, n)
        sc = [rng.randrange(levels) for _ in range(n)] if sd in INT_RANGES else [float(rng.randrange(levels)) / 4 for _ in range(n)]
        lab = _rand_labels(rng, n, lk, rng.choice([0.2, 0.6, 0.9]))
        via = rng.choice(["tdc", "tdc", "qfs"])
        desc = True if via != "tdc" else rng.random() < 0.5
        c = _tdc_case(sc, lab, desc, lk, sd, via, call=_call_form(rng, desc, via), nojit=True, tags=("wb-nojit",))
        _NOJIT_CASES.append(c)
        cases.append(c)
    # (float16 and byte-swapped float scores are refused by numba inside tdc with NotImplementedError / TypingError:
    # no q-value is returned, so the property, which speaks about returned q-values of supported dtypes, is not
    # engaged; observation kept in repo_fixes/OBS-tdc-float16-scores.py, not a finding)


SERIES_LABEL_DTYPES = ["bool", "int64", "int8", "uint8", "float64", "float32", "object", "boolean", "Int64"]
ARRAY_LABEL_DTYPES = ["bool", "int64", "int8", "uint8", "int32", "uint16", "float64", "float32", "float16"]
INDEX_KINDS = ["default", "shuffled", "reversed", "offset", "strings", "dups"]
THRS = ["0.01", "0.05", "0.1", "0.2", "0.25", "0.3", "0.5", "0.125", "0.4", "0.75", "1.0", "0.333", "0.0"]
TCOLS = ["target", "Label", "label", "is_target", "scores", "targets", "qvals", 0]


def _gen_labels_old(ctx, cases):
    rng = ctx.sub("labels")
    nl = 1200 if ctx.thorough else 300
    for k in range(nl):
        n = rng.randint(1, 60)
        levels = rng.randint(1, n)
        sc = [float(rng.randrange(levels)) for _ in range(n)]
        lab = [1 if rng.random() < 0.7 else 0 for _ in range(n)]
        thr = rng.choice(THRS)
        via = rng.choice(["_update_labels", "_update_labels", "linear", "series", "series-int", "series-float", "array-int", "array-float"])
        cases.append({"fn": "labels", "scores": sc, "labels": lab, "desc": rng.random() < 0.5 if via != "linear" else rng.random() < 0.5,
                      "thr": thr, "via": via, "tags": ["labels", via, "thr=" + thr]})
    # thresholds hit exactly by (D+1)/T: t targets on top, d decoys right below
    for (d, t) in [(0, 20), (1, 20), (0, 10), (1, 10), (0, 5), (2, 10), (0, 4), (1, 8), (0, 100), (4, 100), (0, 2), (2, 30)]:
        fr = Fraction(d + 1, t)
        thr = str(float(fr))
        if Fraction(thr) != fr:
            continue
        sc = [100.0 - j for j in range(t)] + [50.0 - j for j in range(d + 3)] + [10.0, 9.0]
        lab = [1] * t + [0] * (d + 3) + [1, 1]
        for via in ("_update_labels", "linear"):
            cases.append({"fn": "labels", "scores": sc, "labels": lab, "desc": True, "thr": thr, "via": via,
                          "tags": ["labels", via, "thr-exact-hit", "thr=" + thr]})


def _label_scores(rng, n, sd, shape):
    """(scores, description) for the label streams: scores exactly representable in dtype sd"""
    levels = rng.randint(1, n)
    if sd in INT_RANGES:
        lo, hi = INT_RANGES[sd]
        if levels > hi - lo:
            return [rng.randint(lo, hi) for _ in range(n)]
        off = rng.choice([0, lo, hi - levels + 1])
        return [off + rng.randrange(levels) for _ in range(n)]
    if sd == "float32":
        return [rng.randrange(levels) / 4 - 3 for _ in range(n)]
    if shape == "rescaled":
        name, f = rng.choice(RESCALE_MAPS)
        return [f(float(rng.randrange(-(levels // 2) - 1, levels))) for _ in range(n)]
    if shape == "noise":
        out = []
        for _ in range(n):
            out.append(rng.choice(out) if out and rng.random() < 0.3 else rng.gauss(0, 1))
        return out
    return [float(rng.randrange(levels)) for _ in range(n)]


def _accepting_labels(rng, n, sc, desc):
    """labels with a target-rich top, so that small thresholds accept something"""
    order = sorted(range(n), key=lambda j: -sc[j] if desc else sc[j])
    lab = [0] * n
    top = rng.randint(n // 4, max(n // 4, (3 * n) // 4))
    for r, j in enumerate(order):
        p = 0.985 if r < top else 0.45
        lab[j] = 1 if rng.random() < p else 0
    return lab


def _label_opts(rng, via, n, lab):
    """containers, dtypes, row labels, call form"""
    o = {}
    o["scont"] = rng.choice(["array", "series"])
    o["tcont"] = rng.choice(["array", "series"]) if via == "_update_labels" else None
    o["sdtype"] = rng.choice(["float64", "float64", "float64", "float32", "int32", "int64", "int16", "uint8"])
    if via == "_update_labels":
        o["tdtype"] = rng.choice(SERIES_LABEL_DTYPES if o["tcont"] == "series" else ARRAY_LABEL_DTYPES)
        if o["tcont"] == "series":
            o["tindex"] = rng.choice(INDEX_KINDS)
    else:
        o["tdtype"] = rng.choice(["bool", "bool", "int64", "int8", "float64", "object"])
        o["tcol"] = rng.choice(TCOLS)
        o["dfindex"] = rng.choice(INDEX_KINDS)
        o["colorder"] = rng.randrange(6)
        o["copy_data"] = rng.random() < 0.5
        o["extra_cols"] = rng.randint(0, 2)
        both = any(lab) and not all(lab)
        o["enforce"] = (rng.random() < 0.7) if both else False
    if o["scont"] == "series":
        o["sindex"] = rng.choice(INDEX_KINDS)
    o["call"] = rng.choice(["pos", "kw", "kw"])
    o["layout"] = rng.choice(["plain", "plain", "strided", "negstride", "readonly"]) if o["scont"] == "array" else None
    return o


def _gen_labels_new(ctx, cases):
    T = ctx.thorough
    rng = ctx.sub("wb-labels")
    for k in range(3000 if T else 420):
        big = k % 3 == 0
        n = rng.randint(100, 600) if big else rng.randint(1, 60)
        via = rng.choice(["_update_labels", "_update_labels", "linear"])
        desc = rng.random() < 0.5
        shape = rng.choice(["levels", "levels", "noise", "rescaled"])
        lab0 = [1 if rng.random() < 0.7 else 0 for _ in range(n)]
        o = _label_opts(rng, via, n, lab0)
        sc = _label_scores(rng, n, o["sdtype"], shape)
        lab = _accepting_labels(rng, n, sc, desc) if big else lab0
        if via == "linear":
            both = any(lab) and not all(lab)
            if not both:
                o["enforce"] = False
        thr = rng.choice(THRS[:4] + THRS if big else THRS)
        r = rng.random()
        if r < 0.12 and desc:
            o["call"] = "nodesc"                       # desc left to its default (True)
        r = rng.random()
        if r < 0.15:
            thr = None                                 # eval_fdr left to its default (0.01)
            if o["call"] == "pos":
                o["call"] = "kw"
        elif r < 0.25 and thr in ("0.0", "1.0"):
            o["thrtype"] = "int"
        elif r < 0.4:
            o["thrtype"] = "np.float64"
        o["hold"] = rng.choice([None, None, None, "again", "later-call"])
        if o["tdtype"].startswith("float") and rng.random() < 0.4:
            o["negzero"] = True
        if rng.random() < (0.5 if via == "linear" else 0.15):
            hist = []
            for _ in range(rng.randint(1, 3)):
                hs = [float(rng.randrange(max(1, n // 2))) for _ in range(n)]
                hist.append({"scores": hs, "thr": rng.choice(THRS), "desc": rng.random() < 0.5})
            o["history"] = hist
        tags = ["wb-labels", "via=" + via, "s=" + o["scont"] + ":" + o["sdtype"], "thr=" + str(thr), "shape=" + shape,
                "n>=100" if big else "n<=60"]
        if via == "_update_labels":
            tags.append("t=" + o["tcont"] + ":" + o["tdtype"])
        else:
            tags += ["t=frame:" + o["tdtype"], "tcol=" + str(o["tcol"]), "dfindex=" + o["dfindex"],
                     "copy_data=" + str(o["copy_data"]), "enforce=" + str(o["enforce"])]
        if o.get("negzero"):
            tags.append("decoys=-0.0")
        for key in ("sindex", "tindex"):
            if o.get(key):
                tags.append(key + "=" + o[key])
        tags.append("call=" + o["call"])
        if o.get("hold"):
            tags.append("hold=" + o["hold"])
        if o.get("history"):
            tags.append("history")
        if o.get("thrtype"):
            tags.append("thrtype=" + o["thrtype"])
        cases.append(_lab_case(sc, lab, desc, thr, via, tags, **o))
    # thresholds hit exactly by (D+1)/T, and the decimals right below / above, both directions, every container
    rng = ctx.sub("wb-thr-hit")
    for (d, t) in [(0, 20), (1, 20), (0, 10), (1, 10), (0, 5), (2, 10), (0, 4), (1, 8), (0, 100), (4, 100), (0, 2), (2, 30),
                   (0, 50), (1, 100), (0, 200), (9, 100), (0, 25), (3, 16), (0, 8), (1, 4)]:
        fr = Fraction(d + 1, t)
        hit = str(float(fr))
        if Fraction(hit) != fr:
            continue
        for thr, kind in ((hit, "hit"), ("%.7f" % (float(fr) - 1e-6), "below"), ("%.7f" % (float(fr) + 1e-6), "above")):
            for rep in range(3 if T else 1):
                desc = rng.random() < 0.5
                sgn = 1.0 if desc else -1.0
                sc = [sgn * (100.0 - j) for j in range(t)] + [sgn * (50.0 - j) for j in range(d + 3)] + [sgn * 10.0, sgn * 9.0]
                lab = [1] * t + [0] * (d + 3) + [1, 1]
                perm = list(range(len(sc)))
                rng.shuffle(perm)
                sc, lab = [sc[j] for j in perm], [lab[j] for j in perm]
                via = rng.choice(["_update_labels", "linear"])
                o = _label_opts(rng, via, len(sc), lab)
                o["sdtype"] = rng.choice(["float64", "float32", "int32"])
                if o["sdtype"] == "int32":
                    sc = [int(v) for v in sc]
                cases.append(_lab_case(sc, lab, desc, thr, via, ["wb-labels", "wb-thr-" + kind, "via=" + via, "thr=" + thr], **o))
    # eval_fdr omitted with enough targets on top for 0.01 to accept some
    rng = ctx.sub("wb-thr-default")
    for k in range(24 if T else 8):
        t = rng.choice([100, 150, 250, 400])
        d = rng.randint(0, 3)
        desc = rng.random() < 0.5
        sgn = 1.0 if desc else -1.0
        sc = [sgn * (1000.0 - j) for j in range(t)] + [sgn * (500.0 - j // 2) for j in range(d + 40)]
        lab = [1] * t + [0] * d + [rng.randint(0, 1) for _ in range(40)]
        perm = list(range(len(sc)))
        rng.shuffle(perm)
        sc, lab = [sc[j] for j in perm], [lab[j] for j in perm]
        via = ("_update_labels", "linear")[k % 2]
        o = _label_opts(rng, via, len(sc), lab)
        o["sdtype"] = "float64"
        o["call"] = "nodesc" if desc and rng.random() < 0.5 else "kw"
        cases.append(_lab_case(sc, lab, desc, None, via, ["wb-labels", "wb-thr-default", "via=" + via], **o))


def gen(ctx):
    cases = []
    _gen_tdc_old(ctx, cases)
    _gen_tdc_new(ctx, cases)
    _gen_labels_old(ctx, cases)
    _gen_labels_new(ctx, cases)
    return cases


# ----------------------------------------------------------------------------- model side
def _thr_fraction(c):
    return Fraction(c["thr"] if c.get("thr") is not None else DEFAULT_THR)


def encode(c):
    ex = exact_ints(c["scores"])
    if c["fn"] == "tdc":
        return "c01.tdc %s %s %d %s" % (lib.b(c["desc"]), lib.lst(ex), KINDS[c["lkind"]], lib.lst(c["labels"]))
    return "c01.labels %s %s %s %s" % (lib.b(c["desc"]), lib.lst(ex), lib.lst(c["labels"], lib.b),
                                       lib.q(_thr_fraction(c)))


def decode(c, t):
    if c["fn"] == "tdc":
        return t.result(lambda: t.lst(t.q))
    return t.result(lambda: t.lst(t.z))


# ----------------------------------------------------------------------------- implementation side
def _other_inputs(sc, lb):
    """two further inputs for the 'result read after later calls' pattern: same length, and longer"""
    import numpy as np
    n = len(sc)
    a1, b1 = sc[::-1].copy(), (lb[::-1].copy() if len(lb) == n else lb.copy())
    a2 = np.concatenate([sc, sc[:3], sc[:2]])
    b2 = np.concatenate([lb, lb[:3], lb[:2]]) if len(lb) == n else lb
    return [(a1, b1), (a2, b2)]


def _one_dim(r):
    """one value per PSM: anything that is not a flat sequence is not 'the q-value / label of each PSM in input order'"""
    import numpy as np
    if np.ndim(r) != 1:
        raise ValueError("result has %d dimensions" % np.ndim(r))
    return r


def _impl_tdc(c):
    from mokapot import qvalues
    sc, lb = np_scores(c), np_labels(c)
    via, call, desc = c.get("via", "tdc"), c.get("call", "kw"), c["desc"]

    def run(a, b):
        if via == "qfs":
            return qvalues.qvalues_from_scores(a, b, "tdc")
        if via == "qfs-kw":
            return qvalues.qvalues_from_scores(scores=a, targets=b, qvalue_algorithm="tdc")
        if call == "pos":
            return qvalues.tdc(a, b, desc)
        if call == "allkw":
            return qvalues.tdc(scores=a, target=b, desc=desc)
        if call == "default":
            assert desc is True
            return qvalues.tdc(a, b)
        return qvalues.tdc(a, b, desc=desc)

    hold = c.get("hold")
    q = run(sc, lb)
    if hold == "again":                      # the very same objects again; the second answer is the one observed
        q = run(sc, lb)
    elif hold == "later-call":               # the answer is read only after two more calls on other inputs
        for a, b in _other_inputs(sc, lb):
            try:
                run(a, b)
            except Exception:
                pass
    return [Fraction(float(v)) for v in _one_dim(q)]


_OLD_VIA = {"series": ("series", "series", "bool"), "series-int": ("series", "series", "int64"),
            "series-float": ("series", "series", "float64"), "array-int": ("array", "array", "int64"),
            "array-float": ("array", "array", "float64")}


def _index(kind, n, salt):
    """row labels of a Series / DataFrame; deterministic from (kind, n, salt)"""
    import random
    r = random.Random(1000003 * n + salt)
    if kind in (None, "default"):
        return None
    if kind == "shuffled":
        p = list(range(n))
        r.shuffle(p)
        return p
    if kind == "reversed":
        return list(range(n - 1, -1, -1))
    if kind == "offset":
        return list(range(7 + salt, 7 + salt + n))
    if kind == "strings":
        p = ["r%d" % j for j in range(n)]
        r.shuffle(p)
        return p
    if kind == "dups":
        return [j // 2 for j in range(n)] if salt % 2 else [0] * n
    raise ValueError(kind)


def _target_values(tg, tdtype, negzero=False):
    """the label vector tg (bools) in the requested element type, as a list or numpy array"""
    import numpy as np
    if tdtype == "bool":
        return np.array([bool(v) for v in tg], dtype=bool)
    if tdtype == "object":
        return np.array([bool(v) for v in tg], dtype=object)
    if tdtype in ("boolean", "Int64"):
        import pandas as pd
        return pd.array([bool(v) for v in tg], dtype="boolean") if tdtype == "boolean" else pd.array([int(v) for v in tg], dtype="Int64")
    if tdtype.startswith("float"):
        return np.array([float(v) if v or not negzero else -0.0 for v in tg], dtype=tdtype)
    return np.array([int(v) for v in tg], dtype=tdtype)


def _impl_labels(c):
    import numpy as np
    import pandas as pd
    from mokapot import dataset
    via = c["via"]
    scont, tcont, tdtype = c.get("scont", "array"), c.get("tcont", "array"), c.get("tdtype", "bool")
    if via in _OLD_VIA:
        scont, tcont, tdtype = _OLD_VIA[via]
        via = "_update_labels"
    n = len(c["scores"])
    tg = [bool(v) for v in c["labels"]]
    desc = c["desc"]
    call = c.get("call", "pos")

    def mk_scores(values):
        a = _layout(np.array(values, dtype=c.get("sdtype", "float64")), c.get("layout"))
        if scont == "series":
            return pd.Series(a, index=_index(c.get("sindex"), len(a), 1))
        return a

    def mk_thr(thr):
        if thr is None:
            return None
        ty = c.get("thrtype", "float")
        if ty == "int":
            return int(Fraction(thr))
        if ty == "np.float64":
            return np.float64(float(thr))
        return float(thr)

    if via == "_update_labels":
        tv = _target_values(tg, tdtype, c.get("negzero"))
        if tcont == "series":
            targets = pd.Series(tv, index=_index(c.get("tindex"), n, 2))
        else:
            targets = _layout(tv, c.get("layout"))

        def run(scores, thr, d, form):
            thr = mk_thr(thr)
            if thr is None:
                if form == "nodesc":
                    return dataset._update_labels(scores, targets)
                return dataset._update_labels(scores=scores, targets=targets, desc=d)
            if form == "nodesc":
                return dataset._update_labels(scores, targets, thr)
            if form == "kw":
                return dataset._update_labels(scores=scores, targets=targets, eval_fdr=thr, desc=d)
            return dataset._update_labels(scores, targets, thr, d)
    else:
        tcol = c.get("tcol", "target")
        cols = {tcol: _target_values(tg, tdtype, c.get("negzero")), "spectrum": list(range(n)), "peptide": ["P%d" % j for j in range(n)],
                "protein": ["X"] * n, "f1": [float(v) for v in c["scores"]]}
        for e in range(c.get("extra_cols", 0)):
            cols["f%d" % (e + 2)] = [float((j * 7 + e) % 5) for j in range(n)]
        names = list(cols)
        k = c.get("colorder", 0)
        if k:
            import random
            random.Random(k).shuffle(names)
        df = pd.DataFrame({nm: cols[nm] for nm in names}, index=_index(c.get("dfindex"), n, 3))
        both = any(tg) and not all(tg)
        ds = dataset.LinearPsmDataset(df, target_column=tcol, spectrum_columns="spectrum", peptide_column="peptide",
                                      protein_column="protein", feature_columns=None,
                                      copy_data=c.get("copy_data", True), enforce_checks=c.get("enforce", both))

        def run(scores, thr, d, form):
            thr = mk_thr(thr)
            if thr is None:
                if form == "nodesc":
                    return ds._update_labels(scores)
                return ds._update_labels(scores, desc=d)
            if form == "nodesc":
                return ds._update_labels(scores, thr)
            if form == "kw":
                return ds._update_labels(scores=scores, eval_fdr=thr, desc=d)
            return ds._update_labels(scores, thr, d)

    for h in c.get("history", []):           # earlier calls on the same label object / dataset
        try:
            run(mk_scores(h["scores"]), h["thr"], h["desc"], "kw")
        except Exception:
            pass
    if call == "nodesc":
        assert desc is True
    scores = mk_scores(c["scores"])
    r = run(scores, c.get("thr"), desc, call)
    hold = c.get("hold")
    if hold == "again":
        r = run(scores, c.get("thr"), desc, call)
    elif hold == "later-call":
        for hs, hd in ((list(reversed(c["scores"])), desc), (c["scores"], not desc)):
            try:
                run(mk_scores(hs), "0.3", hd, "kw")
            except Exception:
                pass
    out = []
    for v in _one_dim(r):
        fv = float(v)
        if fv != int(fv):
            raise ValueError("non-integer label")
        out.append(int(fv))
    return out


def _strip(c):
    return {k: v for k, v in c.items() if k != "tags"}


def _ser(r):
    if r[0] == "ok":
        return ["ok", [[v.numerator, v.denominator] if isinstance(v, Fraction) else v for v in r[1]]]
    return [r[0], r[1]]


def _deser(r):
    if r[0] == "ok":
        return ("ok", [Fraction(v[0], v[1]) if isinstance(v, list) else v for v in r[1]])
    return (r[0], r[1])


def impl_here(c):
    if c["fn"] == "tdc":
        return call_impl(_impl_tdc, c)
    return call_impl(_impl_labels, c)


_NOJIT_RESULTS = {}


def _run_nojit(cases):
    """run cases in a fresh interpreter with NUMBA_DISABLE_JIT=1 (same PYTHONPATH: the implementation under test)"""
    env = dict(os.environ, NUMBA_DISABLE_JIT="1")
    p = subprocess.run([sys.executable, "-W", "ignore", "-m", "harness.c01_worker"], cwd=str(lib.VERIF), env=env,
                       input=json.dumps([_strip(c) for c in cases]).encode(), stdout=subprocess.PIPE, stderr=subprocess.PIPE,
                       timeout=1800)
    if p.returncode != 0:
        raise RuntimeError("c01_worker failed: " + p.stderr.decode(errors="replace")[-400:])
    res = json.loads(p.stdout.decode().strip().split("\n")[-1])
    if not res.get("nojit"):
        raise RuntimeError("worker interpreter did not run with the JIT disabled")
    return [_deser(r) for r in res["results"]]


def impl(c):
    if c.get("nojit"):
        h = lib.stable_hash(_strip(c))
        if h not in _NOJIT_RESULTS and _NOJIT_CASES:
            batch = list(_NOJIT_CASES)
            for cc, r in zip(batch, _run_nojit(batch)):
                _NOJIT_RESULTS[lib.stable_hash(_strip(cc))] = r
        if h not in _NOJIT_RESULTS:
            _NOJIT_RESULTS[h] = _run_nojit([c])[0]
        return _NOJIT_RESULTS[h]
    return impl_here(c)


def _close(a, b):
    return abs(a - b) <= TOL * abs(b)


def same(c, m, i):
    if m[0] != i[0]:
        return False
    if m[0] == "err":
        return m[1] == i[1]
    if len(m[1]) != len(i[1]):
        return False
    if c["fn"] == "tdc":
        return all(_close(a, b) for a, b in zip(i[1], m[1]))
    return list(m[1]) == list(i[1])


def _ties_or_inversion(c):
    sc, lab = c["scores"], c["labels"]
    if len(set(sc)) < len(sc):
        return True
    n = min(len(sc), len(lab))
    order = sorted(range(n), key=lambda j: -sc[j] if c["desc"] else sc[j])
    seen_decoy = False
    for j in order:
        if not lab[j]:
            seen_decoy = True
        elif seen_decoy:
            return True
    return False


def nontrivial(c):
    if "malformed" in c.get("tags", []):
        return True
    if not _ties_or_inversion(c):
        return False
    if c["fn"] == "labels":
        if not _valid(c):
            return False
        tg = _targets(c)
        thr = _thr_fraction(c)
        qs = [q for q, t in zip(q_spec(exact_ints(c["scores"]), tg, c["desc"]), tg) if t]
        return any(q <= thr for q in qs) and any(q > thr for q in qs)
    return True


def _targets(c):
    if c["fn"] == "labels" or c["lkind"] == "bool":
        return [bool(v) for v in c["labels"]]
    if c["lkind"] == "int":
        return [v == 1 for v in c["labels"]]
    return [v == 2 for v in c["labels"]]


def _valid(c):
    if len(c["scores"]) != len(c["labels"]) or not c["scores"]:
        return False
    if c["fn"] == "labels" or c["lkind"] == "bool":
        return True
    if c["lkind"] == "int":
        return all(v in (0, 1) for v in c["labels"])
    return all(v in (0, 2) for v in c["labels"])


def _how(c):
    bits = [k + "=" + str(c[k]) for k in ("via", "call", "hold", "layout", "nojit", "sdtype", "ldtype", "scont", "tcont", "tdtype",
                                          "sindex", "tindex", "dfindex", "tcol", "copy_data", "enforce", "thrtype") if c.get(k) is not None]
    if c.get("history"):
        bits.append("after %d earlier calls on the same object" % len(c["history"]))
    return " [" + ", ".join(bits) + "]"


def oracle(c, i):
    """the property itself on the implementation's output"""
    if not _valid(c):
        return None
    tg = _targets(c)
    spec = q_spec(exact_ints(c["scores"]), tg, c["desc"])
    if i[0] != "ok":
        return f"valid input rejected/crashed: {i!r}" + _how(c)
    if c["fn"] == "tdc":
        if len(i[1]) != len(spec):
            return "wrong length" + _how(c)
        for j, (a, b) in enumerate(zip(i[1], spec)):
            if not _close(a, b):
                return f"q[{j}] = {float(a)!r} but the defining formula gives {b} = {float(b)!r}" + _how(c)
        return None
    thr = _thr_fraction(c)
    exp = [(-1 if not t else (1 if q <= thr else 0)) for q, t in zip(spec, tg)]
    if list(i[1]) != exp:
        j = [a != b for a, b in zip(i[1], exp)].index(True) if len(i[1]) == len(exp) else -1
        return (f"labels differ from 'targets with q<=thr -> +1, decoys -> -1, other targets -> 0' at row {j}: "
                f"got {i[1][j] if j >= 0 else None}, expected {exp[j] if j >= 0 else None} (q={spec[j] if j >= 0 else None}, "
                f"thr={c.get('thr') if c.get('thr') is not None else 'default ' + DEFAULT_THR})" + _how(c))
    return None


def _numba_refuses(c):
    """the call stops with numba's own 'cannot type this array' errors (and with nothing else)"""
    try:
        _impl_tdc(c)
    except NotImplementedError as e:          # float16: numba.core.typing raises NotImplementedError('float16')
        return "float16" in str(e)
    except Exception as e:
        return type(e).__name__ == "TypingError" and type(e).__module__.startswith("numba")
    return False


def finding_key(c, m, i):
    if i is None or not _valid(c):
        return None
    if c["fn"] == "tdc":
        # float scores in a dtype numba has no type for: tdc stops inside _fdr2qvalue instead of returning q-values
        if c.get("sdtype") in NUMBA_HOSTILE and i[0] == "err" and not c.get("nojit") and _numba_refuses(c):
            return KEY_NUMBA_DTYPE
        return None
    if i[0] != "ok":
        return None
    tg = _targets(c)
    spec = q_spec(exact_ints(c["scores"]), tg, c["desc"])
    thr = _thr_fraction(c)
    exp = [(-1 if not t else (1 if q <= thr else 0)) for q, t in zip(spec, tg)]
    if len(exp) != len(i[1]):
        return None
    bad = [j for j in range(len(exp)) if exp[j] != i[1][j]]
    if bad and all(spec[j] == thr and exp[j] == 1 and i[1][j] == 0 for j in bad):
        return KEY_F14
    return None


def shrink(c):
    n = len(c["scores"])
    if len(c["labels"]) != n or c.get("nojit"):      # (one interpreter start per candidate: not worth it for n <= 24)
        return
    if c.get("history"):
        yield dict(c, history=c["history"][1:])
    for j in range(n):
        cc = dict(c, scores=c["scores"][:j] + c["scores"][j + 1:], labels=c["labels"][:j] + c["labels"][j + 1:])
        if c.get("history"):
            cc["history"] = [dict(h, scores=h["scores"][:j] + h["scores"][j + 1:]) for h in c["history"]]
        yield cc


# ----------------------------------------------------------------------------- checks outside the model
def _big_case(rng, n, kind):
    levels = {"dense-ties": max(2, n // 50), "few-ties": n * 4, "two-level": 2}[kind]
    sc = [float(rng.randrange(levels)) for _ in range(n)]
    order = sorted(range(n), key=lambda j: -sc[j])
    lab = [0] * n
    for r, j in enumerate(order):
        lab[j] = 1 if rng.random() < (0.995 if r < n // 3 else 0.5) else 0
    return sc, lab


def _prefix_fail(c, n):
    """the first n rows of a big case (to hand out a failing input the model can replay)"""
    cc = dict(c, scores=c["scores"][:n], labels=c["labels"][:n])
    r = impl_here(cc)
    return cc if oracle(cc, r) else None


def extra_checks(ctx):
    """(a) the O(n log n) evaluation of the defining formula against the direct one; (b) inputs far larger than the
    extracted model can sort (counts past 2^15 / 2^16 / 2^17), judged by the formula alone"""
    fails, info = [], {}
    rng = ctx.sub("wb-spec-selfcheck")
    bad = 0
    for _ in range(400):
        n = rng.randint(1, 40)
        lv = rng.randint(1, n)
        sc = [rng.randrange(-lv, lv + 1) for _ in range(n)]
        tg = [rng.random() < 0.6 for _ in range(n)]
        d = rng.random() < 0.5
        if q_spec(sc, tg, d) != q_spec_direct(sc, tg, d):
            bad += 1
    info["spec_selfcheck"] = {"compared": 400, "different": bad}
    if bad:
        fails.append({"what": "harness: the fast evaluation of the defining formula differs from the direct one"})
    rng = ctx.sub("wb-big")
    sizes = [20000, 33000, 40000, 66000, 70000, 131100] if ctx.thorough else [33000, 70000]
    n_eval = 0
    for n in sizes:
        for kind in (("dense-ties", "few-ties", "two-level") if ctx.thorough else ("dense-ties", "few-ties")):
            sc, lab = _big_case(rng, n, kind)
            desc = rng.random() < 0.5
            if not desc:
                sc = [-s for s in sc]
            sd = rng.choice(["float64", "float32", "int32"])
            if sd == "int32":
                sc = [int(s) for s in sc]
            lk = rng.choice(["bool", "int", "float"])
            probes = [_tdc_case(sc, [v * (2 if lk == "float" else 1) for v in lab], desc, lk, sd, "tdc",
                                call="kw", tags=("wb-big", kind, f"n={n}")),
                      _lab_case(sc, lab, desc, rng.choice([None, "0.01", "0.05", "0.001"]), rng.choice(["_update_labels", "linear"]),
                                ["wb-big", kind, f"n={n}"], sdtype=sd, scont=rng.choice(["array", "series"]),
                                tcont=rng.choice(["array", "series"]), tdtype=rng.choice(["bool", "int64", "uint8"]), call="kw")]
            for c in probes:
                r = impl_here(c)
                n_eval += 1
                msg = oracle(c, r)
                if msg:
                    small = None
                    for m in (50, 200, 800, 1500):
                        small = _prefix_fail(c, m)
                        if small:
                            break
                    fails.append({"what": f"n={n} ({kind}, {c['fn']}): " + msg,
                                  "failing_input": small if small else {"note": "input too large to store; regenerate with "
                                                                        f"ctx.sub('wb-big') n={n} kind={kind}", "fn": c["fn"]}})
    info["big_inputs_judged_by_the_formula"] = {"sizes": sizes, "evaluations": n_eval}
    return fails, info
