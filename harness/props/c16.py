"""C16 — protein grouping: correspondence of Model/Grouping.v with mokapot.read_fasta
(peptide_map / shared_peptides / protein_map / has_decoys), run under several PYTHONHASHSEED values."""
import itertools
import json
import os
import subprocess
import sys
import tempfile

from .. import lib

PROP = "C16"
RULE = ("cases: (1) exhaustive: every ordered tuple of <=3 (quick) / <=4 (thorough) proteins, each with any subset "
        "(also the empty one) of <=3 / <=4 peptides - i.e. every incidence structure in every FASTA entry order - "
        "under two naming schemes (all targets; target/decoy pairs; for 4 proteins the two schemes alternate over the "
        "structures instead of both being run), each peptide realised as a real tryptic string "
        "and each protein as the concatenation of its peptides, parsed by the real read_fasta([KR], 0 missed "
        "cleavages, min_length 2); (2) random larger structures (chains of subsets, a protein inside two others, "
        "equal sets, repeated peptides in a sequence, junk below min_length, descriptions, wrapped sequences, two "
        "files, other prefixes, entry-order shuffles of the same structure); (2b) names with the decoy prefix inside, "
        "at the end, bare, truncated, upper-cased, doubled; (2c) decoy prefixes that contain regular-expression "
        "metacharacters ('rev.', 'd|x', 'dec+', '[d]', '^d', 'de?', 'd*', '(d)', 'rev\\') with names that the prefix "
        "would match as a pattern but does not literally start; (2d) large structures (12-60 proteins over 10-28 "
        "peptides, several maximal sets, proteins inside 1-4 of them, equal sets, sub-subsets), each in 3 entry orders; "
        "(2e) file-level variation of small structures: 1-4 files, each with 0/1/2 final line ends (also the non-last "
        "ones), LF or CRLF, blank lines between entries and inside sequences, sequences wrapped to 1..7 characters "
        "per line, per-entry descriptions (also with '>' , tabs and double blanks inside), the argument given as str / "
        "pathlib.Path / tuple / list / mixed list, names with , ; | : . # and names that are prefixes of each other; "
        "(3) random sequences digested with "
        "random parameters (missed cleavages, semi, clip, min/max length) where the incidence is what the public "
        "mokapot.digest returns per protein; (3b) structures realised with other enzymes ([KR](?!P), K, [FWY], R|K, "
        "a compiled case-insensitive [kr] on lower-case sequences; pattern given as str or compiled), digest "
        "parameters explicit, partly or wholly left to read_fasta's defaults, or all arguments positional, combined "
        "with the name / prefix / file-level variation above, each also in a second entry order; the incidence is what "
        "the public mokapot.digest returns for the same parameters; (4) malformed: repeated protein names, only "
        "decoys, no peptides, empty file.  Every case is run by the real code in one subprocess per PYTHONHASHSEED "
        "(3 fixed + 1 derived from the run seed, quick; 5 + 1 thorough) and "
        "all seeds must give the same canonical result; in every subprocess every 4th case is run a second time at the "
        "end, in reverse order, and must give the same result (call order / leftover state); the model is run with a "
        "pseudo-random member of the family "
        "of iteration orders gr_perm k.  distinct = distinct (entries, names, realisation); non-trivial = some "
        "protein's peptide set is contained in another's, or a peptide is shared (also for the malformed stream)")
ASSUMPTIONS = [
    "protein names contain no blank (read_fasta keeps the header up to the first blank), hence no ', ' or '; ': "
    "group names and shared-peptide strings are split back into member lists on these separators",
    "results are compared as sets: group name -> sorted member list, shared peptide -> set of groups, "
    "protein_map as a dict; the member order inside a name and dict orders are not compared; but one group must be "
    "written with ONE name string wherever it occurs in peptide_map / shared_peptides (reported as name_variants)",
    "the iteration order of the set `matches` is not observable; the model is executed with members of the family "
    "gr_perm k and the theorem C16_order_free covers every permutation-valued oracle",
    "the first character of the first file is '>' (read_fasta drops it unseen), no file is empty, no tab directly "
    "after a protein name, no trailing blanks on sequence lines: such files are outside the generated domain",
    "Proteins.decoy_prefix must be the prefix that was passed (checked by the harness only, not part of the model)",
]
TRUSTED_EXTRA = ["mokapot.digest per protein as the incidence oracle in the 'digest' and 'realised' streams (C17 covers "
                 "digest itself)",
                 "FASTA text layout produced by the harness (header line, optional description, wrapped sequence, "
                 "line ends, blank lines, distribution over files)"]

HASHSEEDS_QUICK = ["0", "1", "12345"]
HASHSEEDS_THOROUGH = ["0", "1", "12345", "777", "4242424242"]

_AA = "ACDEFGHILMNPQSTVWY"


def pepstr(i):
    """a distinct tryptic peptide for id i: no K/R inside, K or R at the end, length >= 2"""
    body = _AA[i % len(_AA)]
    j = i // len(_AA)
    while j:
        body += _AA[j % len(_AA)]
        j //= len(_AA)
    if i % 3 == 2:
        body += body[0]
    return body + ("R" if i % 2 else "K")


# ----------------------------------------------------------------------------- realisation
def _fasta_texts_fmt(case, fmt):
    """file-level variation: wrap width, line end, blank lines, entries distributed over files, final line ends"""
    eol = fmt.get("eol", "\n")
    recs = []
    for e in case["entries"]:
        seq = e["seq"]
        w = fmt.get("wrap", 0)
        if seq:
            lines = [seq[j:j + w] for j in range(0, len(seq), w)] if w else [seq]
        else:
            lines = []
        if fmt.get("blankin") and len(lines) > 1:
            lines.insert(1, "")
        recs.append(eol.join([">" + e["name"] + e.get("desc", "")] + lines))
    if not recs:
        return [""]
    n = len(recs)
    nf = max(1, min(int(fmt.get("nfiles", 1)), n))
    cut = [(j * n) // nf for j in range(nf + 1)]
    fin = fmt.get("finalnl") or [1]
    sep = eol * (1 + int(fmt.get("blank", 0)))
    return [sep.join(recs[cut[j]:cut[j + 1]]) + eol * int(fin[j % len(fin)]) for j in range(nf)]


def fasta_texts(case):
    """-> list of file contents"""
    if case.get("fmt") is not None:
        return _fasta_texts_fmt(case, case["fmt"])
    lay = case.get("layout", "plain")
    recs = []
    for e in case["entries"]:
        name, seq = e["name"], e["seq"]
        hdr = ">" + name + (" some description OS=x" if lay == "desc" else "")
        if lay == "wrap" and len(seq) > 3:
            h = len(seq) // 2
            recs.append(hdr + "\n" + seq[:h] + "\n" + seq[h:])
        else:
            recs.append(hdr + "\n" + seq if seq else hdr)
    if lay == "twofiles" and len(recs) > 1:
        h = len(recs) // 2
        return ["\n".join(recs[:h]) + "\n", "\n".join(recs[h:])]
    if not recs:
        return [""]
    return ["\n".join(recs) + ("\n" if lay != "nofinalnl" else "")]


# what read_fasta documents as its defaults (used when a case leaves an argument out)
_RF_DEFAULTS = dict(enzyme="[KR]", missed_cleavages=2, clip_nterm_methionine=False, min_length=6, max_length=50,
                    semi=False, decoy_prefix="decoy_")
_RF_ORDER = ["enzyme", "missed_cleavages", "clip_nterm_methionine", "min_length", "max_length", "semi", "decoy_prefix"]


def _explicit(case):
    """the arguments the case passes explicitly (enzyme still as its description)"""
    kw = dict(enzyme=case.get("enzyme") or {"pattern": "[KR]"}, missed_cleavages=0, clip_nterm_methionine=False,
              min_length=2, max_length=50, semi=False, decoy_prefix=case.get("prefix", "decoy_"))
    kw.update(case.get("digest", {}))
    for o in case.get("omit", []):
        kw.pop(o, None)
    return kw


def effective_digest(case):
    """(enzyme description, digest keyword arguments) that read_fasta has to use for this case"""
    kw = _explicit(case)
    for o in case.get("omit", []):
        kw[o] = {"pattern": _RF_DEFAULTS[o]} if o == "enzyme" else _RF_DEFAULTS[o]
    enz = kw.pop("enzyme")
    kw.pop("decoy_prefix")
    return enz, kw


def _mk_enzyme(enz):
    import re
    if enz.get("compiled"):
        return re.compile(enz["pattern"], int(enz.get("flags", 0)))
    return enz["pattern"]


def _canon_real(case, prot):
    ids = {s: i for s, i in case["pepids"]}
    def members(nm):
        return sorted(nm.split(", "))
    uniq = sorted([ids[p], members(g)] for p, g in prot.peptide_map.items())
    shared = sorted([ids[p], sorted(members(g) for g in v.split("; "))] for p, v in prot.shared_peptides.items())
    pmap = sorted([t, d] for t, d in prot.protein_map.items())
    out = {"unique": uniq, "shared": shared, "pmap": pmap, "has_decoys": bool(prot.has_decoys)}
    # one group = one name string, wherever it is written
    raw = {}
    for g in list(prot.peptide_map.values()) + [x for v in prot.shared_peptides.values() for x in v.split("; ")]:
        raw.setdefault(tuple(members(g)), set()).add(g)
    variants = sorted(sorted(v) for v in raw.values() if len(v) > 1)
    if variants:
        out["name_variants"] = variants
    if prot.decoy_prefix != case.get("prefix", "decoy_"):
        out["decoy_prefix_attr"] = repr(prot.decoy_prefix)
    for nm, val in (("peptide_map", prot.peptide_map), ("shared_peptides", prot.shared_peptides),
                    ("protein_map", prot.protein_map)):
        if not isinstance(val, dict) or not all(isinstance(k, str) and isinstance(v, str) for k, v in val.items()):
            out["bad_type_" + nm] = True
    return out


def run_real(case, tmpdir):
    """one real read_fasta call in this process"""
    from pathlib import Path
    from mokapot import read_fasta
    texts = fasta_texts(case)
    # the same paths are written again and again with other content (a cache keyed by path would show)
    paths = []
    for n, t in enumerate(texts):
        p = os.path.join(tmpdir, f"f{n}.fasta")
        with open(p, "w", newline="") as f:
            f.write(t)
        paths.append(p)
    cont = (case.get("fmt") or {}).get("container")
    if cont is None:
        arg = paths[0] if len(paths) == 1 else tuple(paths)
    elif cont == "str":
        arg = paths[0] if len(paths) == 1 else tuple(paths)
    elif cont == "path":
        arg = Path(paths[0]) if len(paths) == 1 else tuple(Path(p) for p in paths)
    elif cont == "tuple":
        arg = tuple(paths)
    elif cont == "list":
        arg = list(paths)
    elif cont == "list-path":
        arg = [Path(p) for p in paths]
    elif cont == "mixed":
        arg = [Path(p) if n % 2 == 0 else p for n, p in enumerate(paths)]
    else:
        raise ValueError("unknown container " + str(cont))
    kw = _explicit(case)
    if "enzyme" in kw:
        kw["enzyme"] = _mk_enzyme(kw["enzyme"])
    if case.get("call") == "pos":
        args = [kw[k] for k in _RF_ORDER]          # needs every argument explicit
        kw = {}
    else:
        args = []
    def go():
        return _canon_real(case, read_fasta(arg, *args, **kw))
    r = lib.call_impl(go)
    return [r[0], r[1]]


RERUN_EVERY = 4


def _worker_main():
    import logging
    logging.disable(logging.CRITICAL)
    cases = json.loads(sys.stdin.read())
    out = []
    with tempfile.TemporaryDirectory(prefix="c16_") as d:
        def one(c):
            try:
                return run_real(c, d)
            except BaseException as e:  # noqa
                return ["crash", f"{type(e).__name__}: {e}"[:200]]
        for c in cases:
            out.append(one(c))
        # call order / leftover state: a sample of the cases once more, in reverse order, after everything else
        for j in range(len(cases) - 1, -1, -1):
            if j % RERUN_EVERY == 0:
                again = one(cases[j])
                if again != out[j]:
                    out[j] = ["order-dependent", {"first": out[j], "again": again}]
    sys.stdout.write(json.dumps(out))


def _digest_main():
    """incidence oracle for the 'digest' / 'realised' streams: the public mokapot.digest per sequence"""
    import logging
    logging.disable(logging.CRITICAL)
    from mokapot import digest
    jobs = json.loads(sys.stdin.read())
    out = []
    for seqs, kw in jobs:
        kw = dict(kw)
        enz = _mk_enzyme(kw.pop("enzyme", None) or {"pattern": "[KR]"})
        out.append([sorted(digest(s, enzyme_regex=enz, **kw)) for s in seqs])
    sys.stdout.write(json.dumps(out))


def _spawn(entry, payload, hashseed):
    env = dict(os.environ)
    env["PYTHONHASHSEED"] = hashseed
    env["PYTHONPATH"] = env.get("PYTHONPATH", "/repo") + os.pathsep + str(lib.VERIF)
    env["PYTHONDONTWRITEBYTECODE"] = "1"
    p = subprocess.Popen([sys.executable, "-W", "ignore", "-c",
                          f"from harness.props import c16; c16.{entry}()"],
                         stdin=subprocess.PIPE, stdout=subprocess.PIPE, stderr=subprocess.PIPE,
                         cwd=str(lib.VERIF), env=env)
    return p, payload


def _collect(procs):
    res = []
    import threading
    outs = [None] * len(procs)
    def feed(k, p, payload):
        o, e = p.communicate(payload.encode())
        outs[k] = (p.returncode, o, e)
    ths = [threading.Thread(target=feed, args=(k, p, pl)) for k, (p, pl) in enumerate(procs)]
    for t in ths:
        t.start()
    for t in ths:
        t.join()
    for rc, o, e in outs:
        if rc != 0:
            raise RuntimeError("C16 worker failed: " + e.decode(errors="replace")[-400:])
        res.append(json.loads(o.decode()))
    return res


def _strip(case):
    return {k: v for k, v in case.items() if k not in ("tags", "k")}


_CACHE = {}
_SEEDS = HASHSEEDS_QUICK


def _real_batch(cases, seeds):
    """run all cases under every hash seed; cache the combined verdict per case"""
    keys, todo = [], []
    for c in cases:
        h = lib.stable_hash(_strip(c))
        if h not in _CACHE and h not in keys:
            keys.append(h)
            todo.append(_strip(c))
    if not todo:
        return
    payload = json.dumps(todo)
    per_seed = _collect([_spawn("_worker_main", payload, s) for s in seeds])
    for j, h in enumerate(keys):
        rs = [per_seed[i][j] for i in range(len(seeds))]
        first = rs[0]
        if all(r == first for r in rs):
            _CACHE[h] = tuple(first)
        else:
            _CACHE[h] = ("hash-dependent", {s: r for s, r in zip(seeds, rs)})


# ----------------------------------------------------------------------------- case construction
def mk_case(struct, names, k, tags, prefix="decoy_", layout="plain", extra_seq=None, fmt=None, descs=None):
    """struct: list of peptide-id lists (repetitions allowed); names: list of protein names"""
    used = sorted({i for ps in struct for i in ps})
    entries = []
    for n, (nm, ps) in enumerate(zip(names, struct)):
        seq = "".join(pepstr(i) for i in ps)
        e = {"name": nm, "peps": list(ps)}
        if extra_seq and extra_seq[n]:
            seq += extra_seq[n]
            e["tail"] = extra_seq[n]
        e["seq"] = seq
        if descs and descs[n]:
            e["desc"] = descs[n]
        entries.append(e)
    c = {"fn": "read_fasta", "entries": entries, "prefix": prefix, "layout": layout, "k": k,
         "pepids": [[pepstr(i), i] for i in used], "tags": list(tags)}
    if fmt is not None:
        c["fmt"] = fmt
    return c


# ---- building blocks of the random streams
def _rand_struct(rng, npep=None):
    """(kind, struct): chains of subsets, a protein inside several others, equal sets, free"""
    npep = npep or rng.randint(3, 9)
    kind = rng.choice(["chain", "two-parents", "equal", "free", "mixed"])
    struct = []
    allp = list(range(npep))
    if kind == "chain":
        cur = rng.sample(allp, rng.randint(2, npep))
        while cur:
            struct.append(list(cur))
            if rng.random() < 0.3:
                struct.append(list(cur))
            cur = cur[:rng.randint(0, len(cur) - 1)] if rng.random() < 0.8 else cur[:-1]
    elif kind == "two-parents":
        core = rng.sample(allp, rng.randint(1, max(1, npep - 2)))
        rest = [p for p in allp if p not in core]
        for _k in range(rng.randint(2, 4)):
            extra = rng.sample(rest, rng.randint(1, len(rest))) if rest else []
            struct.append(core + extra)
        struct.append(list(core))
        if rng.random() < 0.5:
            struct.append(core[:max(1, len(core) - 1)])
    elif kind == "equal":
        base = rng.sample(allp, rng.randint(1, npep))
        for _k in range(rng.randint(2, 4)):
            struct.append(rng.sample(base, len(base)))
        struct.append(rng.sample(allp, rng.randint(0, npep)))
    else:
        for _k in range(rng.randint(2, 8)):
            struct.append(rng.sample(allp, rng.randint(0, npep)))
    if kind == "mixed":
        struct = [ps + ([rng.choice(ps)] if ps and rng.random() < 0.5 else []) for ps in struct]
    rng.shuffle(struct)
    return kind, struct


def _large_struct(rng):
    """12-60 proteins over 10-28 peptides: several maximal sets, proteins inside 1-4 of them, equal sets, sub-subsets"""
    npep = rng.randint(10, 28)
    allp = list(range(npep))
    tops = [rng.sample(allp, rng.randint(4, max(5, (2 * npep) // 3))) for _ in range(rng.randint(3, 7))]
    struct = [list(t) for t in tops]
    for _ in range(rng.randint(8, 50)):
        r = rng.random()
        if r < 0.55:
            par = rng.sample(tops, rng.randint(1, min(4, len(tops))))
            inter = [x for x in par[0] if all(x in q for q in par[1:])]
            base = inter or par[0]
        elif r < 0.8:
            base = rng.choice(struct)               # a subset of anything so far (sub-subsets, chains)
        else:
            base = None
        if base is None:
            struct.append(rng.sample(allp, rng.randint(0, 4)))
        elif rng.random() < 0.2:
            struct.append(rng.sample(base, len(base)))      # an equal set
        else:
            struct.append(rng.sample(base, rng.randint(1, len(base))) if base else [])
    rng.shuffle(struct)
    return struct


PREFIXES = ["decoy_", "decoy_", "rev_", "d", "XX"]
META_PREFIXES = {            # prefix -> names that the prefix matches as a pattern without being a literal start
    "rev.": ["revXA", "rev_A", "revA"],
    "d|x": ["dA", "xA", "d", "x|A"],
    "dec+": ["decA", "deccA", "decc+A"],
    "[d]": ["dA", "d]A", "[A"],
    "^d": ["dA", "d", "^A"],
    "de?": ["dA", "deA", "d"],
    "d*": ["A", "ddA", "dA"],
    "(d)": ["dA", "(dA", "d)A"],
    "rev\\": ["revA", "rev", "rev/A"],
}
_NAME_SHAPES = ["sp|Q%d|X", "P%d", "d%d", "tr|A%d|B_HUMAN", "P%d,x", "g%d;y", "N%d.1", "#%d", "ENSP%d:a", "P%d-2",
                "P", "P%d%d", "p%d"]
DESCS = ["", "", " some description OS=x", " 5'->3' exonuclease OS=Homo sapiens", " >", " a  b", " x\ty z",
         "  two blanks first", " ", " >P0 looks like a header", " decoy_ rev_ d"]
CONTAINERS = ["str", "str", "path", "tuple", "list", "list-path", "mixed"]


def _rand_names(rng, n, prefix, crafted=()):
    names = []
    for j in range(n):
        r = rng.random()
        shape = rng.choice(_NAME_SHAPES)
        base = shape % ((j,) * shape.count("%d")) if "%d" in shape else shape + "x" * j
        if crafted and r < 0.3:
            names.append(rng.choice(list(crafted)))
        elif r < 0.3 and names:
            names.append(prefix + rng.choice(names))
        elif r < 0.4:
            names.append(prefix + base)
        elif r < 0.5:
            names.append(rng.choice([prefix.upper() + str(j), "X" + prefix + str(j), "T%d_" % j + prefix,
                                     prefix[:-1] + str(j)]))
        else:
            names.append(base)
    seen = set()
    for j, nm in enumerate(names):
        nm = nm.replace(" ", "_") or "q"
        while nm in seen:
            nm = nm + "x"
        seen.add(nm)
        names[j] = nm
    return names


def _rand_fmt(rng, n):
    nf = rng.choice([1, 1, 2, 2, 3, 4])
    return {"wrap": rng.choice([0, 0, 1, 2, 3, 5, 7]), "eol": rng.choice(["\n", "\n", "\r\n"]),
            "blank": rng.choice([0, 0, 1, 2]), "blankin": rng.random() < 0.2, "nfiles": nf,
            "finalnl": [rng.choice([0, 0, 1, 1, 2]) for _ in range(nf)], "container": rng.choice(CONTAINERS)}


def _fmt_tags(c):
    f = c["fmt"]
    nf = max(1, min(f["nfiles"], len(c["entries"]) or 1))
    tg = [f"files={nf}", "container=" + f["container"], "eol=" + ("crlf" if f["eol"] == "\r\n" else "lf")]
    if any(f["finalnl"][j % len(f["finalnl"])] == 0 for j in range(nf - 1)):
        tg.append("inner-file-without-final-eol")
    if f["wrap"]:
        tg.append("wrapped")
    if f["blank"] or f["blankin"]:
        tg.append("blank-lines")
    if any(">" in e.get("desc", "") for e in c["entries"]):
        tg.append("gt-in-description")
    return tg


ENZYMES = [   # (enzyme description, letters for peptide bodies, cleavage letters)
    ({"pattern": "[KR]"}, "ACDEFGHILMNPQSTVWY", "KR"),
    ({"pattern": "[KR](?!P)"}, "ACDEFGHILMNPPPQSTVWY", "KR"),
    ({"pattern": "K"}, "ACDEFGHILMNPQRSTVWY", "K"),
    ({"pattern": "[FWY]"}, "ACDEGHIKLMNPQRSTV", "FWY"),
    ({"pattern": "R|K"}, "ACDEFGHILMNPQSTVWY", "KR"),
    ({"pattern": "[kr]", "flags": 2, "compiled": True}, "acdefghilmnpqstvwy", "kr"),      # re.IGNORECASE == 2
]


def _subsets(npep):
    return [[i for i in range(npep) if m >> i & 1] for m in range(1 << npep)]


def _max_parents(struct):
    """the largest number of different maximal peptide sets that contain one protein"""
    sets = {frozenset(t) for t in struct if t}
    mx = [t for t in sets if not any(t < u for u in sets)]
    return max([sum(1 for t in mx if q <= t) for q in sets] or [0])


def _multi(struct):
    """does some protein lie inside two incomparable others? (then `matches` has >= 2 elements)"""
    sets = [frozenset(s) for s in struct if s]
    for a in sets:
        sup = {b for b in sets if a <= b}
        mx = [b for b in sup if not any(b < c for c in sup)]
        if len(set(mx)) >= 2:
            return True
    return False


def gen(ctx):
    global _SEEDS
    _SEEDS = list(HASHSEEDS_THOROUGH if ctx.thorough else HASHSEEDS_QUICK)
    extra_seed = str(ctx.sub("hashseed").randrange(1, 2 ** 32))
    if extra_seed not in _SEEDS:
        _SEEDS.append(extra_seed)
    cases = []
    rk = ctx.sub("perm")
    # (1) exhaustive small scope: ordered tuples = every structure in every entry order
    nmax = 4 if ctx.thorough else 3
    subs = _subsets(nmax)
    for n in range(1, nmax + 1):
        tnames = [f"P{j}" for j in range(n)]
        dnames = [(f"T{j // 2}" if j % 2 == 0 else f"decoy_T{j // 2}") for j in range(n)]
        for idx, tup in enumerate(itertools.product(subs, repeat=n)):
            struct = [list(s) for s in tup]
            multi = _multi(struct)
            tg = ["exhaustive", f"n={n}"] + (["multi-match"] if multi else [])
            # n <= 3: both naming schemes; n = 4: the two schemes alternate over the structures
            if n <= 3 or idx % 2 == 0:
                cases.append(mk_case(struct, tnames, rk.randrange(24), tg + ["targets-only"]))
            if n <= 3 or idx % 2 == 1:
                cases.append(mk_case(struct, dnames, rk.randrange(24), tg + ["target-decoy-pairs"]))
            if multi:
                cases.append(mk_case(struct, tnames, rk.randrange(1, 720), tg + ["targets-only", "second-order"]))
    # (2) random larger structures
    rng = ctx.sub("structures")
    nrand = 1500 if ctx.thorough else 300
    for _ in range(nrand):
        npep = rng.randint(3, 9)
        kind = rng.choice(["chain", "two-parents", "equal", "free", "free", "mixed"])
        struct = []
        allp = list(range(npep))
        if kind == "chain":
            cur = rng.sample(allp, rng.randint(2, npep))
            while cur:
                struct.append(list(cur))
                if rng.random() < 0.3:
                    struct.append(list(cur))
                cur = cur[:rng.randint(0, len(cur) - 1)] if rng.random() < 0.8 else cur[:-1]
        elif kind == "two-parents":
            core = rng.sample(allp, rng.randint(1, max(1, npep - 2)))
            rest = [p for p in allp if p not in core]
            for _k in range(rng.randint(2, 3)):
                extra = rng.sample(rest, rng.randint(1, len(rest))) if rest else []
                struct.append(core + extra)
            struct.append(list(core))
            if rng.random() < 0.5:
                struct.append(core[:max(1, len(core) - 1)])
        elif kind == "equal":
            base = rng.sample(allp, rng.randint(1, npep))
            for _k in range(rng.randint(2, 4)):
                struct.append(rng.sample(base, len(base)))
            struct.append(rng.sample(allp, rng.randint(0, npep)))
        else:
            for _k in range(rng.randint(2, 8)):
                struct.append(rng.sample(allp, rng.randint(0, npep)))
        if kind == "mixed":
            # repeat peptides inside a sequence
            struct = [ps + ([rng.choice(ps)] if ps and rng.random() < 0.5 else []) for ps in struct]
        rng.shuffle(struct)
        prefix = rng.choice(["decoy_", "decoy_", "rev_", "d", "XX"])
        names = []
        for j in range(len(struct)):
            r = rng.random()
            base = rng.choice(["sp|Q%d|X" % j, "P%d" % j, "d%d" % j, prefix.upper() + str(j),
                               "X" + prefix + str(j), "T%d_" % j + prefix])
            if r < 0.25 and names:
                t = rng.choice(names)
                cand = prefix + t
                names.append(cand if cand not in names else base)
            elif r < 0.35:
                names.append(prefix + base)
            else:
                names.append(base)
        # unique names
        seen = set()
        for j, nm in enumerate(names):
            while nm in seen:
                nm = nm + "x"
            seen.add(nm)
            names[j] = nm
        layout = rng.choice(["plain", "plain", "desc", "wrap", "twofiles", "nofinalnl"])
        extra = [rng.choice(["", "", "", "G", "A", "W"]) for _ in struct]
        c = mk_case(struct, names, rng.randrange(5040), ["random", kind, layout, "prefix=" + prefix],
                    prefix=prefix, layout=layout, extra_seq=extra)
        cases.append(c)
        # the same structure in two more entry orders: compared with the model each, and with each other by the oracle
        for _k in range(2):
            perm = list(range(len(struct)))
            rng.shuffle(perm)
            cases.append(mk_case([struct[i] for i in perm], [names[i] for i in perm], rng.randrange(5040),
                                 ["random", kind, layout, "reordered"], prefix=prefix, layout=layout,
                                 extra_seq=[extra[i] for i in perm]))
    # (2b) where the prefix stands in a name: inside, at the end, the bare prefix, a proper prefix of it, other case
    for pre in ("decoy_", "rev_", "d"):
        pool = ["A", pre + "A", "x" + pre + "A", "A" + pre, pre, pre[:-1] or "q", pre.upper() + "A", pre + pre + "A",
                "B", "x" + pre + "B"]
        for names in itertools.combinations(pool, 3):
            for struct in ([[0, 1], [1], [2]], [[0], [0], [0, 1]]):
                cases.append(mk_case(struct, list(names), rk.randrange(24), ["prefix-position", "prefix=" + pre],
                                     prefix=pre))
    # (2c) decoy prefixes with regular-expression metacharacters: startswith is literal
    rng = ctx.sub("meta-prefix")
    for pre, crafted in META_PREFIXES.items():
        pool = ["A", pre + "A", "x" + pre + "A", pre, "B", pre + "B"] + list(crafted)
        combos = list(itertools.combinations(pool, 3))
        if not ctx.thorough:
            combos = rng.sample(combos, 30)
        for names in combos:
            for struct in ([[0, 1], [1], [2]], [[0], [0], [0, 1]]):
                cases.append(mk_case(struct, list(names), rk.randrange(24), ["meta-prefix", "prefix=" + pre],
                                     prefix=pre))
    # (2d) large structures, each in three entry orders
    rng = ctx.sub("large")
    for _ in range(150 if ctx.thorough else 30):
        struct = _large_struct(rng)
        prefix = rng.choice(PREFIXES)
        names = _rand_names(rng, len(struct), prefix)
        for o in range(3):
            perm = list(range(len(struct)))
            if o:
                rng.shuffle(perm)
            nmatch = _max_parents(struct)
            cases.append(mk_case([struct[i] for i in perm], [names[i] for i in perm], rng.randrange(5040),
                                 ["large", "prefix=" + prefix, "supersets<=%d" % min(nmatch, 6)]
                                 + (["reordered"] if o else []), prefix=prefix))
    # (2e) file-level variation of small structures
    rng = ctx.sub("files")
    for _ in range(1200 if ctx.thorough else 300):
        kind, struct = _rand_struct(rng, rng.randint(2, 6))
        struct = struct[:6] or [[0]]
        prefix = rng.choice(PREFIXES)
        names = _rand_names(rng, len(struct), prefix)
        fmt = _rand_fmt(rng, len(struct))
        descs = [rng.choice(DESCS) for _ in struct]
        extra = [rng.choice(["", "", "", "G", "A", "W"]) for _ in struct]
        c = mk_case(struct, names, rng.randrange(720), ["files", kind, "prefix=" + prefix], prefix=prefix,
                    extra_seq=extra, fmt=fmt, descs=descs)
        c["tags"] += _fmt_tags(c)
        cases.append(c)
    # (3) random sequences through the real digest with random parameters
    rng = ctx.sub("digest")
    ndig = 600 if ctx.thorough else 150
    jobs, metas = [], []
    for _ in range(ndig):
        nprot = rng.randint(1, 6)
        frag = ["".join(rng.choice("AGLMW") for _ in range(rng.randint(1, 4))) + rng.choice("KR") for _ in range(5)]
        seqs = []
        for _j in range(nprot):
            s = "".join(rng.choice(frag) for _ in range(rng.randint(0, 5)))
            if rng.random() < 0.3:
                s = "M" + s
            if rng.random() < 0.3:
                s += rng.choice(["A", "GG", "LLL"])
            seqs.append(s)
        kw = {"missed_cleavages": rng.choice([0, 0, 1, 2]), "clip_nterm_methionine": rng.random() < 0.3,
              "min_length": rng.randint(1, 5), "max_length": rng.choice([6, 9, 50]), "semi": rng.random() < 0.2}
        jobs.append([seqs, kw])
        metas.append((seqs, kw, rng.randrange(5040), rng.random() < 0.3))
    if jobs:
        dig = _collect([_spawn("_digest_main", json.dumps(jobs), "0")])[0]
        for (seqs, kw, k, pairs), peps in zip(metas, dig):
            allp = sorted({p for ps in peps for p in ps})
            ids = {p: i for i, p in enumerate(allp)}
            if pairs:
                names = [(f"T{j // 2}" if j % 2 == 0 else f"decoy_T{j // 2}") for j in range(len(seqs))]
            else:
                names = [f"P{j}" for j in range(len(seqs))]
            entries = [{"name": nm, "peps": [ids[p] for p in ps], "seq": s} for nm, ps, s in zip(names, peps, seqs)]
            cases.append({"fn": "read_fasta", "entries": entries, "prefix": "decoy_", "layout": "plain", "k": k,
                          "digest": kw, "pepids": [[p, i] for p, i in ids.items()],
                          "tags": ["digest", f"mc={kw['missed_cleavages']}"] + (["semi"] if kw["semi"] else [])})
    # (3b) structures realised with other enzymes / digest parameters / defaults / positional arguments, combined with
    #      the name, prefix and file-level variation; the incidence is what the public digest returns
    rng = ctx.sub("realised")
    jobs, metas = [], []
    for _ in range(900 if ctx.thorough else 220):
        kind, struct = _rand_struct(rng, rng.randint(3, 8))
        struct = struct[:8]
        style = rng.choice(["explicit", "explicit", "partial", "defaults", "positional"])
        enz, letters, cuts = rng.choice(ENZYMES)
        enz = dict(enz)
        if "compiled" not in enz:
            enz["compiled"] = rng.random() < 0.4
        omit_enzyme = style in ("defaults", "partial") and rng.random() < 0.4
        if omit_enzyme:                      # read_fasta's own default enzyme
            enz, letters, cuts = dict(ENZYMES[0][0], compiled=False), ENZYMES[0][1], ENZYMES[0][2]
        npep = 1 + max([i for ps in struct for i in ps] or [0])
        frags = []
        for i in range(npep):
            body = "".join(rng.choice(letters) for _ in range(rng.randint(1, 7)))
            frags.append(body + rng.choice(cuts))
        seqs = []
        for ps in struct:
            sq = "".join(frags[i] for i in ps)
            if rng.random() < 0.25:
                sq = ("m" if letters.islower() else "M") + sq
            if rng.random() < 0.25:
                sq += "".join(rng.choice(letters) for _ in range(rng.randint(1, 3)))
            seqs.append(sq)
        dg = {"missed_cleavages": rng.choice([0, 0, 1, 2, 3]), "clip_nterm_methionine": rng.random() < 0.3,
              "min_length": rng.randint(1, 7), "max_length": rng.choice([6, 9, 15, 50]), "semi": rng.random() < 0.15}
        omit = []
        if style == "defaults":
            omit = [k for k in _RF_ORDER if k != "enzyme"]
        elif style == "partial":
            omit = [k for k in _RF_ORDER if k != "enzyme" and rng.random() < 0.4]
        if omit_enzyme:
            omit.append("enzyme")
        if "decoy_prefix" in omit:
            prefix, crafted = "decoy_", ()
        elif rng.random() < 0.3:
            prefix = rng.choice(sorted(META_PREFIXES))
            crafted = META_PREFIXES[prefix]
        else:
            prefix, crafted = rng.choice(PREFIXES), ()
        names = _rand_names(rng, len(struct), prefix, crafted)
        fmt = _rand_fmt(rng, len(struct))
        descs = [rng.choice(DESCS) for _ in struct]
        proto = {"fn": "read_fasta", "prefix": prefix, "layout": "plain", "digest": dg, "omit": omit, "enzyme": enz,
                 "fmt": fmt}
        if style == "positional":
            proto["call"] = "pos"
        e_enz, e_kw = effective_digest(proto)
        jobs.append([seqs, dict(e_kw, enzyme=e_enz)])
        metas.append((proto, names, descs, seqs, kind, style, rng.randrange(5040), rng.randrange(5040),
                      rng.sample(range(len(struct)), len(struct))))
    if jobs:
        dig = _collect([_spawn("_digest_main", json.dumps(jobs), "0")])[0]
        for (proto, names, descs, seqs, kind, style, k1, k2, perm), peps in zip(metas, dig):
            ids = {p: i for i, p in enumerate(sorted({p for ps in peps for p in ps}))}
            ents = []
            for nm, ds, ps, sq in zip(names, descs, peps, seqs):
                e = {"name": nm, "peps": [ids[p] for p in ps], "seq": sq}
                if ds:
                    e["desc"] = ds
                ents.append(e)
            enz = proto["enzyme"]
            for k, order in ((k1, list(range(len(ents)))), (k2, perm)):
                c = dict(proto, entries=[ents[i] for i in order], k=k, pepids=[[p, i] for p, i in ids.items()])
                c["tags"] = (["realised", kind, "args=" + style, "enzyme=" + enz["pattern"]
                              + ("(compiled)" if enz.get("compiled") else ""), "prefix=" + proto["prefix"]]
                             + (["enzyme-omitted"] if "enzyme" in proto["omit"] else [])
                             + (["reordered"] if order is perm else []) + _fmt_tags(c))
                cases.append(c)
    # (4) malformed
    rng = ctx.sub("malformed")
    cases.append({"fn": "read_fasta", "entries": [], "prefix": "decoy_", "layout": "plain", "k": 0, "pepids": [],
                  "tags": ["malformed", "empty-file"]})
    cases.append(mk_case([[0, 1], [1]], ["decoy_A", "decoy_B"], 0, ["malformed", "only-decoys"]))
    cases.append(mk_case([[], []], ["A", "decoy_A"], 0, ["malformed", "no-peptides"]))
    cases.append(mk_case([[0, 1], [1]], ["A", "B"], 0, ["malformed", "empty-prefix"], prefix=""))
    for _ in range(400 if ctx.thorough else 100):
        n = rng.randint(2, 6)
        npep = rng.randint(1, 5)
        struct = [rng.sample(range(npep), rng.randint(0, npep)) for _ in range(n)]
        pool = ["A", "B", "decoy_A", "C"]
        names = [rng.choice(pool) for _ in range(n)]
        if len(set(names)) == n:
            names[-1] = names[0]
        cases.append(mk_case(struct, names, rng.randrange(720), ["malformed", "dupnames"]))
    _real_batch(cases, _SEEDS)
    return cases


# ----------------------------------------------------------------------------- model side
def encode(c):
    ents = lib.lst(c["entries"], lambda e: lib.s(e["name"]) + " " + lib.lst(e["peps"]))
    return f"c16.read_fasta {lib.z(c.get('k', 0))} {lib.s(c.get('prefix', 'decoy_'))} {ents}"


def decode(c, t):
    def name():
        return sorted(t.lst(t.s))
    def out():
        uniq = sorted(t.lst(lambda: [t.nat(), name()]))
        shared = sorted(t.lst(lambda: [t.nat(), sorted(t.lst(name))]))
        pmap = sorted(t.lst(lambda: [t.s(), t.s()]))
        hd = t.b()
        return {"unique": uniq, "shared": shared, "pmap": pmap, "has_decoys": hd}
    r = t.result(out)
    t.done()
    return r


def impl(c):
    h = lib.stable_hash(_strip(c))
    if h not in _CACHE:
        _real_batch([c], _SEEDS)
    return _CACHE[h]


def same(c, m, i):
    return lib.jsonable(m) == lib.jsonable(i)


def _sets(c):
    return {e["name"]: frozenset(e["peps"]) for e in c["entries"] if e["peps"]}


def nontrivial(c):
    s = list(_sets(c).items())
    for a, sa in s:
        for b, sb in s:
            if a != b and (sa <= sb or sa & sb):
                return True
    return False


# ----------------------------------------------------------------------------- the property itself
def expected(c):
    """the declarative characterisation: groups = maximal peptide sets with all proteins inside them"""
    sets = _sets(c)
    maximal = {s for s in sets.values() if not any(s < s2 for s2 in sets.values())}
    groups = {s: sorted(p for p, sp in sets.items() if sp <= s) for s in maximal}
    allpeps = sorted({p for s in sets.values() for p in s})
    uniq, shared = [], []
    for pep in allpeps:
        gs = sorted(groups[s] for s in maximal if pep in s)
        if len(gs) == 1:
            uniq.append([pep, gs[0]])
        else:
            shared.append([pep, gs])
    pre = c.get("prefix", "decoy_")
    pmap = sorted([n, pre + n] for n in sets if not n.startswith(pre))
    hd = any((pre + n) in sets for n in sets if not n.startswith(pre))
    return {"unique": uniq, "shared": shared, "pmap": pmap, "has_decoys": hd}


def oracle(c, i):
    names = [e["name"] for e in c["entries"]]
    if len(set(names)) != len(names):
        return None                      # the property speaks about FASTA files with distinct protein names
    if i[0] == "hash-dependent":
        return f"result depends on PYTHONHASHSEED: {i[1]!r}"[:600]
    if i[0] == "order-dependent":
        return f"a second call with the same file, later in the same process, gives another result: {i[1]!r}"[:600]
    sets = _sets(c)
    pre = c.get("prefix", "decoy_")
    if not any(not n.startswith(pre) for n in sets):
        return None if tuple(i)[0] == "err" else "no target protein with peptides, yet no error"
    if i[0] != "ok":
        return f"read_fasta failed on a well-formed input: {i!r}"
    got = i[1]
    exp = expected(c)
    if got.get("name_variants"):
        return f"one group is written with different name strings: {got['name_variants']}"
    if got.get("decoy_prefix_attr"):
        return f"Proteins.decoy_prefix is {got['decoy_prefix_attr']}, read_fasta was given {c.get('prefix', 'decoy_')!r}"
    # clause by clause, for a readable message
    groups = {}
    for pep, g in got["unique"]:
        groups.setdefault(tuple(g), set()).add(pep)
    for pep, gs in got["shared"]:
        if len(gs) < 2:
            return f"peptide {pep} recorded as shared but lies in {len(gs)} group(s)"
        for g in gs:
            groups.setdefault(tuple(g), set()).add(pep)
    covered = {m for g in groups for m in g}
    for n in sets:
        if n not in covered:
            return f"protein {n} has peptides but belongs to no group"
    for g, ps in groups.items():
        if not any(sets.get(m) == ps for m in g):
            return f"group {g}: peptide set {sorted(ps)} is not that of one of its members"
        for m in g:
            if not sets.get(m, frozenset([-1])) <= ps:
                return f"group {g} does not contain the peptides of its member {m}"
        if len(set(g)) != len(g):
            return f"group {g} lists a member twice"
    for g, ps in groups.items():
        for g2, ps2 in groups.items():
            if g != g2 and ps <= ps2:
                return f"group {g} peptide set is contained in that of group {g2}"
    if got["pmap"] != exp["pmap"]:
        return f"protein_map {got['pmap']} is not the target -> prefixed decoy pairing {exp['pmap']}"
    if got != exp:
        return f"result {got} differs from the order-free characterisation {exp}"
    return None


def shrink(c):
    ents = c["entries"]
    def simpler_fmt(cc):
        f = cc.get("fmt")
        if f is None:
            if cc.get("layout", "plain") != "plain":
                yield dict(cc, layout="plain")
            return
        plain = {"wrap": 0, "eol": "\n", "blank": 0, "blankin": False, "nfiles": 1, "finalnl": [1],
                 "container": "str"}
        for key in plain:
            if f.get(key) != plain[key]:
                yield dict(cc, fmt=dict(f, **{key: plain[key]}))
        if any(e.get("desc") for e in cc["entries"]):
            yield dict(cc, entries=[{k: v for k, v in e.items() if k != "desc"} for e in cc["entries"]])
    if len(ents) > 3:
        h = len(ents) // 2
        yield dict(c, entries=ents[:h])
        yield dict(c, entries=ents[h:])
    for k in range(len(ents)):
        yield dict(c, entries=ents[:k] + ents[k + 1:])
    if "digest" not in c:
        # structural realisation: a peptide can be taken out of a protein
        for k in range(len(ents)):
            for j in range(len(ents[k]["peps"])):
                ps = list(ents[k]["peps"])
                del ps[j]
                e = dict(ents[k], peps=ps, seq="".join(pepstr(i) for i in ps) + ents[k].get("tail", ""))
                yield dict(c, entries=ents[:k] + [e] + ents[k + 1:])
    yield from simpler_fmt(c)
