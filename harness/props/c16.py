"""C16 — protein grouping: correspondence of Model/Grouping.v with mokapot.read_fasta
(peptide_map / shared_peptides / protein_map / has_decoys), run under several PYTHONHASHSEED values."""
import itertools
import json
import os
import subprocess
import sys
import tempfile

from .. import lib

PROP = "C16"
RULE = ("cases: (1) exhaustive: every ordered tuple of <=3 (quick) / <=4 (thorough) proteins, each with any subset "
        "(also the empty one) of <=3 / <=4 peptides - i.e. every incidence structure in every FASTA entry order - "
        "under two naming schemes (all targets; target/decoy pairs; for 4 proteins the two schemes alternate over the "
        "structures instead of both being run), each peptide realised as a real tryptic string "
        "and each protein as the concatenation of its peptides, parsed by the real read_fasta([KR], 0 missed "
        "cleavages, min_length 2); (2) random larger structures (chains of subsets, a protein inside two others, "
        "equal sets, repeated peptides in a sequence, junk below min_length, descriptions, wrapped sequences, two "
        "files, other prefixes, entry-order shuffles of the same structure); (2b) names with the decoy prefix inside, "
        "at the end, bare, truncated, upper-cased, doubled; (3) random sequences digested with "
        "random parameters (missed cleavages, semi, clip, min/max length) where the incidence is what the public "
        "mokapot.digest returns per protein; (4) malformed: repeated protein names, only decoys, no peptides, empty "
        "file.  Every case is run by the real code in one subprocess per PYTHONHASHSEED (3 quick / 5 thorough) and "
        "all seeds must give the same canonical result; the model is run with a pseudo-random member of the family "
        "of iteration orders gr_perm k.  distinct = distinct (entries, names, realisation); non-trivial = some "
        "protein's peptide set is contained in another's, or a peptide is shared")
ASSUMPTIONS = [
    "protein names contain no blank (read_fasta keeps the header up to the first blank), hence no ', ' or '; ': "
    "group names and shared-peptide strings are split back into member lists on these separators",
    "results are compared as sets: group name -> sorted member list, shared peptide -> set of groups, "
    "protein_map as a dict; the member order inside a name and dict orders are not compared",
    "the iteration order of the set `matches` is not observable; the model is executed with members of the family "
    "gr_perm k and the theorem C16_order_free covers every permutation-valued oracle",
]
TRUSTED_EXTRA = ["mokapot.digest per protein as the incidence oracle in the 'digest' stream (C17 covers digest itself)",
                 "FASTA text layout produced by the harness (header line, optional description, wrapped sequence)"]

HASHSEEDS_QUICK = ["0", "1", "12345"]
HASHSEEDS_THOROUGH = ["0", "1", "12345", "777", "4242424242"]

_AA = "ACDEFGHILMNPQSTVWY"


def pepstr(i):
    """a distinct tryptic peptide for id i: no K/R inside, K or R at the end, length >= 2"""
    body = _AA[i % len(_AA)]
    j = i // len(_AA)
    while j:
        body += _AA[j % len(_AA)]
        j //= len(_AA)
    if i % 3 == 2:
        body += body[0]
    return body + ("R" if i % 2 else "K")


# ----------------------------------------------------------------------------- realisation
def fasta_texts(case):
    """-> list of file contents"""
    lay = case.get("layout", "plain")
    recs = []
    for e in case["entries"]:
        name, seq = e["name"], e["seq"]
        hdr = ">" + name + (" some description OS=x" if lay == "desc" else "")
        if lay == "wrap" and len(seq) > 3:
            h = len(seq) // 2
            recs.append(hdr + "\n" + seq[:h] + "\n" + seq[h:])
        else:
            recs.append(hdr + "\n" + seq if seq else hdr)
    if lay == "twofiles" and len(recs) > 1:
        h = len(recs) // 2
        return ["\n".join(recs[:h]) + "\n", "\n".join(recs[h:])]
    if not recs:
        return [""]
    return ["\n".join(recs) + ("\n" if lay != "nofinalnl" else "")]


def _kwargs(case):
    kw = dict(enzyme="[KR]", missed_cleavages=0, clip_nterm_methionine=False, min_length=2, max_length=50,
              semi=False, decoy_prefix=case.get("prefix", "decoy_"))
    kw.update(case.get("digest", {}))
    return kw


def _canon_real(case, prot):
    ids = {s: i for s, i in case["pepids"]}
    def members(nm):
        return sorted(nm.split(", "))
    uniq = sorted([ids[p], members(g)] for p, g in prot.peptide_map.items())
    shared = sorted([ids[p], sorted(members(g) for g in v.split("; "))] for p, v in prot.shared_peptides.items())
    pmap = sorted([t, d] for t, d in prot.protein_map.items())
    return {"unique": uniq, "shared": shared, "pmap": pmap, "has_decoys": bool(prot.has_decoys)}


def run_real(case, tmpdir):
    """one real read_fasta call in this process"""
    from mokapot import read_fasta
    texts = fasta_texts(case)
    paths = []
    for n, t in enumerate(texts):
        p = os.path.join(tmpdir, f"f{n}.fasta")
        with open(p, "w") as f:
            f.write(t)
        paths.append(p)
    arg = paths[0] if len(paths) == 1 else tuple(paths)
    def go():
        return _canon_real(case, read_fasta(arg, **_kwargs(case)))
    r = lib.call_impl(go)
    return [r[0], r[1]]


def _worker_main():
    import logging
    logging.disable(logging.CRITICAL)
    cases = json.loads(sys.stdin.read())
    out = []
    with tempfile.TemporaryDirectory(prefix="c16_") as d:
        for c in cases:
            try:
                out.append(run_real(c, d))
            except BaseException as e:  # noqa
                out.append(["crash", f"{type(e).__name__}: {e}"[:200]])
    sys.stdout.write(json.dumps(out))


def _digest_main():
    """incidence oracle for the 'digest' stream: the public mokapot.digest per sequence"""
    import logging
    logging.disable(logging.CRITICAL)
    from mokapot import digest
    jobs = json.loads(sys.stdin.read())
    out = []
    for seqs, kw in jobs:
        out.append([sorted(digest(s, enzyme_regex="[KR]", **kw)) for s in seqs])
    sys.stdout.write(json.dumps(out))


def _spawn(entry, payload, hashseed):
    env = dict(os.environ)
    env["PYTHONHASHSEED"] = hashseed
    env["PYTHONPATH"] = env.get("PYTHONPATH", "/repo") + os.pathsep + str(lib.VERIF)
    env["PYTHONDONTWRITEBYTECODE"] = "1"
    p = subprocess.Popen([sys.executable, "-W", "ignore", "-c",
                          f"from harness.props import c16; c16.{entry}()"],
                         stdin=subprocess.PIPE, stdout=subprocess.PIPE, stderr=subprocess.PIPE,
                         cwd=str(lib.VERIF), env=env)
    return p, payload


def _collect(procs):
    res = []
    import threading
    outs = [None] * len(procs)
    def feed(k, p, payload):
        o, e = p.communicate(payload.encode())
        outs[k] = (p.returncode, o, e)
    ths = [threading.Thread(target=feed, args=(k, p, pl)) for k, (p, pl) in enumerate(procs)]
    for t in ths:
        t.start()
    for t in ths:
        t.join()
    for rc, o, e in outs:
        if rc != 0:
            raise RuntimeError("C16 worker failed: " + e.decode(errors="replace")[-400:])
        res.append(json.loads(o.decode()))
    return res


def _strip(case):
    return {k: v for k, v in case.items() if k not in ("tags", "k")}


_CACHE = {}
_SEEDS = HASHSEEDS_QUICK


def _real_batch(cases, seeds):
    """run all cases under every hash seed; cache the combined verdict per case"""
    keys, todo = [], []
    for c in cases:
        h = lib.stable_hash(_strip(c))
        if h not in _CACHE and h not in keys:
            keys.append(h)
            todo.append(_strip(c))
    if not todo:
        return
    payload = json.dumps(todo)
    per_seed = _collect([_spawn("_worker_main", payload, s) for s in seeds])
    for j, h in enumerate(keys):
        rs = [per_seed[i][j] for i in range(len(seeds))]
        first = rs[0]
        if all(r == first for r in rs):
            _CACHE[h] = tuple(first)
        else:
            _CACHE[h] = ("hash-dependent", {s: r for s, r in zip(seeds, rs)})


# ----------------------------------------------------------------------------- case construction
def mk_case(struct, names, k, tags, prefix="decoy_", layout="plain", extra_seq=None):
    """struct: list of peptide-id lists (repetitions allowed); names: list of protein names"""
    used = sorted({i for ps in struct for i in ps})
    entries = []
    for n, (nm, ps) in enumerate(zip(names, struct)):
        seq = "".join(pepstr(i) for i in ps)
        if extra_seq and extra_seq[n]:
            seq += extra_seq[n]
        entries.append({"name": nm, "peps": list(ps), "seq": seq})
    return {"fn": "read_fasta", "entries": entries, "prefix": prefix, "layout": layout, "k": k,
            "pepids": [[pepstr(i), i] for i in used], "tags": list(tags)}


def _subsets(npep):
    return [[i for i in range(npep) if m >> i & 1] for m in range(1 << npep)]


def _multi(struct):
    """does some protein lie inside two incomparable others? (then `matches` has >= 2 elements)"""
    sets = [frozenset(s) for s in struct if s]
    for a in sets:
        sup = {b for b in sets if a <= b}
        mx = [b for b in sup if not any(b < c for c in sup)]
        if len(set(mx)) >= 2:
            return True
    return False


def gen(ctx):
    global _SEEDS
    _SEEDS = HASHSEEDS_THOROUGH if ctx.thorough else HASHSEEDS_QUICK
    cases = []
    rk = ctx.sub("perm")
    # (1) exhaustive small scope: ordered tuples = every structure in every entry order
    nmax = 4 if ctx.thorough else 3
    subs = _subsets(nmax)
    for n in range(1, nmax + 1):
        tnames = [f"P{j}" for j in range(n)]
        dnames = [(f"T{j // 2}" if j % 2 == 0 else f"decoy_T{j // 2}") for j in range(n)]
        for idx, tup in enumerate(itertools.product(subs, repeat=n)):
            struct = [list(s) for s in tup]
            multi = _multi(struct)
            tg = ["exhaustive", f"n={n}"] + (["multi-match"] if multi else [])
            # n <= 3: both naming schemes; n = 4: the two schemes alternate over the structures
            if n <= 3 or idx % 2 == 0:
                cases.append(mk_case(struct, tnames, rk.randrange(24), tg + ["targets-only"]))
            if n <= 3 or idx % 2 == 1:
                cases.append(mk_case(struct, dnames, rk.randrange(24), tg + ["target-decoy-pairs"]))
            if multi:
                cases.append(mk_case(struct, tnames, rk.randrange(1, 720), tg + ["targets-only", "second-order"]))
    # (2) random larger structures
    rng = ctx.sub("structures")
    nrand = 1500 if ctx.thorough else 300
    for _ in range(nrand):
        npep = rng.randint(3, 9)
        kind = rng.choice(["chain", "two-parents", "equal", "free", "free", "mixed"])
        struct = []
        allp = list(range(npep))
        if kind == "chain":
            cur = rng.sample(allp, rng.randint(2, npep))
            while cur:
                struct.append(list(cur))
                if rng.random() < 0.3:
                    struct.append(list(cur))
                cur = cur[:rng.randint(0, len(cur) - 1)] if rng.random() < 0.8 else cur[:-1]
        elif kind == "two-parents":
            core = rng.sample(allp, rng.randint(1, max(1, npep - 2)))
            rest = [p for p in allp if p not in core]
            for _k in range(rng.randint(2, 3)):
                extra = rng.sample(rest, rng.randint(1, len(rest))) if rest else []
                struct.append(core + extra)
            struct.append(list(core))
            if rng.random() < 0.5:
                struct.append(core[:max(1, len(core) - 1)])
        elif kind == "equal":
            base = rng.sample(allp, rng.randint(1, npep))
            for _k in range(rng.randint(2, 4)):
                struct.append(rng.sample(base, len(base)))
            struct.append(rng.sample(allp, rng.randint(0, npep)))
        else:
            for _k in range(rng.randint(2, 8)):
                struct.append(rng.sample(allp, rng.randint(0, npep)))
        if kind == "mixed":
            # repeat peptides inside a sequence
            struct = [ps + ([rng.choice(ps)] if ps and rng.random() < 0.5 else []) for ps in struct]
        rng.shuffle(struct)
        prefix = rng.choice(["decoy_", "decoy_", "rev_", "d", "XX"])
        names = []
        for j in range(len(struct)):
            r = rng.random()
            base = rng.choice(["sp|Q%d|X" % j, "P%d" % j, "d%d" % j, prefix.upper() + str(j),
                               "X" + prefix + str(j), "T%d_" % j + prefix])
            if r < 0.25 and names:
                t = rng.choice(names)
                cand = prefix + t
                names.append(cand if cand not in names else base)
            elif r < 0.35:
                names.append(prefix + base)
            else:
                names.append(base)
        # unique names
        seen = set()
        for j, nm in enumerate(names):
            while nm in seen:
                nm = nm + "x"
            seen.add(nm)
            names[j] = nm
        layout = rng.choice(["plain", "plain", "desc", "wrap", "twofiles", "nofinalnl"])
        extra = [rng.choice(["", "", "", "G", "A", "W"]) for _ in struct]
        c = mk_case(struct, names, rng.randrange(5040), ["random", kind, layout, "prefix=" + prefix],
                    prefix=prefix, layout=layout, extra_seq=extra)
        cases.append(c)
        # the same structure in two more entry orders: compared with the model each, and with each other by the oracle
        for _k in range(2):
            perm = list(range(len(struct)))
            rng.shuffle(perm)
            cases.append(mk_case([struct[i] for i in perm], [names[i] for i in perm], rng.randrange(5040),
                                 ["random", kind, layout, "reordered"], prefix=prefix, layout=layout,
                                 extra_seq=[extra[i] for i in perm]))
    # (2b) where the prefix stands in a name: inside, at the end, the bare prefix, a proper prefix of it, other case
    for pre in ("decoy_", "rev_", "d"):
        pool = ["A", pre + "A", "x" + pre + "A", "A" + pre, pre, pre[:-1] or "q", pre.upper() + "A", pre + pre + "A",
                "B", "x" + pre + "B"]
        for names in itertools.combinations(pool, 3):
            for struct in ([[0, 1], [1], [2]], [[0], [0], [0, 1]]):
                cases.append(mk_case(struct, list(names), rk.randrange(24), ["prefix-position", "prefix=" + pre],
                                     prefix=pre))
    # (3) random sequences through the real digest with random parameters
    rng = ctx.sub("digest")
    ndig = 600 if ctx.thorough else 150
    jobs, metas = [], []
    for _ in range(ndig):
        nprot = rng.randint(1, 6)
        frag = ["".join(rng.choice("AGLMW") for _ in range(rng.randint(1, 4))) + rng.choice("KR") for _ in range(5)]
        seqs = []
        for _j in range(nprot):
            s = "".join(rng.choice(frag) for _ in range(rng.randint(0, 5)))
            if rng.random() < 0.3:
                s = "M" + s
            if rng.random() < 0.3:
                s += rng.choice(["A", "GG", "LLL"])
            seqs.append(s)
        kw = {"missed_cleavages": rng.choice([0, 0, 1, 2]), "clip_nterm_methionine": rng.random() < 0.3,
              "min_length": rng.randint(1, 5), "max_length": rng.choice([6, 9, 50]), "semi": rng.random() < 0.2}
        jobs.append([seqs, kw])
        metas.append((seqs, kw, rng.randrange(5040), rng.random() < 0.3))
    if jobs:
        dig = _collect([_spawn("_digest_main", json.dumps(jobs), "0")])[0]
        for (seqs, kw, k, pairs), peps in zip(metas, dig):
            allp = sorted({p for ps in peps for p in ps})
            ids = {p: i for i, p in enumerate(allp)}
            if pairs:
                names = [(f"T{j // 2}" if j % 2 == 0 else f"decoy_T{j // 2}") for j in range(len(seqs))]
            else:
                names = [f"P{j}" for j in range(len(seqs))]
            entries = [{"name": nm, "peps": [ids[p] for p in ps], "seq": s} for nm, ps, s in zip(names, peps, seqs)]
            cases.append({"fn": "read_fasta", "entries": entries, "prefix": "decoy_", "layout": "plain", "k": k,
                          "digest": kw, "pepids": [[p, i] for p, i in ids.items()],
                          "tags": ["digest", f"mc={kw['missed_cleavages']}"] + (["semi"] if kw["semi"] else [])})
    # (4) malformed
    rng = ctx.sub("malformed")
    cases.append({"fn": "read_fasta", "entries": [], "prefix": "decoy_", "layout": "plain", "k": 0, "pepids": [],
                  "tags": ["malformed", "empty-file"]})
    cases.append(mk_case([[0, 1], [1]], ["decoy_A", "decoy_B"], 0, ["malformed", "only-decoys"]))
    cases.append(mk_case([[], []], ["A", "decoy_A"], 0, ["malformed", "no-peptides"]))
    cases.append(mk_case([[0, 1], [1]], ["A", "B"], 0, ["malformed", "empty-prefix"], prefix=""))
    for _ in range(400 if ctx.thorough else 100):
        n = rng.randint(2, 6)
        npep = rng.randint(1, 5)
        struct = [rng.sample(range(npep), rng.randint(0, npep)) for _ in range(n)]
        pool = ["A", "B", "decoy_A", "C"]
        names = [rng.choice(pool) for _ in range(n)]
        if len(set(names)) == n:
            names[-1] = names[0]
        cases.append(mk_case(struct, names, rng.randrange(720), ["malformed", "dupnames"]))
    _real_batch(cases, _SEEDS)
    return cases


# ----------------------------------------------------------------------------- model side
def encode(c):
    ents = lib.lst(c["entries"], lambda e: lib.s(e["name"]) + " " + lib.lst(e["peps"]))
    return f"c16.read_fasta {lib.z(c.get('k', 0))} {lib.s(c.get('prefix', 'decoy_'))} {ents}"


def decode(c, t):
    def name():
        return sorted(t.lst(t.s))
    def out():
        uniq = sorted(t.lst(lambda: [t.nat(), name()]))
        shared = sorted(t.lst(lambda: [t.nat(), sorted(t.lst(name))]))
        pmap = sorted(t.lst(lambda: [t.s(), t.s()]))
        hd = t.b()
        return {"unique": uniq, "shared": shared, "pmap": pmap, "has_decoys": hd}
    r = t.result(out)
    t.done()
    return r


def impl(c):
    h = lib.stable_hash(_strip(c))
    if h not in _CACHE:
        _real_batch([c], _SEEDS)
    return _CACHE[h]


def same(c, m, i):
    return lib.jsonable(m) == lib.jsonable(i)


def _sets(c):
    return {e["name"]: frozenset(e["peps"]) for e in c["entries"] if e["peps"]}


def nontrivial(c):
    if "malformed" in c.get("tags", []):
        return True
    s = list(_sets(c).items())
    for a, sa in s:
        for b, sb in s:
            if a != b and (sa <= sb or sa & sb):
                return True
    return False


# ----------------------------------------------------------------------------- the property itself
def expected(c):
    """the declarative characterisation: groups = maximal peptide sets with all proteins inside them"""
    sets = _sets(c)
    maximal = {s for s in sets.values() if not any(s < s2 for s2 in sets.values())}
    groups = {s: sorted(p for p, sp in sets.items() if sp <= s) for s in maximal}
    allpeps = sorted({p for s in sets.values() for p in s})
    uniq, shared = [], []
    for pep in allpeps:
        gs = sorted(groups[s] for s in maximal if pep in s)
        if len(gs) == 1:
            uniq.append([pep, gs[0]])
        else:
            shared.append([pep, gs])
    pre = c.get("prefix", "decoy_")
    pmap = sorted([n, pre + n] for n in sets if not n.startswith(pre))
    hd = any((pre + n) in sets for n in sets if not n.startswith(pre))
    return {"unique": uniq, "shared": shared, "pmap": pmap, "has_decoys": hd}


def oracle(c, i):
    names = [e["name"] for e in c["entries"]]
    if len(set(names)) != len(names):
        return None                      # the property speaks about FASTA files with distinct protein names
    if i[0] == "hash-dependent":
        return f"result depends on PYTHONHASHSEED: {i[1]!r}"[:600]
    sets = _sets(c)
    pre = c.get("prefix", "decoy_")
    if not any(not n.startswith(pre) for n in sets):
        return None if tuple(i)[0] == "err" else "no target protein with peptides, yet no error"
    if i[0] != "ok":
        return f"read_fasta failed on a well-formed input: {i!r}"
    got = i[1]
    exp = expected(c)
    # clause by clause, for a readable message
    groups = {}
    for pep, g in got["unique"]:
        groups.setdefault(tuple(g), set()).add(pep)
    for pep, gs in got["shared"]:
        if len(gs) < 2:
            return f"peptide {pep} recorded as shared but lies in {len(gs)} group(s)"
        for g in gs:
            groups.setdefault(tuple(g), set()).add(pep)
    covered = {m for g in groups for m in g}
    for n in sets:
        if n not in covered:
            return f"protein {n} has peptides but belongs to no group"
    for g, ps in groups.items():
        if not any(sets.get(m) == ps for m in g):
            return f"group {g}: peptide set {sorted(ps)} is not that of one of its members"
        for m in g:
            if not sets.get(m, frozenset([-1])) <= ps:
                return f"group {g} does not contain the peptides of its member {m}"
        if len(set(g)) != len(g):
            return f"group {g} lists a member twice"
    for g, ps in groups.items():
        for g2, ps2 in groups.items():
            if g != g2 and ps <= ps2:
                return f"group {g} peptide set is contained in that of group {g2}"
    if got["pmap"] != exp["pmap"]:
        return f"protein_map {got['pmap']} is not the target -> prefixed decoy pairing {exp['pmap']}"
    if got != exp:
        return f"result {got} differs from the order-free characterisation {exp}"
    return None


def shrink(c):
    ents = c["entries"]
    if "digest" in c:
        for k in range(len(ents)):
            yield dict(c, entries=ents[:k] + ents[k + 1:])
        return
    def rebuild(struct, names):
        return mk_case(struct, names, c.get("k", 0), c.get("tags", []), prefix=c.get("prefix", "decoy_"),
                       layout=c.get("layout", "plain"))
    struct = [e["peps"] for e in ents]
    names = [e["name"] for e in ents]
    for k in range(len(ents)):
        yield rebuild(struct[:k] + struct[k + 1:], names[:k] + names[k + 1:])
    for k in range(len(ents)):
        for j in range(len(struct[k])):
            s2 = [list(s) for s in struct]
            del s2[k][j]
            yield rebuild(s2, names)
    if c.get("layout", "plain") != "plain":
        yield dict(rebuild(struct, names), layout="plain")
