"""C02 — cross-validation integrity: real mokapot.brew (recording scaler + transparent estimator)
against Model/Brew.v (split, row->model map, training sets, routing, calibration)."""
from fractions import Fraction

from .. import lib, brewlib
from ..lib import Toks, call_impl

PROP = "C02"
RULE = ("generated PSM tables (20-400 rows, spectra with 1-6 PSMs, spectrum keys of 1-4 columns, 1-3 jointly modelled "
        "files, tsv/Parquet) through the real read_pin + brew with folds 2-6 and 10-13, subset_max_train absent/small/large, "
        "max_workers 1-8, prediction/train-read chunk sizes from 1 row to larger than the file, several seeds; "
        "observed per fold model: training row ids (scaler.fit_transform), scored row ids (scaler.transform), "
        "model.fold, returned scores; compared with the extracted model's fold partition, complements / sub-sampling "
        "plan, row->model map and calibrated scores. distinct = distinct case; non-trivial = some spectrum has >= 2 PSMs")
ASSUMPTIONS = [
    "crc32(str(tuple(key[:2]))) is recomputed by the harness (a harmless change of the hash function breaks this correspondence)",
    "rng.choice sub-sampling and rng.shuffle are oracles (contracts: subset of the complement without duplicates, of the planned size)",
    "scores: integer-valued features through a transparent estimator, so (s-t)/(t-d) is one correctly rounded division; compared exactly",
]
TRUSTED_EXTRA = ["scikit-learn clone/deepcopy of the recording scaler and estimator", "joblib thread scheduling (any completion order)"]


# ----------------------------------------------------------------------------- generation
def gen(ctx):
    cases = []
    rng = ctx.sub("brew")
    n_cases = 260 if ctx.thorough else 56
    for k in range(n_cases):
        nfiles = rng.choice([1, 1, 1, 2, 3])
        nkey = rng.choice([1, 2, 2, 3, 4])
        folds = rng.choice([2, 3, 4, 5, 6, 2, 3, 4, 5, 6, 10, 11, 12, 13])     # >= 10: fold numbers of two digits
        files = []
        for j in range(nfiles):
            n = rng.randint(20 if folds < 10 else 90, 400 if ctx.thorough else 160)
            files.append(brewlib.gen_file(rng, n, nkey, file_idx=j, mult=(1, rng.choice([1, 3, 6])),
                                          label_enc=rng.choice(["pm1", "01", "bool"])))
        ntot = sum(len(f["targets"]) for f in files)
        cap = rng.choice([None, None, max(4, ntot // 4), max(6, ntot // 2), ntot * 2])
        nmax = max(len(f["targets"]) for f in files)
        chunks = {}
        if rng.random() < 0.6:
            chunks["predict"] = rng.choice([1, 2, 3, 7, nmax - 1, nmax, nmax + 1, nmax // 2, nmax // 2 + 1, nmax // 3 + 1])
        if rng.random() < 0.6:
            chunks["trainread"] = rng.choice([1, 2, 3, 7, nmax - 1, nmax, nmax + 1])
        chunks = {a: max(1, b) for a, b in chunks.items()}
        fmt = rng.choice(["tsv", "tsv", "parquet"])
        cases.append({"fn": "brew", "files": files, "folds": folds, "seed": rng.randint(0, 10 ** 6),
                      "test_fdr": rng.choice(["0.5", "0.5", "0.25", "1.0", "0.1"]), "workers": rng.choice([1, 1, 2, 4, 8]),
                      "subset_max_train": cap, "chunks": chunks, "fmt": fmt,
                      "row_group": rng.choice([None, 1, 3, 17]) if fmt == "parquet" else None,
                      "est_mode": rng.choice(["decision", "decision", "decision", "proba"]),
                      "tags": ["brew", f"files={nfiles}", f"keycols={nkey}", f"folds={folds}",
                               "cap" if cap else "nocap", fmt, "chunks=" + ",".join(sorted(chunks)) if chunks else "chunks=default"]})
    # degenerate: fewer distinct spectra than folds / one big spectrum
    for k in range(6 if not ctx.thorough else 20):
        n = rng.randint(6, 14)
        f = brewlib.gen_file(rng, n, 2, file_idx=0, mult=(n, n))
        cases.append({"fn": "brew", "files": [f], "folds": rng.randint(2, 5), "seed": k, "test_fdr": "0.5", "workers": 1,
                      "subset_max_train": None, "chunks": {}, "fmt": "tsv", "row_group": None, "est_mode": "decision",
                      "tags": ["brew", "degenerate-few-spectra"]})
    return cases


# ----------------------------------------------------------------------------- one case
def _gid(j, r):
    return j * 100000 + r


def _model_side(case, obs):
    """everything the extracted model predicts, given the oracle values recorded in obs"""
    k = case["folds"]
    files = case["files"]
    out = {"folds": [], "fold_of": [], "train": None, "scores": None}
    lines = ["c02.split_train %s %s" % (lib.lst(keys), lib.z(k)) for keys in obs["keys"]]
    res = lib.run_driver(lines)
    per_file = []
    for line in res:
        t = Toks(line)
        r = t.result(lambda: (t.lst(lambda: t.lst()), t.lst(lambda: t.lst()), t.lst()))
        if r[0] == "err":
            return ("err", r[1])
        per_file.append(r[1])
    out["folds"] = [[sorted(f) for f in pf[0]] for pf in per_file]
    out["fold_of"] = [pf[2] for pf in per_file]
    # training plan per fold
    plans = []
    cap = case.get("subset_max_train")
    lines = []
    for f in range(k):
        sizes = [len(pf[1][f]) for pf in per_file]
        lines.append("c02.plan %s %s" % (lib.opt(cap), lib.lst(sizes)))
    for line in lib.run_driver(lines):
        t = Toks(line)
        plans.append(t.result(lambda: t.lst(lambda: t.opt())))
    out["plans"] = plans
    out["complements"] = [sorted(_gid(j, r) for j, pf in enumerate(per_file) for r in pf[1][f]) for f in range(k)]
    out["complements_per_file"] = [[sorted(pf[1][f]) for pf in per_file] for f in range(k)]
    out["fold_rows"] = [sorted(_gid(j, r) for j, pf in enumerate(per_file) for r in pf[0][f]) for f in range(k)]
    return ("ok", out)


def _scores_model(case, obs):
    k = case["folds"]
    thr = Fraction(case["test_fdr"])
    c = case.get("chunks", {}).get("predict", 700000)
    lines = []
    for j, f in enumerate(case["files"]):
        raw = []
        for m in range(k):
            if obs.get("seen") and obs["seen"][m]:
                # recorded decision values of a black-box learner (oracle): value of model m on row r
                seen = obs["seen"][m]
                raw.append([int(seen.get(_gid(j, r), 0)) for r in range(len(f["targets"]))])
                continue
            col = obs["cols"][m]
            name = "rid" if col == 0 else "feat%d" % (col - 1)
            kind = case.get("est_kind", "col")
            if kind == "const":
                raw.append([0 for _ in f["data"][name]])
            elif kind == "neg":
                raw.append([-int(v) for v in f["data"][name]])
            else:
                raw.append([int(v) for v in f["data"][name]])
        lines.append("c02.brew_scores %s %s %s %s %s %s %s" % (
            lib.b(case.get("est_mode", "decision") == "decision"), lib.z(c), lib.z(k), lib.q(thr),
            lib.lst(obs["keys"][j]), lib.lst(f["targets"], lib.b), lib.lst(raw, lambda r: lib.lst(r))))
    res = []
    for line in lib.run_driver(lines):
        t = Toks(line)
        res.append(t.result(lambda: t.lst(t.q)))
    return res


def run_case(case):
    return compare(case, call_impl(brewlib.run_brew, case))


def compare(case, got):
    if got[0] == "err":
        return ("unknown", "read_pin failed"), ("err", got[1])
    obs = got[1]
    ms = _model_side(case, obs)
    if obs.get("error"):
        impl = ("err", obs["error"])
        if ms[0] == "err":
            return ms, impl
        # the split succeeded in the model: the failure must come from the plan or from calibration
        plans = ms[1]["plans"]
        if any(p[0] == "err" for p in plans):
            return ("err", [p[1] for p in plans if p[0] == "err"][0]), impl
        # a file none of whose PSMs falls into some fold (small file, many folds; a spectrum group straddling two split points
        # gives an empty fold, see DESIGN C02): the per-fold prediction lists of that file are empty and brew stops with an
        # error (np.hstack of nothing, or the calibration error) instead of returning scores — a degenerate input; no PSM is
        # scored by a wrong model.  The kind of the error depends on the estimator interface, so only 'an error' is predicted.
        if any(len(fold) == 0 for per_file in ms[1]["folds"] for fold in per_file):
            return ("err", "EmptyFold"), ("err", "EmptyFold")
        # a training set without decoys (or without targets) is rejected by LinearPsmDataset: legitimate when the random
        # sub-sample of a capped training set happens to be one-class (the drawn sub-sample — an RNG oracle — was never
        # observed, so the model cannot predict it), or when the complement of a fold is one-class itself
        msg = obs.get("message", "")
        if obs["error"] == "ValueError" and ("No decoy PSMs were detected" in msg or "No target PSMs were detected" in msg):
            capped = any(pl is not None for p in plans if p[0] == "ok" for pl in p[1])
            oneclass = False
            for f in range(case["folds"]):
                tg = [case["files"][j]["targets"][r] for j in range(len(case["files"])) for r in ms[1]["complements_per_file"][f][j]]
                oneclass = oneclass or not any(tg) or all(tg)
            if capped or oneclass:
                return ("err", "OneClassTrainingSet"), ("err", "OneClassTrainingSet")
        # brew raised after the fold models were fitted: with the column every fold model learned (recorded at fit time) the
        # model computes the scores and tells whether the calibration of some fold really has no accepted target
        if obs["error"] == "RuntimeError" and obs.get("est_fits") and case.get("learner") in (None, "transparent") \
                and case.get("max_iter", 1) == 1:
            cols = []
            for f in range(case["folds"]):
                comp = set(ms[1]["complements"][f])
                cand = [col for ids, col in obs["est_fits"] if ids and set(ids) <= comp]
                others = [col for ids, col in obs["est_fits"] if ids and set(ids) <= comp
                          and not any(set(ids) <= set(ms[1]["complements"][g]) for g in range(case["folds"]) if g != f)]
                pick = others or cand
                cols.append(pick[0] if len(set(pick)) == 1 else None)
            if all(c is not None for c in cols):
                sm = _scores_model(case, dict(obs, cols=cols, seen=None))
                if any(s_[0] == "err" and s_[1] == "RuntimeError" for s_ in sm):
                    return ("err", "RuntimeError"), impl
                if all(s_[0] == "ok" for s_ in sm):
                    return ("ok", {"note": "every fold accepts a target at test_fdr: brew should have returned scores"}), impl
        # cannot compute scores without the estimator columns; predict the error kind only for calibration
        return ("err", "RuntimeError"), impl
    if ms[0] == "err":
        return ms, ("ok", {"note": "brew succeeded"})
    m = ms[1]
    k = case["folds"]
    # ---- implementation-side canonical view
    impl = {"model_folds": obs["model_folds"], "scored": obs["scored_ids"], "trained": obs["trained"]}
    model = {"model_folds": list(range(1, k + 1)), "scored": m["fold_rows"], "trained": [True] * k}
    # training sets
    train_ok = []
    for f in range(k):
        plan = m["plans"][f]
        if plan[0] == "err":
            train_ok.append("plan-error-" + plan[1])
            continue
        obs_ids = obs["train_ids"][f]
        if len(set(obs_ids)) != len(obs_ids):
            train_ok.append("duplicates")
            continue
        ok = True
        for j, pl in enumerate(plan[1]):
            comp = set(_gid(j, r) for r in m["complements_per_file"][f][j])
            mine = [g for g in obs_ids if g // 100000 == j]
            if pl is None:
                ok = ok and sorted(mine) == sorted(comp)
            else:
                ok = ok and set(mine) <= comp and len(mine) == pl
        train_ok.append("ok" if ok else "mismatch")
    impl["train"] = train_ok
    model["train"] = ["ok"] * k
    # scores
    sm = _scores_model(case, obs)
    if any(s[0] == "err" for s in sm):
        kind = [s[1] for s in sm if s[0] == "err"][0]
        model["scores"] = "err:" + ("NonFinite" if kind == "TypeError" else kind)
    else:
        model["scores"] = [[Fraction(float(q)) for q in s[1]] for s in sm]
    if any(v is None for s in obs["scores"] for v in s):
        impl["scores"] = "err:NonFinite"
    else:
        impl["scores"] = obs["scores"]
    impl["_obs"] = {"cols": obs["cols"], "train_sizes": [len(x) for x in obs["train_ids"]]}
    return ("ok", model), ("ok", impl)


def same(c, m, i):
    if m[0] != i[0]:
        return False
    if m[0] == "err":
        return m[1] == i[1]
    a, b = m[1], i[1]
    return all(a[k] == b[k] for k in ("model_folds", "scored", "trained", "train", "scores"))


def nontrivial(c):
    for f in c["files"]:
        seen = set()
        cols = [x for x in ("filename", "ScanNr", "ret_time", "ExpMass") if x in f["data"]]
        for r in range(len(f["targets"])):
            key = tuple(f["data"][x][r] for x in cols)
            if key in seen:
                return True
            seen.add(key)
    return False


def oracle(c, i):
    """the property on the implementation's observations, independent of the model"""
    if "degenerate-few-spectra" in c.get("tags", []):
        return None
    if i[0] != "ok":
        if i[1] in ("RuntimeError", "OneClassTrainingSet", "EmptyFold"):     # calibration: no accepted target in a fold (C11's explicit error);
            return None                                           # a one-class training sub-sample (see compare)
        return f"brew failed on a valid dataset: {i[1]}"
    o = i[1]
    if "scored" not in o:
        return None
    k = c["folds"]
    if o["model_folds"] != list(range(1, k + 1)):
        return f"models are not one per fold: {o['model_folds']}"
    scored = o["scored"]
    allrows = sorted(g for f in scored for g in f)
    exp = sorted(_gid(j, r) for j, f in enumerate(c["files"]) for r in range(len(f["targets"])))
    if allrows != exp:
        return "rows are not scored by exactly one fold model each"
    owner = {g: f for f, rows in enumerate(scored) for g in rows}
    # spectrum identity: full key of the row's own file
    spec = {}
    for j, f in enumerate(c["files"]):
        cols = [x for x in ("filename", "ScanNr", "ret_time", "ExpMass") if x in f["data"]]
        for r in range(len(f["targets"])):
            spec[_gid(j, r)] = (j,) + tuple(f["data"][x][r] for x in cols)
    byspec = {}
    for g, s in spec.items():
        byspec.setdefault(s, set()).add(owner[g])
    for s, fs in byspec.items():
        if len(fs) > 1:
            return f"PSMs of spectrum {s} fall into different folds {sorted(fs)}"
    if o["train"] != ["ok"] * k:
        return f"training sets are not (a sub-sample of) the other folds: {o['train']}"
    return None


def finding_key(c, m, i):
    if i is not None and i[0] == "err" and i[1] == "IndexError" and all("ExpMass" not in f["data"] and "filename" not in f["data"] for f in c["files"]):
        return "split:one-column-spectrum-key"
    return None
