"""C02 — cross-validation integrity: real mokapot.read_pin + brew (recording scaler + transparent estimator)
against Model/Brew.v (split, row->model map, training sets, routing, calibration).

White-box review (reviews/C02.md): the spectrum hashes the model works on are computed by the harness from the file it
wrote (not taken from the implementation's spectra_dataframe), the property oracle is part of the verdict of every run
that returns, runs that stop with an error still have their recorded training sets checked, and the generator varies
column order / names / key-column sets / containers / rng kinds / directories / schedules / reader chunking / caps at
the boundaries, feeds the returned models back in, and calls make_train_sets above its 5,000,000-row block size."""
import atexit
import collections
import os
import shutil
import tempfile
import zlib
from fractions import Fraction
from pathlib import Path

from .. import lib, brewlib
from ..lib import Toks, call_impl

PROP = "C02"
RULE = ("generated PSM tables (2-400 rows, spectra of 1-6 PSMs and, in a sixth of the tables, of up to a third of a fold; spectrum "
        "keys = ScanNr plus every subset of filename / ret_time / ExpMass under default, other-case and caller-given column names; "
        "a CalcMass column that differs inside a spectrum; metadata columns in any position, another column order in every "
        "jointly modelled file; small / >= 2^53 / negative scan numbers; file names with blanks and non-ASCII letters; 1-5 jointly "
        "modelled files, equal-sized or one tiny; .pin / .tab / unknown-suffix tsv and Parquet with several row-group sizes) "
        "through the real read_pin (1-4 workers, column- and row-chunked) + brew with folds 2-6 and 10-13, datasets given as "
        "list / tuple / single object, rng as int / Generator / None, subset_max_train absent / small / large / within +-2 of a "
        "fold's training-set size / smaller than the number of files, max_workers 1-8 with perturbed thread timing, prediction "
        "/ train-read chunk sizes from 1 row to larger than the file, fresh directory or one directory re-used by consecutive "
        "cases, several seeds; a quarter of the successful runs feed the returned models back into brew on the re-read files. "
        "observed per fold model: training row ids (scaler.fit_transform), scored row ids (scaler.transform), model.fold, "
        "returned scores; compared with the extracted model's fold partition (hashes recomputed from the written file), "
        "complements / sub-sampling plan, row->model map and calibrated scores; the property oracle (k fold models, every row "
        "scored once, one fold per spectrum, training set inside the other folds and sharing no spectrum with the held-out "
        "fold) is evaluated on every run that returns and is part of the verdict; runs that raise after fitting still have "
        "every recorded training set checked against the fold it scored. extra: make_train_sets on 5,000,000+ rows. "
        "distinct = distinct case; non-trivial = brew returned, every fold model trained and scored rows, some spectrum has "
        ">= 2 PSMs, and the training sets were compared (recorded from the run, not from the case)")
ASSUMPTIONS = [
    "crc32(str(tuple(key[:2]))) is recomputed by the harness from pandas' own reading of the file it wrote (a harmless change of the hash function breaks this correspondence)",
    "rng.choice sub-sampling and rng.shuffle are oracles (contracts: subset of the complement without duplicates, of the planned size)",
    "scores: integer-valued features through a transparent estimator, so (s-t)/(t-d) is one correctly rounded division; compared exactly",
    "the block size of make_train_sets (5,000,000 rows) is a local constant: it is exercised by calling make_train_sets directly, not through brew",
]
TRUSTED_EXTRA = ["scikit-learn clone/deepcopy of the recording scaler and estimator", "joblib thread scheduling (any completion order)",
                 "pandas.read_csv / read_parquet of the generated file (reference spectrum keys)"]

KEY_FOLD_NAME = "predict:feature-column-named-fold"
KEY_ONECOL = "split:one-column-spectrum-key"

_NONTRIVIAL = {}
_MODEL_ERR = {}          # case key -> error the extracted model stops with on that input (degenerate inputs)
_OUTCOMES = collections.Counter()
_SEEN = collections.Counter()


def _ckey(c):
    return lib.stable_hash({k: v for k, v in c.items() if k != "tags"})


# ----------------------------------------------------------------------------- generation
# canonical order of the spectrum columns in read_percolator: filename, scan, ret_time, expmass
_ROLES = ("filename", "scan", "ret_time", "expmass")
_NAME_STYLES = {
    "default": {"specid": "SpecId", "label": "Label", "scan": "ScanNr", "filename": "filename", "ret_time": "ret_time",
                "expmass": "ExpMass", "calcmass": "CalcMass", "peptide": "Peptide", "proteins": "Proteins"},
    "lower": {"specid": "specid", "label": "label", "scan": "scannr", "filename": "filename", "ret_time": "ret_time",
              "expmass": "expmass", "calcmass": "calcmass", "peptide": "peptide", "proteins": "proteins"},
    "upper": {"specid": "SPECID", "label": "LABEL", "scan": "SCANNR", "filename": "FileName", "ret_time": "RET_TIME",
              "expmass": "EXPMASS", "calcmass": "CALCMASS", "peptide": "PEPTIDE", "proteins": "PROTEINS"},
    # names only the caller knows: passed to read_pin as filename_column= / rt_column= / expmass_column= / calcmass_column=
    "custom": {"specid": "SpecId", "label": "Label", "scan": "ScanNr", "filename": "RawFile", "ret_time": "RT",
               "expmass": "ObsMass", "calcmass": "TheoMass", "peptide": "Peptide", "proteins": "Proteins"},
}
_KEYSETS = [(), ("expmass",), ("filename", "expmass"), ("filename", "ret_time", "expmass"),
            ("filename",), ("ret_time",), ("filename", "ret_time"), ("ret_time", "expmass")]
_FILENAMES = [["run0.mzML", "run1.mzML"], ["run 0.mzML", "run 1 b.mzML", "rün 2.mzML"], ["a.raw"],
              ["run1.mzML", "run11.mzML", "run1.mzML2"]]


def gen_table(rng, n, keyset, file_idx, style="default", mult=(1, 6), label_enc="pm1", quality=0.85, nfeat=3, scan_kind="small",
              calcmass=False, fold_feature=False, order=None, feat_order=None, distinct_scans=False):
    """one PSM table; `keyset` = the optional spectrum columns present; returns the brewlib file dict + key_names (names of
    the spectrum columns in mokapot's canonical order) + read_kw (the keyword arguments read_pin needs)"""
    nm = _NAME_STYLES[style]
    fnames = rng.choice(_FILENAMES)
    rows = []
    while len(rows) < n:
        m = rng.randint(*mult)
        scan = len(rows) + 1 if distinct_scans else rng.randint(1, max(3, n // 2))
        if scan_kind == "huge":
            scan = 2 ** 53 + scan               # neighbours collapse when the key is all-numeric (float64)
        elif scan_kind == "signed":
            scan = scan - max(3, n // 2) // 2   # zero and negative numbers
        spec = (scan, rng.choice(fnames), rng.randint(0, 40) * 0.5, 500 + rng.randint(0, 30) * 0.25)
        for _ in range(m):
            if len(rows) < n:
                rows.append(spec)
    rng.shuffle(rows)
    tg = [rng.random() < 0.55 for _ in range(n)]
    if n >= 2 and all(tg):
        tg[rng.randrange(n)] = False
    if n >= 2 and not any(tg):
        tg[rng.randrange(n)] = True
    meta = {}
    meta[nm["specid"]] = ["f%d_psm%d" % (file_idx, i) for i in range(n)]
    if label_enc == "pm1":
        meta[nm["label"]] = [1 if t else -1 for t in tg]
    elif label_enc == "01":
        meta[nm["label"]] = [1 if t else 0 for t in tg]
    else:
        meta[nm["label"]] = [bool(t) for t in tg]
    meta[nm["scan"]] = [r[0] for r in rows]
    if "filename" in keyset:
        meta[nm["filename"]] = [r[1] for r in rows]
    if "ret_time" in keyset:
        meta[nm["ret_time"]] = [r[2] for r in rows]
    if "expmass" in keyset:
        meta[nm["expmass"]] = [r[3] for r in rows]
    if calcmass:
        # the theoretical mass belongs to the peptide, not to the spectrum: it differs between the PSMs of one spectrum
        meta[nm["calcmass"]] = [400 + rng.randint(0, 4000) * 0.125 for _ in range(n)]
    npep = max(2, n // 3)
    meta[nm["peptide"]] = ["K.PEP%dK.A" % rng.randint(0, npep) for _ in range(n)]
    meta[nm["proteins"]] = ["prot%d" % rng.randint(0, 5) for _ in range(n)]
    feats = collections.OrderedDict()
    feats["rid"] = [file_idx * 100000 + i for i in range(n)]
    for j in range(nfeat):
        vals = []
        for i in range(n):
            good = tg[i] and rng.random() < quality
            vals.append(rng.randint(40, 100) if good else rng.randint(0, 60))
        feats["fold" if (fold_feature and j == nfeat - 1) else "feat%d" % j] = vals
    fnames_f = list(feats)
    if feat_order == "permuted":          # only for the 2nd.. file of a case: the fold models take the order of file 0
        rng.shuffle(fnames_f)
    mnames = list(meta)
    if order == "meta-last":
        cols = fnames_f + mnames
    elif order == "interleaved":
        rng.shuffle(mnames)
        cols = list(fnames_f)
        for x in mnames:
            cols.insert(rng.randint(0, len(cols)), x)
        # rid stays the first feature column of the first file (the recording scaler reads column 0)
        if feat_order != "permuted":
            pos = [cols.index(x) for x in fnames_f]
            for p, x in zip(sorted(pos), fnames_f):
                cols[p] = x
    elif order == "meta-shuffled":
        rng.shuffle(mnames)
        cols = mnames + fnames_f
    else:
        cols = [nm["specid"], nm["label"], nm["scan"]] + [x for x in mnames if x not in (nm["specid"], nm["label"], nm["scan"],
                                                                                     nm["peptide"], nm["proteins"])] \
            + fnames_f + [nm["peptide"], nm["proteins"]]
    data = dict(meta)
    data.update(feats)
    key_names = [nm[r] for r in _ROLES if r == "scan" or r in keyset]
    read_kw = {}
    if style == "custom":
        if "filename" in keyset:
            read_kw["filename_column"] = nm["filename"]
        if "ret_time" in keyset:
            read_kw["rt_column"] = nm["ret_time"]
        if "expmass" in keyset:
            read_kw["expmass_column"] = nm["expmass"]
        if calcmass:
            read_kw["calcmass_column"] = nm["calcmass"]
    return {"columns": cols, "data": {c: data[c] for c in cols}, "targets": tg, "key_names": key_names, "read_kw": read_kw}


def _brew_case(rng, ctx, idx):
    thorough = ctx.thorough
    nfiles = rng.choice([1, 1, 1, 2, 2, 3, 3, 4, 5])
    keyset = rng.choice(_KEYSETS + [()])      # the scan number alone twice as often: the only key shorter than the two hashed columns
    folds = rng.choice([2, 3, 4, 5, 6, 2, 3, 4, 5, 6, 10, 11, 12, 13])     # >= 10: fold numbers of two digits
    style = rng.choice(["default", "default", "lower", "upper", "custom"])
    calcmass = rng.random() < 0.5
    scan_kind = rng.choice(["small", "small", "small", "huge", "signed"])
    big_groups = rng.random() < 0.17
    size_mode = rng.choice(["random", "random", "random", "equal", "equal", "one-tiny"]) if nfiles > 1 else "random"
    lo = 20 if folds < 10 else 130
    hi = 400 if thorough else (160 if folds < 10 else 200)
    n0 = rng.randint(lo, hi)
    order0 = rng.choice(["classic", "classic", "meta-last", "interleaved", "meta-shuffled"])
    files = []
    for j in range(nfiles):
        if size_mode == "equal":
            n = n0
        elif size_mode == "one-tiny" and j == nfiles - 1:
            n = rng.randint(folds, 4 * folds)       # a jointly modelled file with a few PSMs per fold
        else:
            n = rng.randint(lo, hi)
        tiny = size_mode == "one-tiny" and j == nfiles - 1
        if tiny:
            mult = (1, 1)
        elif big_groups:
            mult = (1, max(2, n // folds // 3))
        else:
            mult = (1, rng.choice([1, 3, 6]))
        order = order0 if j == 0 or rng.random() < 0.4 else rng.choice(["classic", "meta-last", "interleaved", "meta-shuffled"])
        files.append(gen_table(rng, n, keyset, j, style=style, mult=mult, label_enc=rng.choice(["pm1", "01", "bool"]),
                               scan_kind=scan_kind, calcmass=calcmass, order=order, distinct_scans=tiny,
                               feat_order="permuted" if (j > 0 and rng.random() < 0.5) else None))
    sizes = [len(f["targets"]) for f in files]
    ntot = sum(sizes)
    nmax = max(sizes)
    train_nominal = ntot - ntot // folds
    cap_kind = rng.choice(["none", "none", "none", "none", "quarter", "half", "double", "double", "boundary", "boundary", "boundary", "tiny"])
    if nfiles > 1 and cap_kind in ("quarter", "half", "boundary") and (size_mode != "equal" or cap_kind == "boundary") and rng.random() < 0.7:
        # the per-file share of the cap then usually exceeds what the smallest file has outside a fold: brew stops with the
        # ValueError of rng.choice (modelled: bw_subset_plan = Err EValue) — kept, but not as the common case
        cap_kind = rng.choice(["none", "double"])
    cap = {"none": None, "quarter": max(4, ntot // 4), "half": max(6, ntot // 2), "double": ntot * 2,
           "boundary": max(1, train_nominal + rng.randint(-2, 2)),
           "tiny": rng.choice([max(1, nfiles - 1), nfiles, 2 * nfiles + 1])}[cap_kind]
    chunks = {}
    # chunks of one to three rows on large inputs dominate the running time (one thread pool per chunk and fold)
    tiny_chunks = ([1, 2, 3] if ntot <= 120 else []) + ([7] if ntot <= 300 else []) + [max(1, nmax // 5)]
    if rng.random() < 0.6:
        chunks["predict"] = rng.choice(tiny_chunks + [nmax - 1, nmax, nmax + 1, nmax // 2, nmax // 2 + 1, nmax // 3 + 1])
    if rng.random() < 0.6:
        chunks["trainread"] = rng.choice(tiny_chunks + [nmax - 1, nmax, nmax + 1, nmax // 2 + 1])
    if rng.random() < 0.5:
        # read_percolator: rows per pass over the file while the spectra table is assembled
        chunks["rowscan"] = rng.choice([2, 3, 7, nmax // 2, nmax - 1, nmax, nmax + 1])
    if rng.random() < 0.4:
        chunks["colscan"] = rng.choice([1, 2, 3, 5])
    chunks = {a: max(1, b) for a, b in chunks.items()}
    fmt = rng.choice(["tsv", "tsv", "parquet"])
    workers = rng.choice([1, 1, 2, 4, 8])
    read_workers = rng.choice([1, 1, 2, 4])
    container = rng.choice(["list", "list", "tuple"]) if nfiles > 1 else rng.choice(["list", "single", "single", "tuple"])
    rng_kind = rng.choice(["int", "int", "generator", "none"])
    case = {"fn": "brew", "files": files, "folds": folds, "seed": rng.randint(0, 10 ** 6),
            "test_fdr": rng.choice(["0.5", "0.5", "0.5", "1.0", "1.0", "1.0", "1.0", "0.25", "0.25", "0.1"] if folds < 10 else ["0.5", "1.0", "1.0"]),
            "workers": workers,
            "subset_max_train": cap, "chunks": chunks, "fmt": fmt,
            "suffix": rng.choice([".pin", ".pin", ".tab", ".tsv"]) if fmt == "tsv" else ".parquet",
            "row_group": rng.choice([None, 1, 3, 17]) if fmt == "parquet" else None,
            "est_mode": rng.choice(["decision", "decision", "decision", "proba"]),
            "read_workers": read_workers, "container": container, "rng_kind": rng_kind,
            "sleep_seed": rng.randint(1, 10 ** 6) if (workers > 1 or read_workers > 1) and rng.random() < 0.7 else None,
            "workdir": rng.choice(["shared", "shared", "fresh"]),
            "rescore": ({"workers": rng.choice([1, 2, 4]), "seed": rng.randint(0, 10 ** 6)} if rng.random() < 0.25 else None)}
    case["tags"] = ["brew", f"files={nfiles}", "key=" + "+".join(("scan",) + keyset), f"folds={folds}",
                    "cap=" + cap_kind, fmt + ("" if fmt == "parquet" else case["suffix"]),
                    "chunks=" + ",".join(sorted(chunks)) if chunks else "chunks=default",
                    "names=" + style, "order=" + order0, "scan=" + scan_kind, "psms=" + container, "rng=" + rng_kind,
                    "dir=" + case["workdir"], "sizes=" + size_mode, "workers=%d" % workers, "readworkers=%d" % read_workers]
    if calcmass:
        case["tags"].append("calcmass-column")
    if big_groups:
        case["tags"].append("big-spectra")
    if case["sleep_seed"]:
        case["tags"].append("perturbed-timing")
    if case["rescore"]:
        case["tags"].append("rescore-requested")
    if nfiles > 1 and len({tuple(f["columns"]) for f in files}) > 1:
        case["tags"].append("files-differ-in-column-order")
    return case


def gen(ctx):
    cases = []
    rng = ctx.sub("brew")
    n_cases = 330 if ctx.thorough else 84
    for k in range(n_cases):
        cases.append(_brew_case(rng, ctx, k))
    # the same path, other content: pairs of one-file cases written to the shared directory under one name, with the same
    # fold count, so that anything remembered per path (or per path and fold count) from the first is wrong for the second
    rng = ctx.sub("same-path")
    for k in range(10 if ctx.thorough else 3):
        folds = rng.choice([2, 3, 4])
        keyset = rng.choice(_KEYSETS)
        n = rng.randint(30, 90)          # the same number of rows: a stale split is then wrong without an IndexError
        for rep in range(2):
            f = gen_table(rng, n, keyset, 0, mult=(1, 4))
            cases.append({"fn": "brew", "files": [f], "folds": folds, "seed": k, "test_fdr": "1.0", "workers": 1,
                          "subset_max_train": None, "chunks": {}, "fmt": "tsv", "suffix": ".pin", "row_group": None,
                          "est_mode": "decision", "workdir": "shared", "container": "list", "rng_kind": "int",
                          "tags": ["brew", "same-path-pair", "dir=shared", f"folds={folds}", "files=1"]})
    # a feature column whose name is the one _predict uses internally
    rng = ctx.sub("fold-name")
    for k in range(6 if ctx.thorough else 3):
        f = gen_table(rng, rng.randint(40, 80), ("expmass",), 0, fold_feature=True)
        cases.append({"fn": "brew", "files": [f], "folds": 3, "seed": k, "test_fdr": "1.0", "workers": 1, "subset_max_train": None,
                      "chunks": {}, "fmt": "tsv", "suffix": ".pin", "row_group": None, "est_mode": "decision", "workdir": "fresh",
                      "tags": ["brew", "feature-named-fold"]})
    # degenerate: fewer distinct spectra than folds / one big spectrum
    rng = ctx.sub("degenerate")
    for k in range(6 if not ctx.thorough else 20):
        n = rng.randint(6, 14)
        f = brewlib.gen_file(rng, n, 2, file_idx=0, mult=(n, n))
        cases.append({"fn": "brew", "files": [f], "folds": rng.randint(2, 5), "seed": k, "test_fdr": "0.5", "workers": 1,
                      "subset_max_train": None, "chunks": {}, "fmt": "tsv", "row_group": None, "est_mode": "decision",
                      "tags": ["brew", "degenerate-few-spectra"]})
    return cases


# ----------------------------------------------------------------------------- running the real code
_SHARED = [None]


def _shared_dir():
    if _SHARED[0] is None:
        _SHARED[0] = tempfile.mkdtemp(prefix="c02_shared_", dir=os.environ.get("VERIF_TMP", "/tmp"))
        atexit.register(shutil.rmtree, _SHARED[0], True)
    return _SHARED[0]


def _key_names(f):
    if "key_names" in f:
        return list(f["key_names"])
    return [x for x in ("filename", "ScanNr", "ret_time", "ExpMass") if x in f["data"]]


def _write(f, d, name, fmt, suffix, row_group):
    import pandas as pd
    df = pd.DataFrame(f["data"], columns=f["columns"])
    if fmt == "parquet":
        p = Path(d) / (name + ".parquet")
        df.to_parquet(p, index=False, row_group_size=row_group or max(1, len(df)))
    else:
        p = Path(d) / (name + (suffix or ".pin"))
        df.to_csv(p, sep="\t", index=False)
    return p


def _reference_keys(path, key_names):
    """the hashes _split must work on, from pandas' own reading of the whole file (no mokapot code involved)"""
    import pandas as pd
    df = pd.read_parquet(path) if path.suffix == ".parquet" else pd.read_csv(path, sep="\t")
    vals = df[key_names].values
    return [zlib.crc32(str(tuple(x[:2])).encode()) for x in vals]


def _snapshot(models):
    """training rows and scored rows of the given fold models, from the recording scaler's log"""
    fit_by_token = dict(brewlib.LOG["fit"])
    tr = {}
    for tok, ids in brewlib.LOG["transform"]:
        tr.setdefault(tok, []).extend(ids)
    toks = [getattr(m.scaler, "token_", None) for m in models]
    return [sorted(fit_by_token.get(t, [])) for t in toks], [sorted(tr.get(t, [])) for t in toks]


def run_impl(case):
    """read_pin + brew of the real code on the case; returns the observation dict"""
    import numpy as np
    import mokapot
    from mokapot.model import Model
    RecScaler, Transparent = brewlib.make_classes()
    shared = case.get("workdir") == "shared"
    d = _shared_dir() if shared else tempfile.mkdtemp(prefix="brew_", dir=os.environ.get("VERIF_TMP", "/tmp"))
    try:
        paths = [_write(f, d, "file%d" % i, case.get("fmt", "tsv"), case.get("suffix"), case.get("row_group"))
                 for i, f in enumerate(case["files"])]
        ref_keys = [_reference_keys(p, _key_names(f)) for p, f in zip(paths, case["files"])]
        read_kw = dict(case["files"][0].get("read_kw") or {})
        ch = case.get("chunks", {})
        with brewlib.Chunking(**ch), brewlib.Sleeps(case.get("sleep_seed")):
            dss = mokapot.read_pin(paths if len(paths) > 1 else paths[0], max_workers=case.get("read_workers", 1), **read_kw)
            keys = [brewlib.spectrum_keys(ds) for ds in dss]
            spec_cols = [list(ds.spectrum_columns) for ds in dss]
            features = [list(ds.feature_columns) for ds in dss]
            brewlib.reset_log()
            est = Transparent(mode=case.get("est_mode", "decision"), learn=True, kind=case.get("est_kind", "col"))
            model = Model(est, scaler=RecScaler(), train_fdr=1.0, max_iter=1, override=True, rng=case["seed"])
            kind = case.get("rng_kind", "int")
            rng_arg = case["seed"] if kind == "int" else (np.random.default_rng(case["seed"]) if kind == "generator" else None)
            cont = case.get("container", "list")
            psms_arg = dss[0] if (cont == "single" and len(dss) == 1) else (tuple(dss) if cont == "tuple" else list(dss))
            base = {"keys": keys, "ref_keys": ref_keys, "spectrum_columns": spec_cols, "features": features}
            try:
                _, models, scores, descs = mokapot.brew(
                    psms_arg, model, test_fdr=float(case["test_fdr"]), folds=case["folds"],
                    max_workers=case.get("workers", 1), rng=rng_arg, subset_max_train=case.get("subset_max_train"))
            except BaseException as e:   # noqa
                if isinstance(e, (KeyboardInterrupt, SystemExit, MemoryError)):
                    raise
                # what was fitted and scored before brew raised is known all the same
                tr = {}
                for tok, ids in brewlib.LOG["transform"]:
                    tr.setdefault(tok, []).extend(ids)
                base.update({"error": lib.err_kind(e), "message": str(e)[:200],
                             "est_fits": [(sorted(x[0]), x[2]) for x in brewlib.LOG["est_fit"] if len(x) > 2],
                             "fits": [(tok, sorted(ids), sorted(tr.get(tok, []))) for tok, ids in brewlib.LOG["fit"]]})
                return base
            train_ids, scored_ids = _snapshot(models)
            obs = dict(base)
            obs.update({
                "error": None,
                "model_folds": [m.fold for m in models],
                "trained": [bool(m.is_trained) for m in models],
                "cols": [getattr(m.estimator, "col_", None) for m in models],
                "train_ids": train_ids, "scored_ids": scored_ids,
                "scores": [[Fraction(float(v)) if np.isfinite(v) else None for v in np.asarray(s).ravel()] for s in scores],
                "n_scores": [int(np.asarray(s).size) for s in scores],
                "descs": [bool(x) for x in descs],
                "seen": None,
                "rescore": None,
            })
            if case.get("rescore"):
                # the documented second use: the trained fold models, in the order brew returned them, on the same files
                rs = case["rescore"]
                with brewlib._LOCK:
                    brewlib.LOG["transform"] = []
                try:
                    dss2 = mokapot.read_pin(paths, max_workers=1, **read_kw)
                    _, models2, scores2, _ = mokapot.brew(dss2, list(models), test_fdr=float(case["test_fdr"]), folds=case["folds"],
                                                          max_workers=rs.get("workers", 1), rng=rs.get("seed", 0))
                    _, scored2 = _snapshot(models2)
                    obs["rescore"] = {"model_folds": [m.fold for m in models2], "scored": scored2,
                                      "same_objects": all(a is b for a, b in zip(models, models2)) and len(models) == len(models2),
                                      "scores": [[Fraction(float(v)) if np.isfinite(v) else None for v in np.asarray(s).ravel()]
                                                 for s in scores2]}
                except BaseException as e:   # noqa
                    if isinstance(e, (KeyboardInterrupt, SystemExit, MemoryError)):
                        raise
                    obs["rescore"] = {"error": lib.err_kind(e), "message": str(e)[:200]}
        return obs
    finally:
        if not shared:
            shutil.rmtree(d, ignore_errors=True)


# ----------------------------------------------------------------------------- one case
def _gid(j, r):
    return j * 100000 + r


def _model_side(case, obs):
    """everything the extracted model predicts, given the spectrum hashes of the files"""
    k = case["folds"]
    out = {"folds": [], "fold_of": [], "train": None, "scores": None}
    obs.setdefault("ref_keys", obs["keys"])      # callers from other harnesses record the implementation's keys only
    lines = ["c02.split_train %s %s" % (lib.lst(keys), lib.z(k)) for keys in obs["ref_keys"]]
    res = lib.run_driver(lines)
    per_file = []
    for line in res:
        t = Toks(line)
        r = t.result(lambda: (t.lst(lambda: t.lst()), t.lst(lambda: t.lst()), t.lst()))
        if r[0] == "err":
            return ("err", r[1])
        per_file.append(r[1])
    out["folds"] = [[sorted(f) for f in pf[0]] for pf in per_file]
    out["fold_of"] = [pf[2] for pf in per_file]
    # training plan per fold
    plans = []
    cap = case.get("subset_max_train")
    lines = []
    for f in range(k):
        sizes = [len(pf[1][f]) for pf in per_file]
        lines.append("c02.plan %s %s" % (lib.opt(cap), lib.lst(sizes)))
    for line in lib.run_driver(lines):
        t = Toks(line)
        plans.append(t.result(lambda: t.lst(lambda: t.opt())))
    out["plans"] = plans
    out["complements"] = [sorted(_gid(j, r) for j, pf in enumerate(per_file) for r in pf[1][f]) for f in range(k)]
    out["complements_per_file"] = [[sorted(pf[1][f]) for pf in per_file] for f in range(k)]
    out["fold_rows"] = [sorted(_gid(j, r) for j, pf in enumerate(per_file) for r in pf[0][f]) for f in range(k)]
    return ("ok", out)


def _feature_name(case, obs, col):
    feats = (obs.get("features") or [None])[0]
    if feats:
        return feats[col]
    return "rid" if col == 0 else "feat%d" % (col - 1)


def _scores_model(case, obs):
    k = case["folds"]
    thr = Fraction(case["test_fdr"])
    c = case.get("chunks", {}).get("predict", 700000)
    lines = []
    for j, f in enumerate(case["files"]):
        raw = []
        for m in range(k):
            if obs.get("seen") and obs["seen"][m]:
                # recorded decision values of a black-box learner (oracle): value of model m on row r
                seen = obs["seen"][m]
                raw.append([int(seen.get(_gid(j, r), 0)) for r in range(len(f["targets"]))])
                continue
            name = _feature_name(case, obs, obs["cols"][m])
            kind = case.get("est_kind", "col")
            if kind == "const":
                raw.append([0 for _ in f["data"][name]])
            elif kind == "neg":
                raw.append([-int(v) for v in f["data"][name]])
            else:
                raw.append([int(v) for v in f["data"][name]])
        lines.append("c02.brew_scores %s %s %s %s %s %s %s" % (
            lib.b(case.get("est_mode", "decision") == "decision"), lib.z(c), lib.z(k), lib.q(thr),
            lib.lst(obs["ref_keys"][j]), lib.lst(f["targets"], lib.b), lib.lst(raw, lambda r: lib.lst(r))))
    res = []
    for line in lib.run_driver(lines):
        t = Toks(line)
        res.append(t.result(lambda: t.lst(t.q)))
    return res


def _raw_values(case, obs, j, f):
    """per fold model (in the order brew returned them): its decision value on every row of file j, as exact Fractions"""
    k = case["folds"]
    raw = []
    for m in range(k):
        if obs.get("seen") and obs["seen"][m]:
            seen = obs["seen"][m]        # recorded decision values of a black-box learner (oracle)
            raw.append([Fraction(seen.get(_gid(j, r), 0)) for r in range(len(f["targets"]))])
            continue
        name = _feature_name(case, obs, obs["cols"][m])
        kind = case.get("est_kind", "col")
        if kind == "const":
            raw.append([Fraction(0) for _ in f["data"][name]])
        elif kind == "neg":
            raw.append([-Fraction(v) for v in f["data"][name]])
        else:
            raw.append([Fraction(v) for v in f["data"][name]])
    return raw


def _scores_model_ens(case, obs, delivery="reversed"):
    """brew(ensemble=True) by the extracted model (Model/Brew.v bw_brew_scores_ens, driver entry c02.brew_scores_ens): per
    file ("ok", [Fraction]) — the exact mean over ALL fold models of their raw decision values — or ("err", kind).  The
    fitted models go in as (Model.fold, values) in another order than the one brew returned (the model sorts them by fold).
    Contract: the values are integers or dyadic rationals (scaled here by their common power-of-two denominator) and small,
    so the float64 sum of the real code is exact and np.mean returns float(exact sum / k): callers compare
    Fraction(float(q)) with the returned score bit for bit."""
    k = case["folds"]
    c = case.get("chunks", {}).get("predict", 700000)
    folds = list(obs.get("model_folds") or range(1, k + 1))
    lines, dens = [], []
    for j, f in enumerate(case["files"]):
        raw = _raw_values(case, obs, j, f)
        den = 1
        for col in raw:
            for v in col:
                if v.denominator > den:
                    den = v.denominator
        if den & (den - 1) or any((v * den).denominator != 1 for col in raw for v in col):
            raise lib.ModelError("ensemble contract: decision values must be dyadic rationals")
        if k * max([abs(int(v * den)) for col in raw for v in col] or [0]) >= 2 ** 53:
            raise lib.ModelError("ensemble contract: k * max|value| must stay below 2^53")
        fitted = [(folds[m], [int(v * den) for v in raw[m]]) for m in range(len(raw))]
        if delivery == "reversed":
            fitted = fitted[::-1]
        dens.append(den)
        lines.append("c02.brew_scores_ens %s %s %s %s" % (
            lib.z(c), lib.z(k), lib.lst(obs["ref_keys"][j]),
            lib.lst(fitted, lambda p: lib.z(p[0]) + " " + lib.lst(p[1]))))
    res = []
    for line, den in zip(lib.run_driver(lines), dens):
        t = Toks(line)
        r = t.result(lambda: t.lst(t.q))
        res.append(("ok", [q / den for q in r[1]]) if r[0] == "ok" else r)
    return res


def run_case(case):
    m, i = compare(case, call_impl(run_impl, case))
    if m[0] == "err":
        _MODEL_ERR[_ckey(case)] = m[1]
    _OUTCOMES["%s / %s" % (m[1] if m[0] == "err" else m[0], (str(i[1])[:60] if i[0] == "err" else i[0]))] += 1
    return m, i


def _spectra(case):
    """row id -> spectrum identity (full key of the row's own file), from the generated table"""
    spec = {}
    for j, f in enumerate(case["files"]):
        cols = _key_names(f)
        for r in range(len(f["targets"])):
            spec[_gid(j, r)] = (j,) + tuple(f["data"][x][r] for x in cols)
    return spec


def _fits_message(case, ms, obs):
    """brew raised: every training set the recording scaler saw must still lie inside the complement of one fold — the fold
    whose rows that model went on to score, when it scored any — in the planned size, and share no spectrum with those rows"""
    fits = obs.get("fits") or []
    if not fits:
        return None
    if ms[0] != "ok":
        return None
    m = ms[1]
    k = case["folds"]
    spec = _spectra(case)
    fold_of_row = {g: f for f in range(k) for g in m["fold_rows"][f]}
    if len(fits) > k:
        return f"{len(fits)} training sets for {k} folds"
    for tok, ids, scored in fits:
        if len(set(ids)) != len(ids):
            return "a training set holds a row twice"
        if any(g not in fold_of_row for g in ids):
            return "a training set holds a row that is in no file"
        sf = sorted({fold_of_row.get(g, -1) for g in scored})
        if len(sf) > 1:
            return f"one fold model scored rows of the folds {sf}"
        cands = sf if sf else [f for f in range(k) if set(ids) <= set(m["complements"][f])]
        if not cands:
            return "a training set lies in the complement of no fold"
        ok = False
        for f in cands:
            comp = set(m["complements"][f])
            if not set(ids) <= comp:
                continue
            plan = m["plans"][f]
            if plan[0] != "ok":
                continue
            good = True
            for j, pl in enumerate(plan[1]):
                mine = [g for g in ids if g // 100000 == j]
                want = len(m["complements_per_file"][f][j]) if pl is None else pl
                good = good and len(mine) == want
            ok = ok or good
        if not ok:
            return "a training set is not the planned (sub-sample of the) complement of the fold its model scores"
        held = {spec[g] for g in scored}
        if any(spec[g] in held for g in ids):
            return "a training set shares a spectrum with the rows its model scored"
    return None


def _err(kind, fitmsg):
    return ("err", kind if not fitmsg else "%s; %s" % (kind, fitmsg))


def compare(case, got):
    if got[0] == "err":
        return ("unknown", "read_pin failed"), ("err", got[1])
    obs = got[1]
    # (other harnesses that reuse this comparison — c04, c07 — record the implementation's own keys only)
    obs.setdefault("ref_keys", obs["keys"])
    # the spectra table read_pin hands to _split: one row per PSM in file order, the key columns in canonical order
    exp_cols = [_key_names(f) for f in case["files"]]
    if "spectrum_columns" in obs and obs["spectrum_columns"] != exp_cols:
        return ("ok", {"spectrum_columns": exp_cols}), ("ok", {"spectrum_columns": obs["spectrum_columns"]})
    if obs["keys"] != obs["ref_keys"]:
        bad = [(j, r) for j, (a, b) in enumerate(zip(obs["keys"], obs["ref_keys"]))
               for r in range(max(len(a), len(b))) if r >= len(a) or r >= len(b) or a[r] != b[r]]
        return ("ok", {"spectra_table": "the spectrum keys of the file, row by row"}), \
               ("ok", {"spectra_table": "differs from the file at (file, row) %s ..." % (bad[:3],), "property":
                       "read_pin's spectra table does not hold the spectrum key of each PSM in file order"})
    ms = _model_side(case, obs)
    if obs.get("error"):
        fitmsg = _fits_message(case, ms, obs)
        impl = _err(obs["error"], fitmsg)
        if ms[0] == "err":
            return ms, impl
        # the split succeeded in the model: the failure must come from the plan or from calibration
        plans = ms[1]["plans"]
        if any(p[0] == "err" for p in plans):
            return ("err", [p[1] for p in plans if p[0] == "err"][0]), impl
        # a file none of whose PSMs falls into some fold (small file, many folds; a spectrum group straddling two split points
        # gives an empty fold, see DESIGN C02): the per-fold prediction lists of that file are empty and brew stops with an
        # error (np.hstack of nothing, or the calibration error) instead of returning scores — a degenerate input; no PSM is
        # scored by a wrong model.  The kind of the error depends on the estimator interface, so only 'an error' is predicted.
        if any(len(fold) == 0 for per_file in ms[1]["folds"] for fold in per_file):
            return ("err", "EmptyFold"), _err("EmptyFold", fitmsg)
        # a training set without decoys (or without targets) is rejected by LinearPsmDataset: legitimate when the random
        # sub-sample of a capped training set happens to be one-class (the drawn sub-sample — an RNG oracle — was never
        # observed, so the model cannot predict it), or when the complement of a fold is one-class itself
        msg = obs.get("message", "")
        if obs["error"] == "ValueError" and ("No decoy PSMs were detected" in msg or "No target PSMs were detected" in msg
                                             or "No PSMs were detected" in msg):
            capped = any(pl is not None for p in plans if p[0] == "ok" for pl in p[1])
            oneclass = False
            for f in range(case["folds"]):
                tg = [case["files"][j]["targets"][r] for j in range(len(case["files"])) for r in ms[1]["complements_per_file"][f][j]]
                oneclass = oneclass or not any(tg) or all(tg)
            if capped or oneclass:
                return ("err", "OneClassTrainingSet"), _err("OneClassTrainingSet", fitmsg)
        # brew raised after the fold models were fitted: with the column every fold model learned (recorded at fit time) the
        # model computes the scores and tells whether the calibration of some fold really has no accepted target
        if obs["error"] == "RuntimeError" and obs.get("est_fits") and case.get("learner") in (None, "transparent") \
                and case.get("max_iter", 1) == 1:
            cols = []
            for f in range(case["folds"]):
                comp = set(ms[1]["complements"][f])
                cand = [col for ids, col in obs["est_fits"] if ids and set(ids) <= comp]
                others = [col for ids, col in obs["est_fits"] if ids and set(ids) <= comp
                          and not any(set(ids) <= set(ms[1]["complements"][g]) for g in range(case["folds"]) if g != f)]
                pick = others or cand
                cols.append(pick[0] if len(set(pick)) == 1 else None)
            if all(c is not None for c in cols):
                sm = _scores_model(case, dict(obs, cols=cols, seen=None))
                if any(s_[0] == "err" and s_[1] == "RuntimeError" for s_ in sm):
                    return ("err", "RuntimeError"), impl
                if all(s_[0] == "ok" for s_ in sm):
                    return ("ok", {"note": "every fold accepts a target at test_fdr: brew should have returned scores"}), impl
        # cannot compute scores without the estimator columns; predict the error kind only for calibration
        return ("err", "RuntimeError"), impl
    if ms[0] == "err":
        return ms, ("ok", {"note": "brew succeeded"})
    m = ms[1]
    k = case["folds"]
    # ---- implementation-side canonical view
    impl = {"model_folds": obs["model_folds"], "scored": obs["scored_ids"], "trained": obs["trained"]}
    model = {"model_folds": list(range(1, k + 1)), "scored": m["fold_rows"], "trained": [True] * k}
    if case.get("ensemble"):
        # brew(ensemble=True) (callers c04 / c05; Model/Brew.v, R2.22): every fold model scores EVERY row of every file
        model["scored"] = [sorted(g for rows in m["fold_rows"] for g in rows)] * k
    # training sets
    train_ok = []
    spec = _spectra(case)
    for f in range(k):
        plan = m["plans"][f]
        if plan[0] == "err":
            train_ok.append("plan-error-" + plan[1])
            continue
        if f >= len(obs["train_ids"]):
            train_ok.append("missing")
            continue
        obs_ids = obs["train_ids"][f]
        if len(set(obs_ids)) != len(obs_ids):
            train_ok.append("duplicates")
            continue
        ok = True
        for j, pl in enumerate(plan[1]):
            comp = set(_gid(j, r) for r in m["complements_per_file"][f][j])
            mine = [g for g in obs_ids if g // 100000 == j]
            if pl is None:
                ok = ok and sorted(mine) == sorted(comp)
            else:
                ok = ok and set(mine) <= comp and len(mine) == pl
        ok = ok and all(0 <= g // 100000 < len(case["files"]) for g in obs_ids)
        train_ok.append("ok" if ok else "mismatch")
    impl["train"] = train_ok
    model["train"] = ["ok"] * k
    # scores
    sm = _scores_model_ens(case, obs) if case.get("ensemble") else _scores_model(case, obs)
    if any(s[0] == "err" for s in sm):
        kind = [s[1] for s in sm if s[0] == "err"][0]
        model["scores"] = "err:" + ("NonFinite" if kind == "TypeError" else kind)
    else:
        model["scores"] = [[Fraction(float(q)) for q in s[1]] for s in sm]
    if any(v is None for s in obs["scores"] for v in s):
        impl["scores"] = "err:NonFinite"
    else:
        impl["scores"] = obs["scores"]
    # the trained models fed back in, in the order they were returned: same routing, same scores
    if case.get("rescore"):
        rs = obs.get("rescore") or {}
        model["rescore"] = {"model_folds": model["model_folds"], "scored": model["scored"], "scores": model["scores"]}
        if rs.get("error"):
            impl["rescore"] = "err:" + rs["error"]
        else:
            sc2 = rs.get("scores") or []
            impl["rescore"] = {"model_folds": rs.get("model_folds"), "scored": rs.get("scored"),
                               "scores": "err:NonFinite" if any(v is None for s in sc2 for v in s) else sc2}
        _SEEN["rescored with the returned models"] += 1
    # the property itself, on what the implementation did (independent of the extracted model)
    model["property"] = None
    impl["property"] = _oracle_ok(case, impl, obs["train_ids"], spec)
    impl["_obs"] = {"cols": obs["cols"], "train_sizes": [len(x) for x in obs["train_ids"]]}
    # ---- what this run exercised (evidence only)
    multi = len(set(spec.values())) < len(spec)
    _NONTRIVIAL[_ckey(case)] = bool(multi and all(obs["trained"]) and len(obs["scored_ids"]) == k
                                    and all(len(x) > 0 for x in obs["scored_ids"]) and train_ok == ["ok"] * k)
    for f in range(k):
        if m["plans"][f][0] == "ok":
            total = len(m["complements"][f])
            cap = case.get("subset_max_train")
            if cap is not None and total == cap:
                _SEEN["cap == size of a fold's training set"] += 1
            if cap is not None and total == cap + 1:
                _SEEN["cap == size of a fold's training set - 1"] += 1
            if any(pl == 0 for pl in m["plans"][f][1] if pl is not None):
                _SEEN["a file's share of the cap is 0 rows"] += 1
            if any(pl is not None for pl in m["plans"][f][1]):
                _SEEN["fold training set sub-sampled"] += 1
    sizes = collections.Counter(spec.values())
    if sizes and max(sizes.values()) >= 8:
        _SEEN["a spectrum of >= 8 PSMs"] += 1
    return ("ok", model), ("ok", impl)


def same(c, m, i):
    if m[0] != i[0]:
        return False
    if m[0] == "err":
        return m[1] == i[1]
    a, b = m[1], i[1]
    if "scored" not in a:
        return all(k in b and a[k] == b[k] for k in a if k != "note") and "note" not in a
    return all(k in b and a[k] == b[k] for k in ("model_folds", "scored", "trained", "train", "scores", "property")) \
        and a.get("rescore") == b.get("rescore")


ENS_KEYS = ("model_folds", "scored", "trained", "train", "scores")


def same_ens(c, m, i):
    """ensemble=True: what the extracted model predicts (fold numbers of the returned models, every model scores every row,
    training sets, the exact averaged scores) — without the held-out property, which is FALSE in this mode (C04_ensemble_leak;
    the property oracle keeps reporting it)"""
    if m[0] != i[0]:
        return False
    if m[0] == "err":
        return m[1] == i[1]
    a, b = m[1], i[1]
    if "scored" not in a:
        return all(k in b and a[k] == b[k] for k in a if k != "note") and "note" not in a
    return all(k in b and a[k] == b[k] for k in ENS_KEYS)


def nontrivial(c):
    """recorded by compare(): brew returned, every fold model trained and scored rows, a spectrum with >= 2 PSMs exists and the
    training sets were compared"""
    return _NONTRIVIAL.get(_ckey(c), False)


def _oracle_ok(c, o, train_ids, spec):
    """the property on a run that returned: independent of the extracted model (the folds are the sets of rows the fold models
    scored; spectra are the key columns of the generated table)"""
    k = c["folds"]
    if o["model_folds"] != list(range(1, k + 1)):
        return f"models are not one per fold: {o['model_folds']}"
    scored = o["scored"]
    allrows = sorted(g for f in scored for g in f)
    exp = sorted(spec)
    if allrows != exp:
        return "rows are not scored by exactly one fold model each"
    owner = {g: f for f, rows in enumerate(scored) for g in rows}
    byspec = {}
    for g, s in spec.items():
        byspec.setdefault(s, set()).add(owner[g])
    for s, fs in byspec.items():
        if len(fs) > 1:
            return f"PSMs of spectrum {s} fall into different folds {sorted(fs)}"
    if train_ids is not None:
        for f in range(k):
            ids = train_ids[f] if f < len(train_ids) else []
            held = set(scored[f])
            if any(g in held for g in ids):
                return f"the model of fold {f + 1} was trained on PSMs it scores"
            if any(g not in spec for g in ids):
                return f"the model of fold {f + 1} was trained on rows that are in no input file"
            hs = {spec[g] for g in held}
            if any(spec[g] in hs for g in ids):
                return f"the model of fold {f + 1} was trained on a PSM of a spectrum it scores"
    if o.get("train") is not None and o["train"] != ["ok"] * k:
        return f"training sets are not (a sub-sample of) the other folds: {o['train']}"
    rs = o.get("rescore")
    if isinstance(rs, dict) and rs.get("scored") is not None and rs["scored"] != scored:
        return "the returned models, fed back in the returned order, score other rows than the ones of their folds"
    return None


def oracle(c, i):
    """the property on the implementation's observations, independent of the model"""
    if "degenerate-few-spectra" in c.get("tags", []):
        return None
    if i[0] != "ok":
        kind = str(i[1])
        if "; " in kind:                                            # brew raised, and a recorded training set is wrong
            return kind.split("; ", 1)[1]
        if kind in ("RuntimeError", "OneClassTrainingSet", "EmptyFold"):     # calibration: no accepted target in a fold (C11's explicit error);
            return None                                           # a one-class training sub-sample (see compare)
        if kind == _MODEL_ERR.get(_ckey(c)):
            # the extracted model stops with the same error on this input (fewer spectra than split points: IndexError; the
            # share of the cap of one file exceeds what that file has outside the fold: ValueError of rng.choice) — the run
            # agrees with the model and is not the failing input the search is after
            return None
        return f"brew failed on a valid dataset: {kind}"
    o = i[1]
    if o.get("property"):
        return o["property"]
    if "spectrum_columns" in o and "scored" not in o:
        return f"read_pin took {o['spectrum_columns']} as the spectrum columns"
    if "scored" not in o:
        return None
    msg = _oracle_ok(c, o, None, _spectra(c))
    if msg:
        return msg
    if isinstance(o.get("rescore"), str):
        return f"brew failed when given the models it had returned: {o['rescore']}"
    return None


def finding_key(c, m, i):
    # (predict:feature-column-named-fold is repaired in /repo, 43a3586: a feature column called 'fold' is an ordinary case)
    if i is not None and i[0] == "err" and i[1] == "IndexError" and all(_key_names(f) == ["ScanNr"] for f in c["files"]):
        return KEY_ONECOL
    return None


# ----------------------------------------------------------------------------- outside the case pipeline
def _big_train_sets(n, k, cap, seed, small_n=7):
    """make_train_sets beyond its block size of 5,000,000 rows (a local constant of the function): the training rows of every
    fold must be exactly the complement of the held-out fold — or, with a cap, a duplicate-free subset of it of the planned
    size.  Checked with numpy set operations (oracle only; the extracted model is quadratic).  small_n: rows of a second,
    small file (0 = none)."""
    import numpy as np
    import importlib
    mb = importlib.import_module("mokapot.brew")        # `import mokapot.brew as mb` would bind the function mokapot.brew
    if not hasattr(mb, "make_train_sets"):
        return None, "make_train_sets no longer exists: not exercised"
    rng = np.random.default_rng(seed)
    sizes = [n] + ([small_n] if small_n else [])
    test_idx = []
    for j, nj in enumerate(sizes):
        perm = np.random.default_rng(seed + j).permutation(nj)
        test_idx.append(np.split(perm, [(nj * i) // k for i in range(1, k)]))
    out = list(mb.make_train_sets(test_idx=test_idx, subset_max_train=cap, data_size=sizes, rng=rng))
    if len(out) != k:
        return f"{len(out)} training sets for {k} folds", None
    nfiles = len(sizes)
    quotas = None
    if cap is not None:
        quotas = [cap // nfiles] * nfiles
        quotas[-1] += cap - sum(quotas)
    for f in range(k):
        comps = [np.setdiff1d(np.arange(nj), test_idx[j][f]) for j, nj in enumerate(sizes)]
        total = sum(len(c) for c in comps)
        for j, nj in enumerate(sizes):
            got = np.asarray(out[f][j], dtype=np.int64)
            comp = comps[j]
            quota = None
            if quotas is not None and total > sum(quotas) and quotas[j] < total:
                quota = quotas[j]
            if len(np.unique(got)) != len(got):
                return f"fold {f} file {j}: a training row occurs twice", None
            if quota is None:
                if not np.array_equal(np.sort(got), comp):
                    extra = np.setdiff1d(got, comp)
                    missing = np.setdiff1d(comp, got)
                    return (f"fold {f} file {j} ({nj} rows): training rows are not the complement of the held-out fold "
                            f"({len(extra)} held-out rows are in the training set e.g. {extra[:3].tolist()}, {len(missing)} rows of the other folds are missing e.g. {missing[:3].tolist()})"), None
            else:
                if len(got) != quota or len(np.setdiff1d(got, comp)) > 0:
                    return f"fold {f} file {j}: capped training rows are not {quota} rows of the complement", None
    return None, None


def extra_checks(ctx):
    failures = []
    info = {"outcomes(model / implementation)": dict(_OUTCOMES), "exercised": dict(_SEEN)}
    configs = [(5_000_001, 2, None, 7)]
    if ctx.thorough:
        configs += [(5_000_000, 2, None, 7), (10_000_001, 3, 4_000_000, 0)]
    notes = []
    for n, k, cap, small_n in configs:
        msg, note = _big_train_sets(n, k, cap, ctx.seed % 1000, small_n)
        if note:
            notes.append(note)
        if msg:
            failures.append({"what": f"make_train_sets on a file of {n} rows ({k} folds, cap {cap}): {msg}",
                             "failing_input": {"fn": "make_train_sets", "data_size": [n] + ([small_n] if small_n else []), "folds": k, "subset_max_train": cap,
                                               "test_idx": "per file j: numpy default_rng(%d + j).permutation(size) cut into k equal parts" % (ctx.seed % 1000)}})
    info["make_train_sets beyond its block size"] = notes or ["%d configurations, all exact" % len(configs)]
    return failures, info
