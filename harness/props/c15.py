"""C15 — picked protein: correspondence of Model/Strip.v + Model/Picked.v with
mokapot.picked_protein.picked_protein / strip_peptides, utils.groupby_max and the protein level of
assign_confidence (targets.proteins / decoys.proteins)."""
import itertools
import json
import os
import re
import shutil
import tempfile
from fractions import Fraction
from pathlib import Path

from .. import lib
from ..lib import call_impl

PROP = "C15"
RULE = ("(1) strip_peptides vs the scanners: every string over {A,k,.,[,],(,),-} up to length 6 (quick) / 7 (thorough) "
        "as one column through the real strip_peptides, every string up to length 4 / 5 as a one-row column (both "
        "branches of the column-wide lower-case rule), and the three regular expressions one by one against `re`; "
        "random columns of annotated peptides as cases; (2) picked_protein on generated FASTA text parsed by the real "
        "read_fasta (2..7 target proteins drawing tryptic peptides from a small pool: subset, identical and "
        "shared-peptide structures; decoys mirrored / differently grouped / partly missing / absent = target-only "
        "FASTA), peptide tables over unique, shared and unknown peptides written with flanks 'K.' '-.', mods '[+16]' "
        "'(ox)' '[+79.97]', lower-case termini, all-lower-case columns; pairwise distinct scores (full comparison) and "
        "a tie stream (pair key -> score only); (3) sanity-error stream around the 10% / 5% thresholds, empty and "
        "all-shared tables; (4) the same tables through brew-less assign_confidence(proteins=...) reading "
        "targets.proteins / decoys.proteins (q-values). distinct = distinct case; non-trivial = some peptide is "
        "written with flanks / modifications / lower-case marks or is unknown to the database (strip cases: a bracket, "
        "parenthesis, '.' or an all-lower-case string occurs)")
ASSUMPTIONS = [
    "peptide strings are ASCII without newline (str.islower/upper modelled for A-Z/a-z; '.' of a regex = any character)",
    "scores reach the model as exact integers (dyadic floats scaled by a common power of two)",
    "tie stream: only pair key -> score is compared (which of several equally good rows wins is the sample oracle's choice; "
    "pandas' multi-column sort is not assumed stable)",
    "q comparison: |impl - exact| <= 2^-23 * exact (as C01)",
    "the Proteins container comes from the real read_fasta and is handed to the model as data (C16 covers read_fasta)",
]
TRUSTED_EXTRA = [
    "Python `re` (oracle for the three substitutions; compared exhaustively with the scanners on short strings)",
    "DataFrame.sample(frac=1) (oracle: recorded row order; contract: covers every retained row)",
    "peptides.match_decoy (oracle: recorded decoy->target peptide table; target-only FASTA)",
]

TOL = Fraction(1, 2 ** 23)
ALPHA = "Ak.[]()-"
AA = "ACDEFGHILMNPQSTVWY"
NAN = "<NaN>"
_CACHE = {}
_TMP = None


def _tmpdir():
    global _TMP
    if _TMP is None or not os.path.isdir(_TMP):
        base = "/root/scratch/C15" if os.path.isdir("/root/scratch") else None
        if base:
            os.makedirs(base, exist_ok=True)
        _TMP = tempfile.mkdtemp(prefix="c15_", dir=base)
        import atexit
        atexit.register(shutil.rmtree, _TMP, True)
    return _TMP


# ----------------------------------------------------------------------------- specification helpers
def spec_strip_one(s):
    """what the property text says, written without regular expressions: drop bracketed/parenthesised
    modifications, the flank before the first '.', everything from the next '.'"""
    out, i, n = [], 0, len(s)
    while i < n:
        if s[i] in "[(":
            j = i + 1
            while j < n and s[j] not in "])":
                j += 1
            if j < n:
                i = j + 1
                continue
        out.append(s[i])
        i += 1
    t = "".join(out)
    k = t.find(".")
    if k >= 0:
        t = t[k + 1:]
    k = t.find(".")
    if k >= 0:
        t = t[:k]
    return t


def spec_strip_col(col):
    cs = [spec_strip_one(s) for s in col]
    if all(any("a" <= c <= "z" for c in s) and not any("A" <= c <= "Z" for c in s) for s in cs):
        return [s.upper() for s in cs]
    return ["".join(c for c in s if not ("a" <= c <= "z")) for s in cs]


def exact_den(values):
    den = 1
    for v in values:
        den = max(den, Fraction(v).denominator)
    return den


# ----------------------------------------------------------------------------- generators
def decorate(rng, plain, style=None):
    """write a plain sequence the way search engines do"""
    style = style or rng.choice(["plain", "flank", "flank", "mods", "mods+flank", "mods+flank", "lowerterm", "left"])
    body = plain
    if "mods" in style or style == "lowerterm":
        out = []
        for ch in plain:
            out.append(ch)
            if rng.random() < 0.25:
                out.append(rng.choice(["[+16]", "(ox)", "[+79.97]", "[Acetyl (K)", "(+1.5)", "[a[b]"]))
        body = "".join(out)
        if rng.random() < 0.3:
            body = rng.choice(["[+42]", "(ac)"]) + body
    if style == "lowerterm":
        body = rng.choice(["n", "n", ""]) + body + rng.choice(["c", ""])
        if rng.random() < 0.5:
            k = rng.randrange(len(body) + 1)
            body = body[:k] + rng.choice(["m", "ox", "p"]) + body[k:]
    if "flank" in style:
        body = rng.choice(["K.", "R.", "-.", "M.", "k."]) + body + "." + rng.choice(["A", "-", "G", "K[+1]", "a.b", ""])
    elif style == "left":
        body = rng.choice(["K.", "-."]) + body
    return body


def rand_pep(rng, lo=3, hi=6):
    return "".join(rng.choice(AA) for _ in range(rng.randint(lo, hi))) + rng.choice("KR")


def mirror(pep, how, rng):
    body, last = pep[:-1], pep[-1]
    if how == "reverse":
        return body[::-1] + last
    b = list(body)
    rng.shuffle(b)
    return "".join(b) + last


def gen_fasta(rng, mode, wide=False, trios=0):
    """-> (fasta text, list of plain peptides of targets, of decoys); wide: many proteins, few overlaps;
    trios: number of (A, B, fragment) triples with fragment inside both A and B, A and B not nested (the fragment's
    group then has several candidate groups to join: the multi-match path of the grouping)"""
    npool = rng.randint(14, 24) if wide else rng.randint(3, 9)
    pool = []
    while len(pool) < npool:
        p = rand_pep(rng)
        if p not in pool:
            pool.append(p)
    nprot = rng.randint(6, 11) if wide else rng.randint(2, 7)
    names = ["sp|P%02d|X%d" % (k, k) if rng.random() < 0.3 else "P%d" % k for k in range(nprot)]
    prots = []
    for k in range(nprot):
        kind = rng.random()
        if wide:
            kind = 0.5 + kind / 2 if kind < 0.8 else kind - 0.8
        if prots and kind < 0.25:       # subset of an earlier one
            src = rng.choice(prots)
            peps = rng.sample(src, rng.randint(1, len(src)))
        elif prots and kind < 0.35:     # identical peptide set, different order
            peps = list(rng.choice(prots))
            rng.shuffle(peps)
        else:
            peps = rng.sample(pool, rng.randint(1, 2 if wide else min(4, npool)))
        prots.append(peps)
    for t in range(trios):
        fresh = []
        while len(fresh) < 4:
            q = rand_pep(rng)
            if q not in pool and q not in fresh:
                fresh.append(q)
        shared = fresh[:2]
        prots += [shared + [fresh[2]], shared + [fresh[3]], list(shared)]
        names += ["ISO%dA" % t, "ISO%dB" % t, "FRAG%d" % t]
    lines = []
    tpeps, dpeps = set(), set()
    for nm, peps in zip(names, prots):
        lines.append(">" + nm + " some description")
        lines.append("".join(peps))
        tpeps.update(peps)
    if mode != "target-only":
        how = "reverse" if mode in ("mirror", "partial") else "shuffle"
        memo = {}
        for nm, peps in zip(names, prots):
            if mode == "partial" and rng.random() < 0.4:
                continue
            if mode == "regroup":
                dp = [mirror(p, "shuffle", rng) for p in peps]     # per-protein shuffles: decoy structure differs
            else:
                dp = [memo.setdefault(p, mirror(p, how, rng)) for p in peps]
            lines.append(">decoy_" + nm)
            lines.append("".join(dp))
            dpeps.update(dp)
    return "\n".join(lines) + "\n", sorted(tpeps), sorted(dpeps)


def gen_rows(rng, tpeps, dpeps, mode, lower=False, ties=False, unknown=None, nmax=40):
    rows = []
    cand = [(p, True, 0) for p in tpeps] + [(p, False, 0) for p in dpeps]
    if mode == "target-only":
        for p in tpeps:
            r = rng.random()
            m = mirror(p, "reverse", rng)
            if r < 0.6:
                cand.append((m, False, 0))        # same composition: match_decoy finds a target
            elif r < 0.7:
                cand.append((p, False, 0))        # decoy row with a target sequence
            elif r < 0.8:
                cand.append((m, False, 1))        # a decoy row and a target row with the same decoy sequence:
                cand.append((m, True, 1))         # the target row is known only to the decoy map
    rng.shuffle(cand)
    for p, t, least in cand:
        for _ in range(max(least, rng.choice([0, 1, 1, 1, 2, 3]))):
            if len(rows) < nmax or least:
                rows.append([t if (least or rng.random() < 0.93) else (not t), p])
    if unknown is None:
        unknown = rng.choice([0, 0, 0, 1, 2]) if len(rows) >= 24 else (rng.choice([0, 0, 0, 1]) if len(rows) >= 12 else 0)
    for _ in range(unknown):
        # unknown sequences are mostly decoy hits (a foreign target trips the 5% check unless decoys abound)
        rows.append([rng.random() < 0.1, rand_pep(rng, 4, 7) + "W"])
    rng.shuffle(rows)
    n = len(rows)
    if ties:
        sc = [rng.randint(0, 3) / 2 for _ in range(n)]
    else:
        sc = [v / 8 for v in rng.sample(range(-400, 400), n)]
    out = []
    for (t, p), s in zip(rows, sc):
        if lower:
            txt = rng.choice(["", "k.", "-."]) + p.lower()
            if "." in txt and rng.random() < 0.5:
                txt += "." + rng.choice(["a", "-"])
        else:
            txt = decorate(rng, p)
        out.append([bool(t), txt, s, p])
    return out


FASTA_ARGS = {"missed_cleavages": 0, "min_length": 3, "max_length": 50, "decoy_prefix": "decoy_"}


def _picked_case(rng, mode, tags, fn="picked", wide=False, **kw):
    fasta, tp, dp = gen_fasta(rng, mode, wide)
    args = dict(FASTA_ARGS)
    if rng.random() < 0.2:
        args["missed_cleavages"] = 1
    c = {"fn": fn, "fasta": fasta, "fasta_args": args, "rows": [], "seed": rng.randrange(1 << 30),
         "ties": bool(kw.get("ties")), "tags": [fn, "fasta=" + mode, "mc=%d" % args["missed_cleavages"]] + list(tags)}
    # the peptides the real digest produced (unique and shared), split by the kind of protein owning them
    P = _proteins(c)
    if P is not None:
        allp = list(P.peptide_map.items()) + list(P.shared_peptides.items())
        tp = sorted(p for p, g in allp if not g.startswith(args["decoy_prefix"]))
        dp = sorted(p for p, g in allp if g.startswith(args["decoy_prefix"]))
    c["rows"] = gen_rows(rng, tp, dp, mode, **kw)
    return c


def gen(ctx):
    cases = []
    # ---- strip columns as cases (the exhaustive part runs in extra_checks)
    rng = ctx.sub("strip")
    for s in ["A.B.C", "nABCc", "BL[+mod]AH", "A.B[1.1].C", "abc", "A.LES[+79.]LIEK.A", "K.PEP(ox)TIDE.-", "-.n[+42]PEPK.A",
              "PE[P", "PE]P", "K.PE[a.b)K.R", "[.].A.B", "", ".", "a.b", "k.pepk.a"]:
        cases.append({"fn": "strip", "col": [s], "tags": ["strip", "strip-fixed"]})
    cases.append({"fn": "strip", "col": ["A.B.C", "nABCc", "BL[+mod]AH", "A.B[1.1].C"], "tags": ["strip", "strip-fixed"]})
    cases.append({"fn": "strip", "col": [], "tags": ["strip", "strip-fixed"]})
    for k in range(600 if ctx.thorough else 150):
        n = rng.randint(1, 6)
        kind = rng.choice(["annotated", "annotated", "lowercol", "noise", "mixed"])
        col = []
        for _ in range(n):
            p = rand_pep(rng, 2, 5)
            if kind == "annotated":
                col.append(decorate(rng, p))
            elif kind == "lowercol":
                col.append(rng.choice(["", "k.", "-.", "[+1]"]) + p.lower() + rng.choice(["", ".a", "(ox)", "-"]))
            elif kind == "noise":
                col.append("".join(rng.choice(ALPHA + "Bz") for _ in range(rng.randint(0, 9))))
            else:
                col.append(rng.choice([decorate(rng, p), p.lower(), "n" + p, ""]))
        cases.append({"fn": "strip", "col": col, "tags": ["strip", "strip-" + kind]})
    # ---- picked_protein
    rng = ctx.sub("picked")
    npk = 700 if ctx.thorough else 160
    modes = ["mirror", "mirror", "mirror", "regroup", "partial", "target-only", "target-only"]
    for k in range(npk):
        mode = modes[k % len(modes)]
        r = rng.random()
        if r < 0.7:
            cases.append(_picked_case(rng, mode, ["distinct-scores"], wide=(k % 4 == 3)))
        elif r < 0.85:
            cases.append(_picked_case(rng, mode, ["tie-stream"], ties=True))
        else:
            cases.append(_picked_case(rng, mode, ["lower-case-column", "distinct-scores"], lower=True))
    # row labels of the peptide table: every third case carries labels other than 0..n-1
    for j, c in enumerate([c for c in cases if c["fn"] == "picked"]):
        if j % 3 == 1:
            c["index"] = ["perm", "offset", "reversed", "str"][(j // 3) % 4]
            c["tags"] = c["tags"] + ["index-" + c["index"]]
    # ---- sanity errors / degenerate tables
    rng = ctx.sub("errors")
    for k in range(240 if ctx.thorough else 70):
        mode = modes[k % len(modes)]
        kind = rng.choice(["unknown-many", "unknown-boundary", "empty", "all-shared-or-unknown", "no-decoy-rows"])
        c = _picked_case(rng, mode, ["sanity", kind], unknown=0)
        rows = c["rows"]
        if kind == "empty":
            rows = []
        elif kind == "unknown-many":
            for _ in range(rng.randint(1, 6)):
                rows.append([rng.random() < 0.5, rand_pep(rng, 4, 7) + "W", rng.randint(-50, 50) / 4 + 1000, "?"])
        elif kind == "unknown-boundary":
            # exactly at / just around the thresholds: k unknown of n rows (10%), k unknown targets over nd decoy rows (5%)
            base = [r for r in rows if r[3] != "?"]
            rep = lambda src, j: [src[j % len(src)][0], src[j % len(src)][3] + "[+%d]" % j, 2000.0 + j, src[j % len(src)][3]]
            dec = [r for r in base if not r[0]]
            if base and (rng.random() < 0.6 or not dec):
                n, k = rng.choice([(10, 1), (9, 1), (11, 1), (20, 2), (19, 2), (21, 2), (30, 3), (29, 3)])
                rows = [rep(base, j) for j in range(n - k)]
                flag = mode == "target-only"       # unknown decoys are not counted with a target-only FASTA
                rows += [[flag, "QQQQQ%sW" % "ACDEF"[j], 999.5 - j, "?"] for j in range(k)]
            elif dec:
                nd, k = rng.choice([(19, 1), (20, 1), (21, 1), (40, 2), (39, 2), (41, 2)])
                tg = [r for r in base if r[0]]
                rows = [rep(dec, j) for j in range(nd)] + [rep(tg, j) for j in range(3 if tg else 0)]
                rows += [[True, "QQQQQ%sW" % "ACDEF"[j], 999.5 - j, "?"] for j in range(k)]
        elif kind == "all-shared-or-unknown":
            rows = [r for r in rows if r[3] == "?"]     # filled below from shared peptides
            c["_want_shared"] = True
        elif kind == "no-decoy-rows":
            rows = [r for r in rows if r[0]]
            if rng.random() < 0.5:
                rows.append([True, "QQQQQQW", 999.5, "?"])
        c["rows"] = rows
        cases.append(c)
    for c in cases:
        if c.pop("_want_shared", False):
            P = _proteins(c)
            sh = sorted(P.shared_peptides.keys()) if P is not None else []
            c["rows"] = [[j % 2 == 0, "K." + p + ".A", float(j), p] for j, p in enumerate(sh[:6])]
    # scores must stay pairwise distinct in the distinct stream
    for c in cases:
        if c["fn"] == "picked" and not c["ties"]:
            seen = set()
            for r in c["rows"]:
                while r[2] in seen:
                    r[2] += 0.125
                seen.add(r[2])
    # ---- through assign_confidence
    rng = ctx.sub("confidence")
    for k in range(80 if ctx.thorough else 20):
        mode = ["mirror", "mirror", "regroup", "partial", "target-only"][k % 5]
        c = _picked_case(rng, mode, ["distinct-scores"], fn="confidence", wide=(k % 3 != 2), unknown=0, nmax=40)
        # one row per peptide string (the peptide level is a roll-up by peptide string)
        seen, rows = set(), []
        for r in c["rows"]:
            if r[1] not in seen and r[1] != "":
                seen.add(r[1])
                rows.append(r)
        # targets mostly above decoys so that q-values below 1 occur; scores stay pairwise distinct
        used = set()
        for r in rows:
            if r[0] and rng.random() < 0.85:
                r[2] += 100.0
            while r[2] in used:
                r[2] += 0.125
            used.add(r[2])
        # the peptide-level file is written best score first: row labels = ranks
        c["rows"] = sorted(rows, key=lambda r: -r[2])
        cases.append(c)
    return cases


# ----------------------------------------------------------------------------- running the real code
def _key(c):
    return json.dumps({k: v for k, v in c.items() if k != "tags"}, sort_keys=True)


def _proteins(c):
    """real read_fasta on the case's FASTA text"""
    from mokapot.parsers.fasta import read_fasta
    k = ("fasta", c["fasta"], json.dumps(c["fasta_args"], sort_keys=True))
    if k not in _CACHE:
        d = _tmpdir()
        path = os.path.join(d, "db_%d.fasta" % len(_CACHE))
        with open(path, "w") as f:
            f.write(c["fasta"])
        try:
            _CACHE[k] = read_fasta(path, **c["fasta_args"])
        except Exception as e:   # e.g. only decoys
            _CACHE[k] = None
        os.unlink(path)
    return _CACHE[k]


class _Record:
    """records the two oracles while the real code runs"""

    def __init__(self, pos=None):
        self.order = None
        self.dm = None
        self.pos = pos          # row label -> row position, when the table does not carry the default 0..n-1 index

    def __enter__(self):
        import pandas as pd
        import mokapot.picked_protein as pp
        self.pd, self.pp = pd, pp
        self.orig_sample = pd.DataFrame.sample
        self.orig_match = pp.match_decoy
        rec = self

        def sample(df, *a, **k):
            out = rec.orig_sample(df, *a, **k)
            if "decoy" in df.columns and k.get("frac", a[1] if len(a) > 1 else None) == 1:
                rec.order = [int(v) if rec.pos is None else rec.pos[v] for v in out.index]
            return out

        def match(*a, **k):
            out = rec.orig_match(*a, **k)
            rec.dm = [[str(d), str(t)] for d, t in out.items()]
            return out

        pd.DataFrame.sample = sample
        pp.match_decoy = match
        return self

    def __exit__(self, *exc):
        self.pd.DataFrame.sample = self.orig_sample
        self.pp.match_decoy = self.orig_match
        return False


def _canon_group(g):
    if g is None or (isinstance(g, float) and g != g):
        return NAN
    try:
        import pandas as pd
        if pd.isna(g):
            return NAN
    except Exception:
        pass
    return str(g)


def _index_labels(kind, n, seed):
    """unique row labels for the peptide table handed to picked_protein (None: the default RangeIndex)"""
    if not kind or kind == "range":
        return None
    import random
    r = random.Random(seed)
    if kind == "perm":
        lab = list(range(n))
        r.shuffle(lab)
        return lab
    if kind == "offset":
        return [1000 + 3 * j for j in range(n)]
    if kind == "reversed":
        return list(range(n - 1, -1, -1))
    if kind == "str":
        lab = ["r%03d" % j for j in range(n)]
        r.shuffle(lab)
        return lab
    raise ValueError(kind)


def _run_picked(c):
    """-> dict(proteins=..., dm=..., order=..., result=('ok', entries) | ('err', kind))"""
    k = _key(c)
    if k in _CACHE:
        return _CACHE[k]
    import numpy as np
    import pandas as pd
    from mokapot.picked_protein import picked_protein
    P = _proteins(c)
    rows = c["rows"]
    den = exact_den([r[2] for r in rows])
    df = pd.DataFrame({"tgt": np.array([bool(r[0]) for r in rows], dtype=bool),
                       "pepcol": pd.Series([r[1] for r in rows], dtype=object if not rows else None),
                       "sc": np.array([float(r[2]) for r in rows], dtype=float)})
    # the caller's row labels: a peptide table that was sorted or filtered without reset_index keeps its old labels
    labels = _index_labels(c.get("index"), len(rows), c["seed"])
    pos = None
    if labels is not None:
        df.index = pd.Index(labels)
        pos = {v: j for j, v in enumerate(labels)}
    np.random.seed(c["seed"] % (1 << 31))
    with _Record(pos) as rec:
        def go():
            out = picked_protein(df, "tgt", "pepcol", "sc", P, np.random.default_rng(c["seed"]))
            ent = []
            for g, bp, ss, s, t in zip(out["mokapot protein group"], out["best peptide"], out["stripped sequence"],
                                       out["sc"], out["tgt"]):
                ent.append([_canon_group(g), str(bp), str(ss), int(Fraction(float(s)) * den), bool(t)])
            return sorted(ent)
        res = call_impl(go)
    out = {"P": P, "dm": rec.dm or [], "order": rec.order or [], "result": res, "den": den}
    _CACHE[k] = out
    return out


def _run_confidence(c):
    """peptide table -> OnDiskPsmDataset -> assign_confidence(proteins=...) -> targets/decoys.proteins"""
    k = _key(c)
    if k in _CACHE:
        return _CACHE[k]
    import numpy as np
    import pandas as pd
    from mokapot import OnDiskPsmDataset, assign_confidence
    P = _proteins(c)
    rows = c["rows"]
    den = exact_den([r[2] for r in rows])
    n = len(rows)
    d = Path(tempfile.mkdtemp(prefix="conf_", dir=_tmpdir()))
    df = pd.DataFrame({"SpecId": ["id%d" % j for j in range(n)], "Label": [1 if r[0] else -1 for r in rows],
                       "ScanNr": list(range(1, n + 1)), "ExpMass": [100.0 + j for j in range(n)],
                       "Peptide": [r[1] for r in rows], "Proteins": ["x"] * n,
                       "feat": [float(r[2]) for r in rows]})
    pin = d / "in.pin"
    df.to_csv(pin, sep="\t", index=False)
    np.random.seed(c["seed"] % (1 << 31))
    import mokapot.confidence as mconf
    orig_peps = mconf.peps_from_scores
    # PEPs are outside C15 and the spline fit refuses tables this small: constant stub
    mconf.peps_from_scores = lambda scores, targets, *a, **k: np.full(len(scores), 0.5)
    with _Record() as rec:
        def go():
            ds = OnDiskPsmDataset(pin, columns=list(df.columns), target_column="Label", spectrum_columns=["ScanNr", "ExpMass"],
                                  peptide_column="Peptide", protein_column="Proteins", feature_columns=["feat"],
                                  metadata_columns=["SpecId", "Label", "ScanNr", "ExpMass", "Peptide", "Proteins"],
                                  metadata_column_types=["string", "int", "int", "float", "string", "string"],
                                  level_columns=["Peptide"], filename_column=None, scan_column=None,
                                  specId_column="SpecId", calcmass_column=None, expmass_column=None, rt_column=None,
                                  charge_column=None, spectra_dataframe=df[["ScanNr", "ExpMass", "Label"]])
            sc = np.array([float(r[2]) for r in rows])
            assign_confidence([ds], scores=[sc], descs=[True], dest_dir=d, prefixes=[None], decoys=True,
                              proteins=P, rng=np.random.default_rng(c["seed"]), peps_error=False,
                              max_workers=1)
            ent = []
            for nm, tflag in (("targets.proteins", True), ("decoys.proteins", False)):
                t = pd.read_csv(d / nm, sep="\t", keep_default_na=False)
                for _, r in t.iterrows():
                    ent.append([[str(r["mokapot protein group"]) or NAN, str(r["best peptide"]), str(r["stripped sequence"]),
                                 int(Fraction(float(r["score"])) * den), tflag], Fraction(float(r["q-value"]))])
            return sorted(ent, key=lambda e: e[0])
        res = call_impl(go)
    mconf.peps_from_scores = orig_peps
    shutil.rmtree(d, ignore_errors=True)
    out = {"P": P, "dm": rec.dm or [], "order": rec.order or [], "result": res, "den": den}
    _CACHE[k] = out
    return out


def _run(c):
    return _run_confidence(c) if c["fn"] == "confidence" else _run_picked(c)


# ----------------------------------------------------------------------------- model side
def _enc_proteins(P):
    pm = list(P.peptide_map.items())
    sh = list(P.shared_peptides.keys())
    prm = list(P.protein_map.items())
    ps = lib.pair(lib.s, lib.s)
    return " ".join([lib.lst(pm, ps), lib.lst(sh, lib.s), lib.lst(prm, ps), lib.b(P.has_decoys), lib.s(P.decoy_prefix)])


def encode(c):
    if c["fn"] == "strip":
        return "c15.strip_all " + lib.lst(c["col"], lib.s)
    r = _run(c)
    P = r["P"]
    den = r["den"]
    rows = c["rows"]
    row = lambda x: " ".join([lib.b(x[0]), lib.s(x[1]), lib.z(int(Fraction(x[2]) * den))])
    entry = "c15.picked_q " if c["fn"] == "confidence" else "c15.picked "
    return entry + " ".join([_enc_proteins(P), lib.lst(r["dm"], lib.pair(lib.s, lib.s)), lib.lst(r["order"]),
                             lib.lst(rows, row)])


def _dec_entry(t):
    return [t.s(), t.s(), t.s(), t.z(), t.b()]


def decode(c, t):
    if c["fn"] == "strip":
        return t.lst(t.s)
    if c["fn"] == "confidence":
        r = t.result(lambda: t.lst(lambda: [_dec_entry(t), t.q()]))
        return ("ok", sorted(r[1], key=lambda e: e[0])) if r[0] == "ok" else r
    r = t.result(lambda: t.lst(lambda: _dec_entry(t)))
    return ("ok", sorted(r[1])) if r[0] == "ok" else r


# ----------------------------------------------------------------------------- implementation side
def _impl_strip(col):
    import pandas as pd
    from mokapot.picked_protein import strip_peptides
    return [str(v) for v in strip_peptides(pd.Series(col, dtype=object))]


def impl(c):
    if c["fn"] == "strip":
        if not c["col"]:
            return _impl_strip_empty()
        r = call_impl(_impl_strip, c["col"])
        return r[1] if r[0] == "ok" else r
    return _run(c)["result"]


def _impl_strip_empty():
    r = call_impl(_impl_strip, [])
    return r[1] if r[0] == "ok" else r


def pair_key(P, group):
    first = group.split(",")[0]
    return P.protein_map.get(first, first)


def _close(a, b):
    return abs(a - b) <= TOL * abs(b)


def same(c, m, i):
    if c["fn"] == "strip":
        return list(m) == list(i)
    if m[0] != i[0]:
        return False
    if m[0] != "ok":
        return m[1] == i[1]
    if c["fn"] == "confidence":
        if [e[0] for e in m[1]] != [e[0] for e in i[1]]:
            return False
        return all(_close(b[1], a[1]) for a, b in zip(m[1], i[1]))
    if c.get("ties"):
        P = _run(c)["P"]
        km = sorted((pair_key(P, e[0]), e[3]) for e in m[1])
        ki = sorted((pair_key(P, e[0]), e[3]) for e in i[1])
        return km == ki
    return [list(e) for e in m[1]] == [list(e) for e in i[1]]


def nontrivial(c):
    if c["fn"] == "strip":
        return any(ch in s for s in c["col"] for ch in "[(.") or any(s.lower() == s and s for s in c["col"])
    if any(r[1] != r[3] for r in c["rows"]):
        return True
    return any(r[3] == "?" for r in c["rows"])


# ----------------------------------------------------------------------------- the property on the implementation's output
def _group_of(P, dm, s):
    g = P.peptide_map.get(s)
    if g is None and not P.has_decoys:
        t = dict((a, b) for a, b in dm).get(s)
        if t is not None:
            tg = P.peptide_map.get(t)
            if tg is not None:
                g = ", ".join(P.decoy_prefix + p for p in tg.split(", "))
    return g


def oracle(c, i):
    if c["fn"] == "strip":
        exp = spec_strip_col(c["col"])
        if list(i) != exp:
            j = [a != b for a, b in zip(i, exp)].index(True) if len(i) == len(exp) else -1
            return (f"strip_peptides({c['col']!r}) = {list(i)!r}; modifications / flanks removed by definition gives {exp!r}"
                    + (f" (row {j})" if j >= 0 else ""))
        return None
    r = _run(c)
    P, dm = r["P"], r["dm"]
    if P is None or i[0] != "ok":
        if i[0] == "err":
            # a table whose every row maps to a protein group must be accepted
            st = spec_strip_col([x[1] for x in c["rows"]])
            if c["rows"] and P is not None and all(_group_of(P, dm, s) is not None for s in st):
                return f"every peptide maps to a protein group but the call failed with {i[1]}"
        return None
    den = r["den"]
    rows = c["rows"]
    st = spec_strip_col([x[1] for x in rows])
    mapped = []     # (key, group, row index)
    for j, s in enumerate(st):
        g = _group_of(P, dm, s)
        if g is not None:
            mapped.append((pair_key(P, g), g, j))
    best = {}
    for k, g, j in mapped:
        sc = int(Fraction(rows[j][2]) * den)
        best[k] = max(best.get(k, sc), sc)
    ents = [e[0] for e in i[1]] if c["fn"] == "confidence" else i[1]
    seen = {}
    for e in ents:
        g, bp, ss, sc, tg = e
        if g == NAN:
            return f"entry without a protein group: {e!r} (its peptide {ss!r} is not a unique peptide of any group)"
        k = pair_key(P, g)
        if k in seen:
            return f"two entries for the protein pair {k!r}: {seen[k]!r} and {e!r}"
        seen[k] = e
        if ss in P.shared_peptides and _group_of(P, dm, ss) is None:
            return f"entry {e!r} is represented by the shared peptide {ss!r}"
        if k not in best:
            return f"entry {e!r}: no retained peptide maps to the pair {k!r}"
        cands = [j for kk, gg, j in mapped if kk == k and gg == g and rows[j][1] == bp and st[j] == ss
                 and int(Fraction(rows[j][2]) * den) == sc and bool(rows[j][0]) == tg]
        if not cands:
            return f"entry {e!r} is not a row of the table mapped to its group (peptide, stripped sequence, score, flag)"
        if sc != best[k]:
            return f"entry {e!r} has score {sc}/{den} but the best peptide of pair {k!r} scores {best[k]}/{den}"
    for k in best:
        if k not in seen:
            return f"protein pair {k!r} has a retained unique peptide but no entry"
    if c["fn"] == "confidence":
        from .c01 import q_spec
        scs = [e[0][3] for e in i[1]]
        tgs = [e[0][4] for e in i[1]]
        spec = q_spec(scs, tgs, True)
        for e, q in zip(i[1], spec):
            if not _close(e[1], q):
                return f"protein q-value of {e[0][0]!r} is {float(e[1])!r}; the C01 formula over the entries gives {q}"
    return None


def shrink(c):
    if c["fn"] == "strip":
        col = c["col"]
        for j in range(len(col)):
            if len(col) > 1:
                yield dict(c, col=col[:j] + col[j + 1:])
        for j, s in enumerate(col):
            for k in range(len(s)):
                yield dict(c, col=col[:j] + [s[:k] + s[k + 1:]] + col[j + 1:])
        return
    rows = c["rows"]
    for j in range(len(rows)):
        yield dict(c, rows=rows[:j] + rows[j + 1:])
    for j, r in enumerate(rows):
        if r[1] != r[3] and r[3] != "?":
            yield dict(c, rows=rows[:j] + [[r[0], r[3], r[2], r[3]]] + rows[j + 1:])


# ----------------------------------------------------------------------------- exhaustive regex comparison
def _all_strings(alpha, maxlen):
    for n in range(maxlen + 1):
        for tup in itertools.product(alpha, repeat=n):
            yield "".join(tup)


def extra_checks(ctx):
    fails, info = [], {}
    L = 7 if ctx.thorough else 6
    S = 5 if ctx.thorough else 4
    strs = list(_all_strings(ALPHA, L))
    # (a) the three substitutions one by one against `re` (same expressions as the source)
    subs = [("unmod", re.compile(r"[\[\(].*?[\]\)]")), ("unprefix", re.compile(r"^.*?\.")),
            ("before_dot", re.compile(r"\..*?$"))]
    nre = 0
    for name, rx in subs:
        outs = lib.run_driver(["c15.%s %s" % (name, lib.s(s)) for s in strs])
        for s, o in zip(strs, outs):
            got = lib.Toks(o).s()
            nre += 1
            if got != rx.sub("", s):
                fails.append({"what": f"scanner st_{name} differs from re.sub({rx.pattern!r}) on {s!r}: {got!r} vs {rx.sub('', s)!r}",
                              "failing_input": None})
                break
    # (b) the whole set as one column through the real strip_peptides (else-branch of the lower-case rule)
    got = _impl_strip(strs)
    mod = lib.Toks(lib.run_driver(["c15.strip_all " + lib.lst(strs, lib.s)])[0]).lst(lambda: None) if False else None
    t = lib.Toks(lib.run_driver(["c15.strip_all " + lib.lst(strs, lib.s)])[0])
    mod = t.lst(t.s)
    bad = [s for s, a, b in zip(strs, got, mod) if a != b]
    if bad or len(got) != len(mod):
        s = min(bad, key=len) if bad else ""
        fails.append({"what": f"strip_peptides and the model differ on {len(bad)} of {len(strs)} strings (as one column), e.g. {s!r}",
                      "failing_input": {"fn": "strip", "col": [s, "A"], "tags": ["strip", "from-exhaustive"]}})
    # (c) one-row columns (both branches)
    small = list(_all_strings(ALPHA, S))
    outs = lib.run_driver(["c15.strip_all " + lib.lst([s], lib.s) for s in small])
    nsingle = 0
    for s, o in zip(small, outs):
        t = lib.Toks(o)
        m = t.lst(t.s)
        g = _impl_strip([s])
        nsingle += 1
        if m != g:
            fails.append({"what": f"strip_peptides([{s!r}]) = {g!r} but the model gives {m!r}",
                          "failing_input": {"fn": "strip", "col": [s], "tags": ["strip", "from-exhaustive"]}})
            break
    info["exhaustive_strip_sweep"] = {"alphabet": ALPHA, "regex_vs_scanner_strings": len(strs), "regex_comparisons": nre,
                          "column_len": len(strs), "single_row_columns": nsingle}
    # (d) oracle contracts on the recorded values: DataFrame.sample(frac=1) draws every retained row exactly once
    nord = ndup = nmiss = 0
    for k, v in list(_CACHE.items()):
        if not isinstance(k, str) or not isinstance(v, dict) or "order" not in v or v["result"][0] != "ok":
            continue
        c = json.loads(k)
        nord += 1
        if len(set(v["order"])) != len(v["order"]):
            ndup += 1
        st = spec_strip_col([x[1] for x in c["rows"]])
        need = {j for j, sq in enumerate(st) if _group_of(v["P"], v["dm"], sq) is not None}
        if not need <= set(v["order"]):
            nmiss += 1
    info["oracle_contract_checks"] = {"sample_orders_checked": nord, "with_duplicates": ndup, "missing_retained_rows": nmiss}
    if ndup or nmiss:
        fails.append({"what": f"DataFrame.sample contract broken: {ndup} orders with duplicated labels, {nmiss} not covering "
                              f"the retained rows", "failing_input": None})
    return fails, info
