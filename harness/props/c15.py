"""C15 — picked protein: correspondence of Model/Strip.v + Model/Picked.v + Model/MatchDecoy.v with
mokapot.picked_protein.picked_protein / strip_peptides, utils.groupby_max, peptides.match_decoy and the protein level
of assign_confidence (targets.proteins / decoys.proteins)."""
import copy
import itertools
import json
import os
import re
import shutil
import tempfile
import zlib
from fractions import Fraction
from pathlib import Path

from .. import lib
from ..lib import call_impl

PROP = "C15"
RULE = ("(1) strip_peptides vs the scanners: every string over {A,k,.,[,],(,),-} up to length 6 (quick) / 7 (thorough) "
        "as one column through the real strip_peptides, every string up to length 4 / 5 as a one-row column (both "
        "branches of the column-wide lower-case rule), and the three regular expressions one by one against `re`; "
        "random columns of annotated peptides as cases, a second stream of them as str / string[python] / "
        "string[pyarrow] / categorical Series with permuted, string, offset, negative or repeated row labels and with "
        "digits / blanks / other symbols outside brackets (the answer must keep the labels and leave the argument alone); "
        "(2) picked_protein on generated FASTA text parsed by the real "
        "read_fasta (2..7 target proteins drawing tryptic peptides from a small pool: subset, identical and "
        "shared-peptide structures; decoys mirrored / differently grouped / partly missing / absent = target-only "
        "FASTA), peptide tables over unique, shared and unknown peptides written with flanks 'K.' '-.', mods '[+16]' "
        "'(ox)' '[+79.97]', lower-case termini, all-lower-case columns; pairwise distinct scores (full comparison) and "
        "a tie stream (pair key -> score, and every entry must be a best row of its pair); (3) sanity-error stream "
        "around the 10% / 5% thresholds, empty and "
        "all-shared tables; (2p)/(3p) the same kinds of tables in drawn PRESENTATIONS, each facet non-default with "
        "probability 0.2..0.45: column names (plain, blanks, non-ASCII, names of internal columns for the peptide "
        "column), 1..3 extra columns named like internal / result columns, permuted column order, score dtype and "
        "magnitude (float64 with steps of 2^-20 on 1024, times 2^40, times 2^-60, minus 5000, 2^52 + 2k; float32; "
        "int64 around 0, 2^60, -2^62; int32 - always exact, the model sees integers over a common denominator), "
        "peptide column as object / str / string[python] / string[pyarrow] / categorical, target column as numpy bool / "
        "nullable boolean, row labels (permuted, offset, reversed, strings, negative, floats, sparse, (file,row) "
        "MultiIndex, repeated as left by pd.concat without ignore_index), rng as Generator / int / numpy integer / RandomState, an earlier "
        "picked_protein call on another table with the same Proteins object, decoy prefixes rev_ DECOY_ XXX_ decoy- d. "
        "## r decoy_decoy_; after every call the peptide table and the Proteins object must be unchanged; "
        "3 (quick) / 10 (thorough) tables with 40..90 proteins and several hundred rows; colliding target / score "
        "column names and protein identifiers with a comma (known findings); (4) the same tables through brew-less "
        "assign_confidence(proteins=...) reading targets.proteins / decoys.proteins (q-values), and (4p) in drawn "
        "presentations of the run: tab-delimited / Parquet PSM file, hand-built "
        "OnDiskPsmDataset / read_pin, descs=[False] (model on negated scores), CONFIDENCE_CHUNK_SIZE in {1,2,3,5,7,n/2,"
        "n-1,n,n+1}, a second collection with its own prefix before or after the observed one, old result files / "
        "junk / an old level file in the destination directory, decoys=False, rng int / numpy integer, max_workers=3, "
        "shuffled file order, fine / large / tiny score scales, other decoy prefixes; (4L) the runs of (4p) on input with "
        "one, two or three extra rollup-level columns (ModifiedPeptide / Precursor / PeptideGroup as read_pin recognises "
        "them: every non-empty subset; quick: five rotations of the kind list per subset, thorough: every assignment of "
        "kinds; random ones on top), each column equal to the peptide column (same or renamed strings), finer (peptide + "
        "charge, the PSMs of one peptide carry different charges), coarser (1..n/2 groups joining peptides of different "
        "proteins, of targets and decoys), the plain sequence, or unrelated (drawn per PSM); 0, n/2, n or 2n further, worse "
        "PSMs of peptides of the table on spectra of their own or (30%) on the spectrum of a better PSM, scattered "
        "over the file; the level columns of a hand-built dataset in any order after the peptide column; Parquet for every "
        "third case; deduplication=False (35%); file_root (20%); the second collection carries the same level columns - "
        "the protein entries must be those of the PEPTIDE level (the rows of the case), whatever other levels exist. "
        "(5) peptides.match_decoy: (5a) every match_decoy call the real code makes during a case of (2)..(4L) (target-only FASTA) is "
        "compared with md_match on the arguments as passed and the recorded shuffle - a sub-comparison of the case; (5b) direct "
        "stream fn=match_decoy: 14 fixed cases (empty decoys / targets, repeated decoys, lower-case and modified strings whose "
        "decoy key and target key differ, ignore_mods=False), every set of <= 3 targets out of {AB,BA,AAB,ABA,BAA,C} against every "
        "decoy list of length <= 2 (thorough: <= 3, three seeds) over {AB,BA,ABA,CC}, random cases over residue alphabets of "
        "2..4 residues (plain upper-case; residues with modifications 'M[+16]' 'K(ac)' 'Cox'; lower-case letters and symbols "
        "in front of the first residue) with anagram groups of 1..4 targets and 0, 1, n-1, n, n+1, n+2 decoys per composition, "
        "decoys of a composition no target has, repeated decoys (20%) and targets (10%), ignore_mods=False (25%), Series "
        "dtypes object / str / string[python] / string[pyarrow] / built from dict keys, row labels permuted / offset / strings / "
        "repeated / negative, rng Generator / int / numpy integer / RandomState / None (global state seeded), 3 (12) lists of "
        "40..200 targets; EVERY case is run again with the same seed on the same targets in other orders (exhaustive scope: "
        "every order, quick tier three of the five other orders of three targets; else reversed and two random ones) and all answers must be identical; the arguments must keep their "
        "values and labels; "
        "distinct = distinct case; "
        "non-trivial = some peptide is "
        "written with flanks / modifications / lower-case marks or is unknown to the database (strip cases: a bracket, "
        "parenthesis, '.' or an all-lower-case string occurs; match_decoy cases: some decoy meets no or several targets of its "
        "composition). A case passes if model and real code agree AND the "
        "property oracle accepts the real answer")
ASSUMPTIONS = [
    "peptide strings are ASCII without newline (str.islower/upper modelled for A-Z/a-z; '.' of a regex = any character)",
    "scores reach the model as exact integers (dyadic numbers scaled by a common power of two); NaN / infinite scores are not generated",
    "tie stream: only pair key -> score is compared with the model (which of several equally good rows wins is the sample oracle's choice; "
    "pandas' multi-column sort is not assumed stable); that the winner is one of the best rows of its pair is checked by the oracle",
    "q comparison: |impl - exact| <= 2^-23 * exact (as C01)",
    "the Proteins container comes from the real read_fasta and is handed to the model as data (C16 covers read_fasta)",
    "the target column is boolean (numpy bool or pandas' nullable boolean): integer or object flags make `~flag` mean something else and are refused inputs",
    "through assign_confidence a reported score within 2^-40 (relative) of a score of the table counts as that score: scores travel through "
    "delimited text and pandas' default float parser is not round-trip exact",
    "match_decoy: ASCII peptide strings without NaN; a composition is the multiset of characters (targets, ignore_mods=True) or of "
    "residues = an upper-case letter with what follows it up to the next one (decoys always; targets with ignore_mods=False), as the code has it",
    "the pair of a group in the oracle = target->decoy map applied to the group's first identifier as the database spells it "
    "(equal to the code's split(',')[0] unless an identifier contains a comma)",
]
TRUSTED_EXTRA = [
    "Python `re` (oracle for the three substitutions; compared exhaustively with the scanners on short strings)",
    "DataFrame.sample(frac=1) (oracle: recorded row order = positions in the peptide table, which picked_protein relabels 0..n-1 whatever the caller's row labels are; contract: covers every retained row, no position twice)",
    "Series.sample(frac=1) inside peptides.match_decoy (oracle: the recorded positions, in the sorted target list, in the order they "
    "were drawn; contract: a permutation of 0..n-1, checked on every recorded shuffle; md_match refuses anything else). match_decoy itself "
    "is no oracle any more: every call the real code makes during a case is compared with md_match (Model/MatchDecoy.v) on the same "
    "arguments and the recorded shuffle; its recorded answer still feeds pk_picked, which is the same table once that comparison agrees",
    "mokapot.read_pin / OnDiskPsmDataset and the PSM / peptide levels of assign_confidence (C10, C03): the confidence streams feed "
    "one PSM per peptide string and spectrum; the extra-level stream adds PSMs that score below the row of their peptide and below "
    "the PSM whose spectrum they share, so that the peptide level (best PSM per peptide string among the PSMs that keep their "
    "spectrum) is the table of the case by construction - that roll-up itself is C03's",
]

TOL = Fraction(1, 2 ** 23)
ALPHA = "Ak.[]()-"
AA = "ACDEFGHILMNPQSTVWY"
NAN = "<NaN>"
_CACHE = {}
_TMP = None


def _tmpdir():
    global _TMP
    if _TMP is None or not os.path.isdir(_TMP):
        base = "/root/scratch/C15" if os.path.isdir("/root/scratch") else None
        if base:
            os.makedirs(base, exist_ok=True)
        _TMP = tempfile.mkdtemp(prefix="c15_", dir=base)
        import atexit
        atexit.register(shutil.rmtree, _TMP, True)
    return _TMP


# ----------------------------------------------------------------------------- specification helpers
def spec_strip_one(s):
    """what the property text says, written without regular expressions: drop bracketed/parenthesised
    modifications, the flank before the first '.', everything from the next '.'"""
    out, i, n = [], 0, len(s)
    while i < n:
        if s[i] in "[(":
            j = i + 1
            while j < n and s[j] not in "])":
                j += 1
            if j < n:
                i = j + 1
                continue
        out.append(s[i])
        i += 1
    t = "".join(out)
    k = t.find(".")
    if k >= 0:
        t = t[k + 1:]
    k = t.find(".")
    if k >= 0:
        t = t[:k]
    return t


def spec_strip_col(col):
    cs = [spec_strip_one(s) for s in col]
    if all(any("a" <= c <= "z" for c in s) and not any("A" <= c <= "Z" for c in s) for s in cs):
        return [s.upper() for s in cs]
    return ["".join(c for c in s if not ("a" <= c <= "z")) for s in cs]


def exact_den(values):
    den = 1
    for v in values:
        den = max(den, Fraction(v).denominator)
    return den


# ----------------------------------------------------------------------------- generators
def decorate(rng, plain, style=None):
    """write a plain sequence the way search engines do"""
    style = style or rng.choice(["plain", "flank", "flank", "mods", "mods+flank", "mods+flank", "lowerterm", "left"])
    body = plain
    if "mods" in style or style == "lowerterm":
        out = []
        for ch in plain:
            out.append(ch)
            if rng.random() < 0.25:
                out.append(rng.choice(["[+16]", "(ox)", "[+79.97]", "[Acetyl (K)", "(+1.5)", "[a[b]"]))
        body = "".join(out)
        if rng.random() < 0.3:
            body = rng.choice(["[+42]", "(ac)"]) + body
    if style == "lowerterm":
        body = rng.choice(["n", "n", ""]) + body + rng.choice(["c", ""])
        if rng.random() < 0.5:
            k = rng.randrange(len(body) + 1)
            body = body[:k] + rng.choice(["m", "ox", "p"]) + body[k:]
    if "flank" in style:
        body = rng.choice(["K.", "R.", "-.", "M.", "k."]) + body + "." + rng.choice(["A", "-", "G", "K[+1]", "a.b", ""])
    elif style == "left":
        body = rng.choice(["K.", "-."]) + body
    return body


def rand_pep(rng, lo=3, hi=6):
    return "".join(rng.choice(AA) for _ in range(rng.randint(lo, hi))) + rng.choice("KR")


def mirror(pep, how, rng):
    body, last = pep[:-1], pep[-1]
    if how == "reverse":
        return body[::-1] + last
    b = list(body)
    rng.shuffle(b)
    return "".join(b) + last


def gen_fasta(rng, mode, wide=False, trios=0, nprot=None, npool=None):
    """-> (fasta text, list of plain peptides of targets, of decoys); wide: many proteins, few overlaps;
    trios: number of (A, B, fragment) triples with fragment inside both A and B, A and B not nested (the fragment's
    group then has several candidate groups to join: the multi-match path of the grouping)"""
    if npool is None:
        npool = rng.randint(14, 24) if wide else rng.randint(3, 9)
    pool = []
    while len(pool) < npool:
        p = rand_pep(rng)
        if p not in pool:
            pool.append(p)
    if nprot is None:
        nprot = rng.randint(6, 11) if wide else rng.randint(2, 7)
    names = ["sp|P%02d|X%d" % (k, k) if rng.random() < 0.3 else "P%d" % k for k in range(nprot)]
    prots = []
    for k in range(nprot):
        kind = rng.random()
        if wide:
            kind = 0.5 + kind / 2 if kind < 0.8 else kind - 0.8
        if prots and kind < 0.25:       # subset of an earlier one
            src = rng.choice(prots)
            peps = rng.sample(src, rng.randint(1, len(src)))
        elif prots and kind < 0.35:     # identical peptide set, different order
            peps = list(rng.choice(prots))
            rng.shuffle(peps)
        else:
            peps = rng.sample(pool, rng.randint(1, 2 if wide else min(4, npool)))
        prots.append(peps)
    for t in range(trios):
        fresh = []
        while len(fresh) < 4:
            q = rand_pep(rng)
            if q not in pool and q not in fresh:
                fresh.append(q)
        shared = fresh[:2]
        prots += [shared + [fresh[2]], shared + [fresh[3]], list(shared)]
        names += ["ISO%dA" % t, "ISO%dB" % t, "FRAG%d" % t]
    lines = []
    tpeps, dpeps = set(), set()
    for nm, peps in zip(names, prots):
        lines.append(">" + nm + " some description")
        lines.append("".join(peps))
        tpeps.update(peps)
    if mode != "target-only":
        how = "reverse" if mode in ("mirror", "partial") else "shuffle"
        memo = {}
        for nm, peps in zip(names, prots):
            if mode == "partial" and rng.random() < 0.4:
                continue
            if mode == "regroup":
                dp = [mirror(p, "shuffle", rng) for p in peps]     # per-protein shuffles: decoy structure differs
            else:
                dp = [memo.setdefault(p, mirror(p, how, rng)) for p in peps]
            lines.append(">decoy_" + nm)
            lines.append("".join(dp))
            dpeps.update(dp)
    return "\n".join(lines) + "\n", sorted(tpeps), sorted(dpeps)


def gen_rows(rng, tpeps, dpeps, mode, lower=False, ties=False, unknown=None, nmax=40, reps=None):
    rows = []
    cand = [(p, True, 0) for p in tpeps] + [(p, False, 0) for p in dpeps]
    if mode == "target-only":
        for p in tpeps:
            r = rng.random()
            m = mirror(p, "reverse", rng)
            if r < 0.6:
                cand.append((m, False, 0))        # same composition: match_decoy finds a target
            elif r < 0.7:
                cand.append((p, False, 0))        # decoy row with a target sequence
            elif r < 0.8:
                cand.append((m, False, 1))        # a decoy row and a target row with the same decoy sequence:
                cand.append((m, True, 1))         # the target row is known only to the decoy map
    rng.shuffle(cand)
    for p, t, least in cand:
        for _ in range(max(least, rng.choice(reps or [0, 1, 1, 1, 2, 3]))):
            if len(rows) < nmax or least:
                rows.append([t if (least or rng.random() < 0.93) else (not t), p])
    if unknown is None:
        unknown = rng.choice([0, 0, 0, 1, 2]) if len(rows) >= 24 else (rng.choice([0, 0, 0, 1]) if len(rows) >= 12 else 0)
    for _ in range(unknown):
        # unknown sequences are mostly decoy hits (a foreign target trips the 5% check unless decoys abound)
        rows.append([rng.random() < 0.1, rand_pep(rng, 4, 7) + "W"])
    rng.shuffle(rows)
    n = len(rows)
    if ties:
        sc = [rng.randint(0, 3) / 2 for _ in range(n)]
    else:
        lim = 400 if n <= 800 else n
        sc = [v / 8 for v in rng.sample(range(-lim, lim), n)]
    out = []
    for (t, p), s in zip(rows, sc):
        if lower:
            txt = rng.choice(["", "k.", "-."]) + p.lower()
            if "." in txt and rng.random() < 0.5:
                txt += "." + rng.choice(["a", "-"])
        else:
            txt = decorate(rng, p)
        out.append([bool(t), txt, s, p])
    return out


FASTA_ARGS = {"missed_cleavages": 0, "min_length": 3, "max_length": 50, "decoy_prefix": "decoy_"}

# ----------------------------------------------------------------------------- presentations (white-box review)
# A case is canonical data (FASTA text, rows = [target, peptide text, score in eighths, plain sequence]); the
# presentation says how the caller hands that data to the real code.  The Coq model always sees the canonical
# form (exact integer scores through a common denominator); every facet below must not change the answer.
DEFAULT_NAMES = ["tgt", "pepcol", "sc"]
INTERNAL_NAMES = ["best peptide", "stripped sequence", "mokapot protein group", "decoy"]
# [target, peptide, score] column names that do not touch the frame picked_protein builds (the peptide column is
# renamed first, so it may carry any name, also an internal one)
HARMLESS_NAMES = [["Label", "Peptide", "score"], ["is target", "best peptide", "mokapot score"],
                  ["target", "decoy", "sc"], ["tgt", "stripped sequence", "sc"], ["tgt", "mokapot protein group", "sc"],
                  ["T", "P", "S"], ["index", "level_0", "0"], ["targét", "péptide", "scöre"],
                  ["Decoy", "Stripped Sequence", "Best Peptide"], ["proteinIds", "PSMId", "q-value"],
                  [" tgt", "pepcol ", "sc "]]
# target / score columns named like a column picked_protein adds itself (known finding, see finding_key)
COLLIDING_NAMES = [["decoy", "pepcol", "sc"], ["tgt", "pepcol", "decoy"], ["stripped sequence", "pepcol", "sc"],
                   ["tgt", "pepcol", "stripped sequence"], ["mokapot protein group", "pepcol", "sc"],
                   ["tgt", "pepcol", "mokapot protein group"], ["best peptide", "pepcol", "sc"],
                   ["tgt", "pepcol", "best peptide"]]
EXTRA_NAMES = ["decoy", "stripped sequence", "mokapot protein group", "best peptide", "proteinIds", "PSMId", "extra",
               "sc2", "score", "peptide", "index", "level_0", "q-value"]
# score presentations: value -> value * 2^k + off, stored with dtype; all exact (checked when drawn)
SCORE_PRES = [("float64", -17, 1024), ("float64", 40, 0), ("float64", -60, 0), ("float64", 0, -5000), ("float64", 4, 2 ** 52),
              ("float32", 0, 0), ("float32", 3, 0), ("int64", 3, 0), ("int64", 3, 2 ** 60), ("int64", 3, -(2 ** 62)),
              ("int32", 3, 0), ("float64", 0, 0)]
PREFIXES = ["rev_", "DECOY_", "XXX_", "decoy-", "d.", "##", "r", "decoy_decoy_"]
INDEX_KINDS = ["perm", "offset", "reversed", "str", "neg", "float", "multi", "sparse"]


def _is_colliding(c):
    n = (c.get("pres") or {}).get("names")
    return bool(n) and (n[0] in INTERNAL_NAMES or n[2] in INTERNAL_NAMES)


def _pscores(c):
    """the scores as the real code gets them (exact Fractions): presentation map applied to the canonical value;
    assign_confidence(descs=[False]) ranks by the negated score"""
    p = c.get("pres") or {}
    k, off = p.get("smap", [0, 0])
    sign = -1 if p.get("desc") is False else 1
    f = Fraction(2) ** k
    return [sign * (Fraction(r[2]) * f + off) for r in c["rows"]]


def _score_array(vals, dtype):
    """exact numpy array of the presented scores, or None if some value is not representable in dtype"""
    import numpy as np
    try:
        if dtype.startswith("int"):
            if any(v.denominator != 1 for v in vals):
                return None
            arr = np.array([int(v) for v in vals], dtype=dtype)
            return arr if all(int(a) == v for a, v in zip(arr, vals)) else None
        arr = np.array([float(v) for v in vals], dtype=dtype)
        return arr if all(Fraction(float(a)) == v for a, v in zip(arr, vals)) else None
    except (OverflowError, ValueError):
        return None


def _exact(s):
    """a score read back from the real code as an exact number"""
    import numpy as np
    if isinstance(s, (int, np.integer)) and not isinstance(s, (bool, np.bool_)):
        return Fraction(int(s))
    return Fraction(float(s))


def _draw_pres(rng, c):
    """a drawn presentation of a picked_protein case: each facet is non-default with a moderate probability so that
    a failing case shrinks to a single facet"""
    p = {}
    if rng.random() < 0.35:
        p["names"] = rng.choice(HARMLESS_NAMES)
    if rng.random() < 0.35:
        names = p.get("names", DEFAULT_NAMES)
        ext = [x for x in rng.sample(EXTRA_NAMES, rng.randint(1, 3)) if x not in names]
        p["extra"] = [[x, rng.choice(["int", "str", "float", "bool"])] for x in ext]
    if rng.random() < 0.35:
        ncol = 3 + len(p.get("extra", []))
        perm = list(range(ncol))
        rng.shuffle(perm)
        p["order"] = perm
    if rng.random() < 0.45:
        dt, k, off = rng.choice(SCORE_PRES)
        c2 = dict(c, pres={"smap": [k, off]})
        if _score_array(_pscores(c2), dt) is not None:
            p["smap"], p["sdtype"] = [k, off], dt
    if rng.random() < 0.3 and c["rows"]:
        p["pdtype"] = rng.choice(["object", "str", "string", "arrow", "category"])
    if rng.random() < 0.2:
        p["tdtype"] = "boolean"         # pandas' nullable boolean; object / integer flags are not booleans (refused)
    if rng.random() < 0.3:
        p["rng"] = rng.choice(["int", "npint", "rs"])
    if rng.random() < 0.25:
        p["earlier"] = rng.choice(["reversed", "half", "same"])
    if p:
        c["pres"] = p
    if rng.random() < 0.4:
        kinds = INDEX_KINDS + ["dup", "dup"]      # repeated labels: pd.concat of per-file tables without ignore_index
        c["index"] = rng.choice(kinds)
    return c


def _pres_tags(c):
    p = c.get("pres") or {}
    t = []
    if "names" in p:
        t.append("names-colliding" if _is_colliding(c) else "names-other")
    if "extra" in p:
        t.append("extra-columns")
    if "order" in p:
        t.append("column-order")
    if "sdtype" in p:
        t.append("score-%s" % p["sdtype"])
        if p["smap"] != [0, 0]:
            t.append("score-map=2^%d%+d" % tuple(p["smap"]) if abs(p["smap"][1]) < 10 ** 6 else
                     "score-map=2^%d+huge" % p["smap"][0])
    for k, lab in (("pdtype", "peptide-"), ("tdtype", "target-"), ("rng", "rng-"), ("earlier", "earlier-call-")):
        if k in p:
            t.append(lab + str(p[k]))
    if c.get("index"):
        t.append("index-" + c["index"])
    if c.get("fasta_args", {}).get("decoy_prefix", "decoy_") != "decoy_":
        t.append("prefix-other")
    return t


def _reprefix(fasta, args, prefix):
    """the same database with another decoy prefix"""
    args["decoy_prefix"] = prefix
    return "\n".join((">" + prefix + ln[len(">decoy_"):]) if ln.startswith(">decoy_") else ln
                     for ln in fasta.split("\n"))


def _picked_case(rng, mode, tags, fn="picked", wide=False, prefix=None, fasta_kw=None, **kw):
    fasta, tp, dp = gen_fasta(rng, mode, wide, **(fasta_kw or {}))
    args = dict(FASTA_ARGS)
    if rng.random() < 0.2:
        args["missed_cleavages"] = 1
    if prefix:
        fasta = _reprefix(fasta, args, prefix)
    c = {"fn": fn, "fasta": fasta, "fasta_args": args, "rows": [], "seed": rng.randrange(1 << 30),
         "ties": bool(kw.get("ties")), "tags": [fn, "fasta=" + mode, "mc=%d" % args["missed_cleavages"]] + list(tags)}
    # the peptides the real digest produced (unique and shared), split by the kind of protein owning them
    P = _proteins(c)
    if P is not None:
        allp = list(P.peptide_map.items()) + list(P.shared_peptides.items())
        tp = sorted(p for p, g in allp if not g.startswith(args["decoy_prefix"]))
        dp = sorted(p for p, g in allp if g.startswith(args["decoy_prefix"]))
    c["rows"] = gen_rows(rng, tp, dp, mode, **kw)
    return c


def _sanity_case(rng, mode, prefix=None):
    """tables around the two sanity checks of picked_protein, empty and all-shared tables"""
    kind = rng.choice(["unknown-many", "unknown-boundary", "empty", "all-shared-or-unknown", "no-decoy-rows"])
    c = _picked_case(rng, mode, ["sanity", kind], unknown=0, prefix=prefix)
    rows = c["rows"]
    if kind == "empty":
        rows = []
    elif kind == "unknown-many":
        for _ in range(rng.randint(1, 6)):
            rows.append([rng.random() < 0.5, rand_pep(rng, 4, 7) + "W", rng.randint(-50, 50) / 4 + 1000, "?"])
    elif kind == "unknown-boundary":
        # exactly at / just around the thresholds: k unknown of n rows (10%), k unknown targets over nd decoy rows (5%)
        base = [r for r in rows if r[3] != "?"]
        rep = lambda src, j: [src[j % len(src)][0], src[j % len(src)][3] + "[+%d]" % j, 2000.0 + j, src[j % len(src)][3]]
        dec = [r for r in base if not r[0]]
        if base and (rng.random() < 0.6 or not dec):
            n, k = rng.choice([(10, 1), (9, 1), (11, 1), (20, 2), (19, 2), (21, 2), (30, 3), (29, 3)])
            rows = [rep(base, j) for j in range(n - k)]
            flag = mode == "target-only"       # unknown decoys are not counted with a target-only FASTA
            rows += [[flag, "QQQQQ%sW" % "ACDEF"[j], 999.5 - j, "?"] for j in range(k)]
        elif dec:
            nd, k = rng.choice([(19, 1), (20, 1), (21, 1), (40, 2), (39, 2), (41, 2)])
            tg = [r for r in base if r[0]]
            rows = [rep(dec, j) for j in range(nd)] + [rep(tg, j) for j in range(3 if tg else 0)]
            rows += [[True, "QQQQQ%sW" % "ACDEF"[j], 999.5 - j, "?"] for j in range(k)]
    elif kind == "all-shared-or-unknown":
        rows = [r for r in rows if r[3] == "?"]     # filled in gen() from shared peptides
        c["_want_shared"] = True
    elif kind == "no-decoy-rows":
        rows = [r for r in rows if r[0]]
        if rng.random() < 0.5:
            rows.append([True, "QQQQQQW", 999.5, "?"])
    c["rows"] = rows
    return c


def _comma_names(rng, fasta):
    """rename some proteins (and their decoys) to identifiers containing a comma"""
    lines = fasta.split("\n")
    names = [ln[1:].split(" ")[0] for ln in lines if ln.startswith(">") and not ln.startswith(">decoy_")]
    ren = {}
    for nm in names:
        if rng.random() < 0.6 or not ren:
            ren[nm] = rng.choice([nm[:1] + "," + nm[1:], nm + ",v2", "gene," + nm])
    out = []
    for ln in lines:
        if ln.startswith(">"):
            head, _, rest = ln[1:].partition(" ")
            dec = head.startswith("decoy_")
            nm = head[len("decoy_"):] if dec else head
            nm = ren.get(nm, nm)
            ln = ">" + ("decoy_" if dec else "") + nm + ((" " + rest) if rest else "")
        out.append(ln)
    return "\n".join(out)


def _strip_col(rng, noise_alpha):
    n = rng.randint(1, 6)
    kind = rng.choice(["annotated", "annotated", "lowercol", "noise", "mixed"])
    col = []
    for _ in range(n):
        p = rand_pep(rng, 2, 5)
        if kind == "annotated":
            col.append(decorate(rng, p))
        elif kind == "lowercol":
            col.append(rng.choice(["", "k.", "-.", "[+1]"]) + p.lower() + rng.choice(["", ".a", "(ox)", "-"]))
        elif kind == "noise":
            col.append("".join(rng.choice(noise_alpha) for _ in range(rng.randint(0, 9))))
        else:
            col.append(rng.choice([decorate(rng, p), p.lower(), "n" + p, ""]))
    return col, kind


def _conf_case(rng, mode, wide, prefix=None, fasta=None):
    """a peptide table for assign_confidence(proteins=...): one row per peptide string, distinct scores"""
    if fasta is None:
        c = _picked_case(rng, mode, ["distinct-scores"], fn="confidence", wide=wide, unknown=0, nmax=40, prefix=prefix)
    else:       # a second table over the same database
        c = {"fn": "confidence", "fasta": fasta[0], "fasta_args": fasta[1], "rows": [], "tags": []}
        P = _proteins(c)
        pre = fasta[1]["decoy_prefix"]
        allp = list(P.peptide_map.items()) + list(P.shared_peptides.items())
        tp = sorted(q for q, g in allp if not g.startswith(pre))
        dp = sorted(q for q, g in allp if g.startswith(pre))
        c["rows"] = gen_rows(rng, tp, dp, mode, unknown=0, nmax=40)
    # one row per peptide string (the peptide level is a roll-up by peptide string)
    seen, rows = set(), []
    for r in c["rows"]:
        if r[1] not in seen and r[1] != "":
            seen.add(r[1])
            rows.append(r)
    # targets mostly above decoys so that q-values below 1 occur; scores stay pairwise distinct
    used = set()
    for r in rows:
        if r[0] and rng.random() < 0.85:
            r[2] += 100.0
        while r[2] in used:
            r[2] += 0.125
        used.add(r[2])
    # the peptide-level file is written best score first: row labels = ranks
    c["rows"] = sorted(rows, key=lambda r: -r[2])
    return c


def _conf_presented(rng, k):
    """a confidence case in a drawn presentation of the run (file format, reader, direction, chunk size, a second
    collection, leftovers in the destination directory, decoys=False, rng argument, row order of the file, score
    resolution, decoy prefix); None when the drawn table is empty"""
    mode = ["mirror", "mirror", "regroup", "partial", "target-only"][k % 5]
    prefix = rng.choice(PREFIXES) if rng.random() < 0.3 else None
    c = _conf_case(rng, mode, wide=(k % 3 != 2), prefix=prefix)
    n = len(c["rows"])
    if n == 0:          # a collection without any PSM never reaches the protein level (C03 / C19)
        return None
    p = {}
    if rng.random() < 0.12:
        p["fmt"] = "parquet"
    if rng.random() < 0.4:
        p["via"] = "read_pin"
    if rng.random() < 0.3:
        p["desc"] = False
    if rng.random() < 0.5:
        p["chunk"] = max(1, rng.choice([1, 2, 3, 5, 7, n - 1, n, n + 1, n // 2]))
    if rng.random() < 0.3:
        o = _conf_case(rng, mode, wide=True, fasta=(c["fasta"], c["fasta_args"]))
        # the other collection must be accepted (its failure would abort the whole call): known peptides only,
        # at least one of them unique
        P = _proteins(c)
        known = set(P.peptide_map) | set(P.shared_peptides)
        orows = [r for r in o["rows"] if r[3] in known or (not r[0] and not P.has_decoys)]
        which = rng.choice([0, 1])
        if any(r[3] in P.peptide_map for r in orows):
            p["other"], p["which"] = orows, which
    if rng.random() < 0.3:
        p["leftover"] = rng.choice(["results", "junk", "table"])
    if rng.random() < 0.25:
        p["decoys"] = False
    if rng.random() < 0.3:
        p["rng"] = rng.choice(["int", "npint"])
    if rng.random() < 0.3:
        p["smap"] = rng.choice([[-17, 1024], [20, 0], [-40, 0], [0, -5000]])
    if rng.random() < 0.2:
        p["workers"] = 3
    if rng.random() < 0.5:
        rng.shuffle(c["rows"])
        c["tags"].append("file-order-shuffled")
    if p:
        c["pres"] = p
    c["tags"] += ["presented"] + ["%s=%s" % (f, p[f]) for f in ("fmt", "via", "desc", "leftover", "decoys", "rng", "workers") if f in p] \
        + (["chunked"] if "chunk" in p else []) + (["two-collections"] if "other" in p else []) \
        + (["score-map"] if "smap" in p else []) + (["prefix-other"] if prefix else [])
    return c


# ----------------------------------------------------------------------------- extra rollup levels (round 4)
# read_pin recognises these columns (any spelling of the case) and appends them to the dataset's level_columns after
# the peptide column, in this order; assign_confidence writes one level file per level column and then the protein
# level, which the property computes from the retained unique peptides = the PEPTIDE level, whatever else exists.
LEVEL_COLS = ["ModifiedPeptide", "Precursor", "PeptideGroup"]
# how the values of a level column relate to the peptide strings of the table:
#   equal     one value per peptide string (the string itself or a renaming of it)
#   finer     peptide string + charge; the PSMs of one peptide carry different charges (the level splits a peptide)
#   coarser   a few groups, each joining peptides of different proteins (of both kinds, of several pairs)
#   sequence  the plain sequence: joins the differently decorated forms of one sequence (coarser, within a protein)
#   unrelated drawn per PSM: cuts across peptides and proteins
#   explicit  a given map peptide string -> value (corpus cases)
LEVEL_KINDS = ["equal", "finer", "coarser", "sequence", "unrelated"]


def _h(*parts):
    return zlib.crc32("\x1f".join(str(x) for x in parts).encode())


def _level_value(spec, seed, text, plain, occ):
    """value of the level column `spec` = [column, kind, parameter] for the occ-th PSM (0 = the best one) of the
    peptide string `text`: a pure function, so that dropping rows while shrinking keeps the other values"""
    col, kind, par = spec
    if kind == "equal":
        return text if _h(seed, col) % 2 else "m:" + text
    if kind == "finer":
        return "%s/%d" % (text, 2 + (_h(seed, col, text) + occ) % 3)
    if kind == "coarser":
        return "%s%d" % (col[:2].lower(), _h(seed, col, text) % max(1, int(par)))
    if kind == "sequence":
        return plain
    if kind == "unrelated":
        return "u%d" % (_h(seed, col, text, occ) % max(1, int(par)))
    if kind == "explicit":
        return str(par.get(text, text))
    raise ValueError(kind)


def _level_order(p):
    """the extra level columns in the order of the dataset's level_columns (after the peptide column): read_pin puts
    them in its own fixed order, a hand-built dataset keeps the caller's"""
    lv = p.get("levels") or []
    if p.get("via", "ondisk") == "read_pin" or p.get("fmt") == "parquet":
        return sorted(lv, key=lambda s: LEVEL_COLS.index(s[0]))
    return lv


def _add_levels(rng, c, specs, npsm, dedup=None, root=None):
    """extra level columns, npsm further (worse) PSMs of peptides of the table, deduplication / file_root options"""
    p = c.setdefault("pres", {})
    rows = c["rows"]
    p["levels"] = [list(s) for s in specs]
    p["lseed"] = rng.randrange(1 << 16)
    sign = -1 if p.get("desc") is False else 1          # the score map is increasing: ranking = sign * canonical value
    used = {r[2] for r in rows}
    extras = []
    for _ in range(npsm):
        r = rng.choice(rows)
        v = r[2] - sign * rng.randint(1, 400) / 8
        while v in used:
            v -= sign * 0.125
        used.add(v)
        # its spectrum: its own, or (30%) the spectrum of a better PSM - it then loses the competition for the
        # spectrum when deduplication is on and stays a PSM of its own when it is off; never the best of its peptide
        better = [q[1] for q in rows if sign * q[2] > sign * v]
        extras.append([r[1], v, rng.choice(better) if rng.random() < 0.3 else None])
    if extras:
        p["psms"] = extras
        if rng.random() < 0.7:
            p["mix"] = rng.randrange(1 << 16)          # PSMs of one peptide scattered over the file
    # a tiny chunk size on a long PSM file with several level files costs seconds and is the business of (4p) / C03
    total = len(rows) + len(extras)
    if p.get("chunk") and p["chunk"] < total // 5:
        p["chunk"] = total // 5 + 1
    if dedup is False:
        p["dedup"] = False
    if root:
        p["root"] = root
    order = _level_order(p)
    c["tags"] += ["levels=%d" % len(specs)] + ["level:%s=%s" % (s[0], s[1]) for s in specs] \
        + ["last-level=%s:%s" % (order[-1][0], order[-1][1])] + (["several-psms-per-peptide"] if extras else []) \
        + (["shared-spectra"] if any(e[2] for e in extras) else []) + (["dedup=False"] if dedup is False else []) \
        + (["file-root"] if root else [])
    return c


def _gen_conf_levels(ctx):
    """(4L) assign_confidence(proteins=...) on input with extra rollup levels.  Systematic part: every non-empty
    subset of the three level columns x kinds (quick: five rotations of the kind list per subset, so that every
    column takes every kind and every kind is the last level; thorough: every assignment of kinds); random part on
    top.  Every case is a drawn presentation of the run as in (4p); Parquet is forced for every third case."""
    rng = ctx.sub("confidence-levels")
    subsets = [list(s) for n in (1, 2, 3) for s in itertools.combinations(LEVEL_COLS, n)]
    plans = []
    for sub in subsets:
        if ctx.thorough:
            plans += [list(zip(sub, kinds)) for kinds in itertools.product(LEVEL_KINDS, repeat=len(sub))]
        else:
            plans += [[(col, LEVEL_KINDS[(rot + 2 * j) % 5]) for j, col in enumerate(sub)] for rot in range(5)]
    for _ in range(85 if ctx.thorough else 5):
        sub = rng.choice(subsets)
        plans.append([(col, rng.choice(LEVEL_KINDS + ["coarser", "unrelated"])) for col in sub])
    out = []
    k = 0
    for plan in plans:
        c = None
        while c is None or len(c["rows"]) < 4:
            c = _conf_presented(rng, k)
            k += 1
        p = c.setdefault("pres", {})
        if len(out) % 3 == 0:
            if "fmt" not in p:
                c["tags"].append("fmt=parquet")
            p["fmt"] = "parquet"
        n = len(c["rows"])
        specs = []
        for col, kind in plan:
            par = rng.choice([1, 2, 3, 3, max(2, n // 3), max(2, n // 2)]) if kind in ("coarser", "unrelated") else 0
            specs.append([col, kind, par])
        rng.shuffle(specs)              # order of level_columns of a hand-built dataset; read_pin has its own
        npsm = rng.choice([0, 0, n // 2, n, 2 * n])
        if any(kd == "finer" for _, kd in plan) and npsm == 0:
            npsm = n                    # a finer level only differs from the peptide level with several PSMs per peptide
        _add_levels(rng, c, specs, npsm, dedup=False if rng.random() < 0.35 else None,
                    root="run1." if rng.random() < 0.2 else None)
        c["tags"].append("extra-levels")
        out.append(c)
    return out


# ----------------------------------------------------------------------------- match_decoy stream
def _arrangements(rng, comp, k):
    """up to k distinct arrangements of the residues comp (a list of residue strings)"""
    out, tries = [], 0
    while len(out) < k and tries < 40:
        tries += 1
        r = list(comp)
        rng.shuffle(r)
        w = "".join(r)
        if w not in out:
            out.append(w)
    return out


def _md_orders(rng, n, k):
    ords = []
    if n >= 2:
        ords.append(list(range(n - 1, -1, -1)))
    for _ in range(k):
        o = list(range(n))
        rng.shuffle(o)
        ords.append(o)
    return ords


def _md_case(rng, style):
    """decoys / targets over a small residue alphabet: anagram groups of 1..4 targets, more / as many / fewer decoys
    than targets per composition, decoys of a composition no target has, repeated decoys"""
    if style == "upper":
        res = rng.choice([["A", "B"], ["A", "B", "C"], ["K", "L", "M"]])
    elif style == "mods":           # residues carrying a modification or a lower-case mark, as unstripped peptides do
        res = rng.choice([["A", "B", "M[+16]"], ["A", "Bc", "C"], ["A", "B", "Cox", "K(ac)"]])
    else:                           # mixed: lower-case letters / symbols also in front of the first residue
        res = rng.choice([["A", "B", "a"], ["A", "b", "B"], ["A", "B", "-", "1"]])
    comps = []
    for _ in range(rng.randint(1, 4)):
        comps.append([rng.choice(res) for _ in range(rng.randint(1, 4))])
    targets, decoys = [], []
    for comp in comps:
        ts = _arrangements(rng, comp, rng.randint(1, 4))
        nd = rng.choice([0, 1, max(0, len(ts) - 1), len(ts), len(ts) + 1, len(ts) + 2])
        pool = _arrangements(rng, comp, 6)
        decoys += [rng.choice(pool) for _ in range(nd)]
        targets += ts
    if rng.random() < 0.4:          # a decoy whose composition no target has
        decoys.append("".join(rng.choice(res) for _ in range(rng.randint(1, 5))) + rng.choice(["W", ""]))
    targets = list(dict.fromkeys(targets))
    tags = ["match_decoy", "md-" + style]
    if rng.random() < 0.8:
        decoys = list(dict.fromkeys(decoys))    # picked_protein passes .unique()
    if len(set(decoys)) < len(decoys):
        tags.append("md-repeated-decoys")
    if rng.random() < 0.1 and targets:
        targets.append(rng.choice(targets))
        tags.append("md-repeated-targets")
    rng.shuffle(decoys)
    rng.shuffle(targets)
    c = {"fn": "match_decoy", "decoys": decoys, "targets": targets, "ignore_mods": rng.random() < 0.75,
         "seed": rng.randrange(1 << 30), "orders": _md_orders(rng, len(targets), 2), "tags": tags}
    if rng.random() < 0.5:
        c["dtype"] = rng.choice(MD_DTYPES[1:])
        tags.append("md-dtype-" + c["dtype"])
    if rng.random() < 0.3:
        c["index"] = rng.choice(["perm", "offset", "str", "dup", "neg"])
        tags.append("md-index-" + c["index"])
    if rng.random() < 0.5:
        c["rng"] = rng.choice(["int", "npint", "rs", "global"])
        tags.append("md-rng-" + c["rng"])
    if not c["ignore_mods"]:
        tags.append("md-ignore_mods=False")
    return c


def _gen_match_decoy(ctx):
    cases = []
    fixed = [
        ([], [], True), (["AB"], [], True), ([], ["AB", "BA"], True), (["BA"], ["AB", "BA"], True),
        (["BA", "AB", "BA"], ["AB", "BA"], True), (["AB", "AB", "AB"], ["AB", "BA"], True),
        (["AcB", "ABc", "Ab", "bA", "aB"], ["ABc", "AcB", "Ab", "bA", "Ba"], True),
        (["AcB", "ABc", "Ab", "bA", "aB"], ["ABc", "AcB", "BAc", "bA", "Ba"], False),
        (["A[+1]B", "BA[+1]"], ["B[+1]A", "BA[+1]", "A[+1]B"], False),
        (["A[+1]B", "BA[+1]"], ["B[+1]A", "BA[+1]", "A[+1]B"], True),
        (["", "A"], ["", "A", "a"], True), (["nAB", "ABn"], ["nBA", "BnA"], False),
        (["ab", "ba"], ["ab", "ba"], True), (["ab", "ba"], ["ab", "ba"], False),
    ]
    for j, (ds, ts, im) in enumerate(fixed):
        n = len(ts)
        cases.append({"fn": "match_decoy", "decoys": ds, "targets": ts, "ignore_mods": im, "seed": 11 + j,
                      "orders": [list(range(n - 1, -1, -1))] if n > 1 else [],
                      "tags": ["match_decoy", "md-fixed"] + ([] if im else ["md-ignore_mods=False"])})
    # exhaustive small scope: every set of <= 3 targets out of six strings (two anagram families and a loner) against
    # every decoy list of length <= 2 (thorough: <= 3) over four strings, every order of the targets (quick: three of the five other orders of three targets), three seeds
    uni_t = ["AB", "BA", "AAB", "ABA", "BAA", "C"]
    uni_d = ["AB", "BA", "ABA", "CC"]
    dlists = [list(x) for k in range(0, (3 if ctx.thorough else 2) + 1) for x in itertools.product(uni_d, repeat=k)]
    for k in range(0, 4):
        for tsel in itertools.combinations(uni_t, k):
            perms = [list(o) for o in itertools.permutations(range(k))][1:]
            if not ctx.thorough and k == 3:
                perms = perms[::2]          # quick: three of the five other orders (among them the reversed one)
            for ds in dlists:
                for seed in ((1, 2, 3) if ctx.thorough else (1,)):
                    cases.append({"fn": "match_decoy", "decoys": ds, "targets": list(tsel), "ignore_mods": True,
                                  "seed": seed * 7919 + len(ds) + 5 * k, "orders": perms,
                                  "tags": ["match_decoy", "md-exhaustive"]})
    rng = ctx.sub("match-decoy")
    for k in range(1600 if ctx.thorough else 300):
        cases.append(_md_case(rng, ["upper", "upper", "mods", "mixed"][k % 4]))
    # longer lists: 40..200 targets over few compositions
    rng = ctx.sub("match-decoy-large")
    for k in range(12 if ctx.thorough else 3):
        res = ["A", "C", "D", "E"]
        targets = list(dict.fromkeys("".join(rng.choice(res) for _ in range(rng.randint(3, 6))) for _ in range(rng.randint(40, 200))))
        decoys = list(dict.fromkeys("".join(rng.sample(list(t), len(t))) for t in rng.sample(targets, len(targets) // 2) for _ in range(2)))
        cases.append({"fn": "match_decoy", "decoys": decoys, "targets": targets, "ignore_mods": True,
                      "seed": rng.randrange(1 << 30), "orders": _md_orders(rng, len(targets), 1),
                      "tags": ["match_decoy", "md-large"]})
    return cases


def gen(ctx):
    cases = _gen_match_decoy(ctx)
    # ---- strip columns as cases (the exhaustive part runs in extra_checks)
    rng = ctx.sub("strip")
    for s in ["A.B.C", "nABCc", "BL[+mod]AH", "A.B[1.1].C", "abc", "A.LES[+79.]LIEK.A", "K.PEP(ox)TIDE.-", "-.n[+42]PEPK.A",
              "PE[P", "PE]P", "K.PE[a.b)K.R", "[.].A.B", "", ".", "a.b", "k.pepk.a"]:
        cases.append({"fn": "strip", "col": [s], "tags": ["strip", "strip-fixed"]})
    cases.append({"fn": "strip", "col": ["A.B.C", "nABCc", "BL[+mod]AH", "A.B[1.1].C"], "tags": ["strip", "strip-fixed"]})
    cases.append({"fn": "strip", "col": [], "tags": ["strip", "strip-fixed"]})
    for k in range(600 if ctx.thorough else 150):
        col, kind = _strip_col(rng, ALPHA + "Bz")
        cases.append({"fn": "strip", "col": col, "tags": ["strip", "strip-" + kind]})
    # white-box review: other dtypes / row labels of the argument, digits and other symbols outside brackets
    rng = ctx.sub("strip-presented")
    for k in range(400 if ctx.thorough else 100):
        col, kind = _strip_col(rng, ALPHA + "Bz19+ _{<*")
        c = {"fn": "strip", "col": col, "tags": ["strip", "strip-" + kind, "presented"]}
        if rng.random() < 0.6:
            c["dtype"] = rng.choice(["str", "string", "arrow", "category"])
            c["tags"].append("dtype-" + c["dtype"])
        if rng.random() < 0.5:
            c["index"] = rng.choice(["perm", "str", "offset", "dup", "neg"])
            c["tags"].append("index-" + c["index"])
        cases.append(c)
    # ---- picked_protein
    rng = ctx.sub("picked")
    npk = 700 if ctx.thorough else 160
    modes = ["mirror", "mirror", "mirror", "regroup", "partial", "target-only", "target-only"]
    for k in range(npk):
        mode = modes[k % len(modes)]
        r = rng.random()
        if r < 0.7:
            cases.append(_picked_case(rng, mode, ["distinct-scores"], wide=(k % 4 == 3)))
        elif r < 0.85:
            cases.append(_picked_case(rng, mode, ["tie-stream"], ties=True))
        else:
            cases.append(_picked_case(rng, mode, ["lower-case-column", "distinct-scores"], lower=True))
    # row labels of the peptide table: every third case carries labels other than 0..n-1
    for j, c in enumerate([c for c in cases if c["fn"] == "picked"]):
        if j % 3 == 1:
            c["index"] = ["perm", "offset", "reversed", "str"][(j // 3) % 4]
            c["tags"] = c["tags"] + ["index-" + c["index"]]
    # ---- sanity errors / degenerate tables
    rng = ctx.sub("errors")
    for k in range(240 if ctx.thorough else 70):
        cases.append(_sanity_case(rng, modes[k % len(modes)]))
    # ---- white-box review: the same kinds of tables in drawn presentations (column names / order / extra columns,
    # score dtype and magnitude, peptide / target dtype, row labels, rng argument, an earlier call on the same
    # Proteins object, other decoy prefixes)
    rng = ctx.sub("presented")
    for k in range(1500 if ctx.thorough else 400):
        mode = modes[k % len(modes)]
        prefix = rng.choice(PREFIXES) if rng.random() < 0.35 else None
        r = rng.random()
        if r < 0.15:
            c = _sanity_case(rng, mode, prefix=prefix)
        elif r < 0.7:
            c = _picked_case(rng, mode, ["distinct-scores"], wide=(k % 4 == 3), prefix=prefix)
        elif r < 0.85:
            c = _picked_case(rng, mode, ["tie-stream"], ties=True, prefix=prefix)
        else:
            c = _picked_case(rng, mode, ["lower-case-column", "distinct-scores"], lower=True, prefix=prefix)
        c["_pres"] = rng.randrange(1 << 30)
        c["tags"].append("presented")
        cases.append(c)
    # target / score column named like an internal column of picked_protein
    rng = ctx.sub("colliding")
    for k in range(24 if ctx.thorough else 8):
        c = _picked_case(rng, modes[k % len(modes)], ["distinct-scores"])
        c["pres"] = {"names": COLLIDING_NAMES[k % len(COLLIDING_NAMES)]}
        cases.append(c)
    # protein identifiers containing a comma (group names are ', '-joined identifiers)
    rng = ctx.sub("comma")
    for k in range(20 if ctx.thorough else 6):
        c = _picked_case(rng, ["mirror", "partial", "target-only"][k % 3], ["distinct-scores", "comma-in-protein-name"])
        c["fasta"] = _comma_names(rng, c["fasta"])
        cases.append(c)
    # larger tables: 40..90 proteins, hundreds of rows
    rng = ctx.sub("large")
    for k in range(10 if ctx.thorough else 3):
        mode = ["mirror", "target-only", "regroup", "partial"][k % 4]
        c = _picked_case(rng, mode, ["distinct-scores", "large"], wide=True, nmax=rng.choice([300, 700, 1500]),
                         fasta_kw={"nprot": rng.randint(40, 90), "npool": rng.randint(100, 220)},
                         prefix=rng.choice(PREFIXES) if k % 2 else None, reps=[2, 3, 4, 5, 6, 8])
        c["_pres"] = rng.randrange(1 << 30)
        cases.append(c)
    for c in cases:
        if c.pop("_want_shared", False):
            P = _proteins(c)
            sh = sorted(P.shared_peptides.keys()) if P is not None else []
            c["rows"] = [[j % 2 == 0, "K." + p + ".A", float(j), p] for j, p in enumerate(sh[:6])]
    # scores must stay pairwise distinct in the distinct stream
    for c in cases:
        if c["fn"] == "picked" and not c["ties"]:
            seen = set()
            for r in c["rows"]:
                while r[2] in seen:
                    r[2] += 0.125
                seen.add(r[2])
    # presentations are drawn last: whether a score presentation is exact depends on the final rows
    import random as _random
    for c in cases:
        if "_pres" in c:
            _draw_pres(_random.Random(c.pop("_pres")), c)
        if c["fn"] == "picked":
            c["tags"] = c["tags"] + [t for t in _pres_tags(c) if t not in c["tags"]]
    # ---- through assign_confidence
    rng = ctx.sub("confidence")
    for k in range(80 if ctx.thorough else 20):
        mode = ["mirror", "mirror", "regroup", "partial", "target-only"][k % 5]
        cases.append(_conf_case(rng, mode, wide=(k % 3 != 2)))
    # white-box review: the same through drawn presentations of the run (file format, reader, direction, chunk size,
    # a second collection, leftovers in the destination directory, decoys=False, rng argument, row order of the file,
    # score resolution, decoy prefix)
    rng = ctx.sub("confidence-presented")
    for k in range(320 if ctx.thorough else 100):
        c = _conf_presented(rng, k)
        if c is not None:
            cases.append(c)
    # round 4: the same runs on input with one, two or three extra rollup-level columns (ModifiedPeptide / Precursor /
    # PeptideGroup, each finer than, equal to, coarser than or unrelated to the peptide column), several PSMs per
    # peptide, deduplication=False, a file_root: the protein level must still be computed from the peptide level
    cases.extend(_gen_conf_levels(ctx))
    return cases


# ----------------------------------------------------------------------------- running the real code
def _key(c):
    return json.dumps({k: v for k, v in c.items() if k != "tags"}, sort_keys=True)


def _proteins(c):
    """real read_fasta on the case's FASTA text"""
    from mokapot.parsers.fasta import read_fasta
    k = ("fasta", c["fasta"], json.dumps(c["fasta_args"], sort_keys=True))
    if k not in _CACHE:
        d = _tmpdir()
        path = os.path.join(d, "db_%d.fasta" % len(_CACHE))
        with open(path, "w") as f:
            f.write(c["fasta"])
        try:
            _CACHE[k] = read_fasta(path, **c["fasta_args"])
        except Exception as e:   # e.g. only decoys
            _CACHE[k] = None
        os.unlink(path)
    return _CACHE[k]


def _strs(ser):
    try:
        return [str(v) for v in ser.to_list()]
    except Exception:
        return None


class _Record:
    """records the oracles while the real code runs, and every match_decoy call (arguments as passed, the
    positions its sample(frac=1) drew, its answer) for the comparison with Model/MatchDecoy.v"""

    def __init__(self):
        self.order = None
        self.dm = None
        self.orders = []        # one per groupby_max call / match_decoy call, in call order
        self.dms = []
        self.calls = []         # match_decoy call records, in call order
        self._open = None       # the call record while a match_decoy call is running

    def __enter__(self):
        import pandas as pd
        import mokapot.picked_protein as pp
        self.pd, self.pp = pd, pp
        self.orig_sample = pd.DataFrame.sample
        self.orig_ssample = pd.Series.sample
        self.orig_match = pp.match_decoy
        rec = self

        def sample(df, *a, **k):
            out = rec.orig_sample(df, *a, **k)
            if "decoy" in df.columns and k.get("frac", a[1] if len(a) > 1 else None) == 1:
                # picked_protein relabels its trimmed table 0..n-1 (whatever labels the caller's table carries: permuted,
                # strings, repeated, MultiIndex ...), so the labels groupby_max shuffles ARE the row positions the model
                # numbers its rows by.  Labels that are no positions (code that works on the caller's labels again) leave
                # no usable order and the comparison with the model fails.
                try:
                    rec.order = [int(v) for v in out.index]
                    if any(isinstance(v, (bool, float)) or int(v) != v for v in out.index):
                        rec.order = []
                except Exception:
                    rec.order = []
                rec.orders.append(rec.order)
            return out

        def ssample(ser, *a, **k):
            # Series.sample(frac=1) inside match_decoy: the one random step.  sample draws POSITIONS and returns
            # take(positions); the positions are read off by sampling the same values labelled 0..n-1 (one draw from the
            # generator, as in the unpatched call), and the caller's Series is taken at them.
            call = rec._open
            if call is None or k.get("frac", a[1] if len(a) > 1 else None) != 1:
                return rec.orig_ssample(ser, *a, **k)
            out = rec.orig_ssample(ser.reset_index(drop=True), *a, **k)
            perm = [int(v) for v in out.index]
            call["shuffles"].append({"perm": perm, "values": _strs(ser)})
            return ser.iloc[perm]

        def match(*a, **k):
            decoys = a[0] if len(a) > 0 else k.get("decoys")
            targets = a[1] if len(a) > 1 else k.get("targets")
            im = a[2] if len(a) > 2 else k.get("ignore_mods", True)
            call = {"decoys": _strs(decoys), "targets": _strs(targets), "ignore_mods": bool(im), "shuffles": [],
                    "result": None}
            rec.calls.append(call)
            prev, rec._open = rec._open, call
            try:
                out = rec.orig_match(*a, **k)
            except BaseException as e:
                call["result"] = ["err", lib.err_kind(e)]
                raise
            finally:
                rec._open = prev
            rec.dm = [[str(d), str(t)] for d, t in out.items()]
            call["result"] = ["ok", rec.dm]
            rec.dms.append(rec.dm)
            return out

        pd.DataFrame.sample = sample
        pd.Series.sample = ssample
        pp.match_decoy = match
        return self

    def __exit__(self, *exc):
        self.pd.DataFrame.sample = self.orig_sample
        self.pd.Series.sample = self.orig_ssample
        self.pp.match_decoy = self.orig_match
        return False


def _canon_group(g):
    if g is None or (isinstance(g, float) and g != g):
        return NAN
    try:
        import pandas as pd
        if pd.isna(g):
            return NAN
    except Exception:
        pass
    return str(g)


def _index_labels(kind, n, seed):
    """row labels for the peptide table handed to picked_protein (None: the default RangeIndex); unique except for
    kind 'dup' (a table concatenated from several tables without ignore_index)"""
    if not kind or kind == "range":
        return None
    import random
    r = random.Random(seed)
    if kind == "perm":
        lab = list(range(n))
        r.shuffle(lab)
        return lab
    if kind == "offset":
        return [1000 + 3 * j for j in range(n)]
    if kind == "reversed":
        return list(range(n - 1, -1, -1))
    if kind == "str":
        lab = ["r%03d" % j for j in range(n)]
        r.shuffle(lab)
        return lab
    if kind == "neg":
        lab = [j - n // 2 for j in range(n)]
        r.shuffle(lab)
        return lab
    if kind == "float":
        lab = [j + 0.5 for j in range(n)]
        r.shuffle(lab)
        return lab
    if kind == "sparse":                       # what is left of 0..3n-1 after filtering rows out
        return sorted(r.sample(range(3 * n + 1), n))
    if kind == "multi":                        # (file, row) labels
        return [[j % 3, j // 3] for j in range(n)]
    if kind == "dup":                          # three tables of n/3 rows, each labelled from 0
        m = max(1, (n + 2) // 3)
        return [j % m for j in range(n)]
    raise ValueError(kind)


def _frame(c):
    """the peptide table of a picked_protein case in its presentation -> (DataFrame, [target, peptide, score] names)"""
    import numpy as np
    import pandas as pd
    rows = c["rows"]
    p = c.get("pres") or {}
    tn, pn, sn = p.get("names", DEFAULT_NAMES)
    sarr = _score_array(_pscores(c), p.get("sdtype", "float64"))
    if sarr is None:
        raise AssertionError("harness: score presentation is not exact")
    pd_kind = p.get("pdtype")
    peps = [r[1] for r in rows]
    if not rows:
        pcol = pd.Series(peps, dtype=object)
    elif pd_kind == "object":
        pcol = pd.Series(peps, dtype=object)
    elif pd_kind == "string":
        pcol = pd.Series(peps, dtype="string[python]")
    elif pd_kind == "arrow":
        pcol = pd.Series(peps, dtype="string[pyarrow]")
    elif pd_kind == "category":
        pcol = pd.Series(peps, dtype=object).astype("category")
    else:
        pcol = pd.Series(peps)              # pandas' default string dtype
    tcol = np.array([bool(r[0]) for r in rows], dtype=bool)
    if p.get("tdtype") == "boolean":
        tcol = pd.array(tcol, dtype="boolean")
    elif p.get("tdtype") == "object":
        tcol = np.array([bool(r[0]) for r in rows], dtype=object)
    cols = [(tn, tcol), (pn, pcol.values if rows else pcol), (sn, sarr)]
    n = len(rows)
    for name, kind in p.get("extra", []):
        if kind == "int":
            v = np.arange(n)[::-1].copy()
        elif kind == "float":
            v = np.linspace(-1.0, 1.0, n) if n else np.array([], dtype=float)
        elif kind == "bool":
            v = np.array([j % 2 == 0 for j in range(n)], dtype=bool)
        else:
            v = np.array(["x%d" % (j % 5) for j in range(n)], dtype=object)
        cols.append((name, v))
    order = p.get("order") or list(range(len(cols)))
    cols = [cols[j] for j in order if j < len(cols)] + [cols[j] for j in range(len(cols)) if j not in order]
    df = pd.DataFrame({k: v for k, v in cols})
    labels = _index_labels(c.get("index"), n, c["seed"])
    if labels is not None:
        if c.get("index") == "multi":
            df.index = pd.MultiIndex.from_tuples([tuple(x) for x in labels], names=["file", "row"]) if n else df.index
        else:
            df.index = pd.Index(labels)
    return df, [tn, pn, sn]


def _snapshot(P):
    return (dict(P.peptide_map), dict(P.shared_peptides), dict(P.protein_map), P.has_decoys, P.decoy_prefix)


def _frame_changed(before, after):
    if list(before.columns) != list(after.columns):
        return "columns %r -> %r" % (list(before.columns), list(after.columns))
    if not before.index.equals(after.index):
        return "row labels"
    for col in before.columns:
        if str(before[col].dtype) != str(after[col].dtype):
            return "dtype of %r: %s -> %s" % (col, before[col].dtype, after[col].dtype)
        if list(before[col]) != list(after[col]):
            return "values of %r" % (col,)
    return None


def _rng_arg(kind, seed):
    import numpy as np
    if kind == "int":
        return int(seed)
    if kind == "npint":
        return np.int64(seed)
    if kind == "rs":
        return np.random.RandomState(seed % (1 << 32))
    return np.random.default_rng(seed)


def _run_picked(c):
    """-> dict(proteins=..., dm=..., order=..., result=('ok', entries) | ('err', kind))"""
    k = _key(c)
    if k in _CACHE:
        return _CACHE[k]
    import numpy as np
    import pandas as pd
    from mokapot.picked_protein import picked_protein
    P = copy.deepcopy(_proteins(c))     # a Proteins object of its own: nothing a run leaves on it reaches another run
    rows = c["rows"]
    p = c.get("pres") or {}
    ps = _pscores(c)
    den = exact_den(ps)
    df, (tn, pn, sn) = _frame(c)
    before = df.copy(deep=True)
    snap = _snapshot(P) if P is not None else None
    # an earlier call with the same Proteins object (another table): nothing of it may survive into this call
    if p.get("earlier") and P is not None and rows:
        try:
            kind = p["earlier"]
            e = (df.iloc[::-1] if kind == "reversed" else df.iloc[: max(1, len(df) // 2)] if kind == "half" else df).copy()
            if kind == "reversed":          # other decoy peptides than in the observed call
                e[tn] = ~e[tn].astype(bool)
            np.random.seed((c["seed"] + 1) % (1 << 31))
            picked_protein(e, tn, pn, sn, P, _rng_arg(p.get("rng"), c["seed"] + 1))
        except Exception:
            pass
    np.random.seed(c["seed"] % (1 << 31))
    with _Record() as rec:
        def go():
            out = picked_protein(df, tn, pn, sn, P, _rng_arg(p.get("rng"), c["seed"]))
            ent = []
            for g, bp, ss, s, t in zip(out["mokapot protein group"], out["best peptide"], out["stripped sequence"],
                                       out[sn], out[tn]):
                ent.append([_canon_group(g), str(bp), str(ss), int(_exact(s) * den), bool(t)])
            return sorted(ent)
        res = call_impl(go)
    if res[0] == "ok":
        ch = _frame_changed(before, df)
        if ch is None and snap is not None and _snapshot(P) != snap:
            ch = "the Proteins object"
        if ch is not None:
            res = ("err", "InputModified: " + ch)
    out = {"P": P, "dm": rec.dm or [], "order": rec.order or [], "result": res, "den": den, "md_calls": rec.calls}
    _CACHE[k] = out
    return out


def _conf_psms(rows, scores, p, observed):
    """the PSMs of one collection in file order: [flag, peptide text, plain sequence, score as passed, occurrence
    number within its peptide (0 = best), spectrum number].  Without the round-4 facets: one PSM per row, in row order.
    pres['psms'] = [peptide text, canonical score, peptide text of the PSM whose spectrum it shares | None]: further PSMs
    of peptides of the observed table, each worse than the row of its peptide (so the peptide level stays c['rows'])"""
    recs = [[bool(r[0]), r[1], r[3], s, 0, j] for j, (r, s) in enumerate(zip(rows, scores))]
    if observed and p.get("psms"):
        k, off = p.get("smap", [0, 0])
        f = Fraction(2) ** k
        pos = {r[1]: j for j, r in enumerate(rows)}
        occ = {}
        for text, v, share in p["psms"]:
            if text not in pos:         # its peptide was dropped while shrinking
                continue
            j = pos[text]
            occ[text] = occ.get(text, 0) + 1
            recs.append([bool(rows[j][0]), text, rows[j][3], Fraction(v) * f + off, occ[text],
                         pos[share] if share in pos else len(recs)])
        if p.get("mix") is not None:
            import random
            random.Random(p["mix"]).shuffle(recs)
    return recs


def _conf_table(rows, scores, tag, p=None, observed=True):
    import pandas as pd
    p = p or {}
    recs = _conf_psms(rows, scores, p, observed)
    n = len(recs)
    cols = {"SpecId": ["%sid%d" % (tag, j) for j in range(n)], "Label": [1 if r[0] else -1 for r in recs],
            "ScanNr": [r[5] + 1 for r in recs], "ExpMass": [100.0 + r[5] for r in recs],
            "Peptide": [r[1] for r in recs]}
    for spec in p.get("levels") or []:
        cols[spec[0]] = [_level_value(spec, p.get("lseed", 0), r[1], r[2], r[4]) for r in recs]
    cols["Proteins"] = ["x"] * n
    cols["feat"] = [float(r[3]) for r in recs]
    return pd.DataFrame(cols), [r[3] for r in recs]


def _snap(x, ps):
    """scores travel through delimited text inside assign_confidence and pandas' default float parser is not
    round-trip exact (1 ulp): a reported score within 2^-40 (relative) of a score of the table is that score"""
    if not ps:
        return x
    best = min(ps, key=lambda v: abs(v - x))
    return best if abs(best - x) <= abs(best) * Fraction(1, 2 ** 40) else x


def _run_confidence(c):
    """peptide table -> PSM file -> dataset -> assign_confidence(proteins=...) -> targets/decoys.proteins.
    Presentation (c['pres']): file format, the reader (hand-built OnDiskPsmDataset / read_pin), descs, the confidence
    chunk size, a second collection with its own prefix processed before or after the observed one, files left in
    the destination directory, decoys=False, the rng argument."""
    k = _key(c)
    if k in _CACHE:
        return _CACHE[k]
    import numpy as np
    import pandas as pd
    import mokapot
    from mokapot import OnDiskPsmDataset, assign_confidence
    from .. import brewlib
    P = copy.deepcopy(_proteins(c))
    p = c.get("pres") or {}
    rows = c["rows"]
    sign = -1 if p.get("desc") is False else 1
    ps = _pscores(c)                                  # effective (ranking) scores
    den = exact_den(ps)
    raw = [sign * v for v in ps]                      # what the caller passes as scores
    fmt = p.get("fmt", "tsv")
    d = Path(tempfile.mkdtemp(prefix="conf_", dir=_tmpdir()))
    out_dir = d / "out"
    out_dir.mkdir()
    colls = [(rows, raw, "")]
    if p.get("other") is not None:
        o = p["other"]
        colls.insert(0 if p.get("which", 0) == 1 else 1, (o, [sign * Fraction(r[2]) for r in o], "o"))
    observed = [j for j, x in enumerate(colls) if x[0] is rows][0]
    prefixes = [None] if len(colls) == 1 else ["collA", "collB"]
    np.random.seed(c["seed"] % (1 << 31))
    import mokapot.confidence as mconf
    orig_peps = mconf.peps_from_scores
    # PEPs are outside C15 and the spline fit refuses tables this small: constant stub
    mconf.peps_from_scores = lambda scores, targets, *a, **k: np.full(len(scores), 0.5)
    left = p.get("leftover")
    root = p.get("root") or ""
    more = {}
    if p.get("dedup") is False:
        more["deduplication"] = False
    if root:
        more["file_root"] = root
    if left:
        pre = root + ((prefixes[observed] + ".") if prefixes[observed] else "")
        head = "mokapot protein group\tbest peptide\tstripped sequence\tscore\tq-value\tposterior_error_prob\n"
        for nm in ("targets.proteins", "decoys.proteins"):
            (out_dir / (pre + nm)).write_text(head + "OLDPROT\tK.OLDPEPK.A\tOLDPEPK\t99999.0\t0.0\t0.0\n" if left != "junk" else "junk\n")
        (out_dir / (root + "proteins" + (".parquet" if fmt == "parquet" else ".pin"))).write_text(
            "junk\n" if left != "table" else "PSMId\tLabel\tpeptide\tproteinIds\tscore\nold\tTrue\tK.OLDPEPK.A\tx\t99999.0\n")
    with _Record() as rec:
        def go():
            dss, file_scores = [], []
            lcols = [sp[0] for sp in _level_order(p)]
            for j, (rws, sc, tag) in enumerate(colls):
                df, sc_file = _conf_table(rws, sc, tag, p, j == observed)
                file_scores.append(np.array([float(v) for v in sc_file], dtype=float))
                path = d / ("in%d%s" % (j, ".parquet" if fmt == "parquet" else ".pin"))
                if fmt == "parquet":
                    df.to_parquet(path, index=False)
                else:
                    df.to_csv(path, sep="\t", index=False)
                if p.get("via", "ondisk") == "read_pin" or fmt == "parquet":
                    ds = mokapot.read_pin([path], max_workers=1)[0]
                else:
                    ds = OnDiskPsmDataset(path, columns=list(df.columns), target_column="Label", spectrum_columns=["ScanNr", "ExpMass"],
                                          peptide_column="Peptide", protein_column="Proteins", feature_columns=["feat"],
                                          metadata_columns=["SpecId", "Label", "ScanNr", "ExpMass", "Peptide", "Proteins"] + lcols,
                                          metadata_column_types=["string", "int", "int", "float", "string", "string"]
                                          + ["string"] * len(lcols),
                                          level_columns=["Peptide"] + lcols, filename_column=None, scan_column=None,
                                          specId_column="SpecId", calcmass_column=None, expmass_column=None, rt_column=None,
                                          charge_column=None, spectra_dataframe=df[["ScanNr", "ExpMass", "Label"]])
                dss.append(ds)
            with brewlib.Chunking(confidence=p.get("chunk")):
                assign_confidence(dss, scores=file_scores,
                                  descs=[sign == 1] * len(colls), dest_dir=out_dir, prefixes=prefixes,
                                  decoys=p.get("decoys", True), proteins=P, rng=_rng_arg(p.get("rng"), c["seed"]),
                                  peps_error=False, max_workers=p.get("workers", 1), **more)
            ent = []
            pre = root + ((prefixes[observed] + ".") if prefixes[observed] else "")
            files = [("targets.proteins", True)] + ([("decoys.proteins", False)] if p.get("decoys", True) else [])
            for nm, tflag in files:
                t = pd.read_csv(out_dir / (pre + nm), sep="\t", keep_default_na=False)
                for _, r in t.iterrows():
                    ent.append([[str(r["mokapot protein group"]) or NAN, str(r["best peptide"]), str(r["stripped sequence"]),
                                 int(_snap(Fraction(float(r["score"])), ps) * den), tflag], Fraction(float(r["q-value"]))])
            if not p.get("decoys", True) and (out_dir / (pre + "decoys.proteins")).exists() and not left:
                raise AssertionError("decoys.proteins written with decoys=False")
            return sorted(ent, key=lambda e: e[0])
        res = call_impl(go)
    mconf.peps_from_scores = orig_peps
    shutil.rmtree(d, ignore_errors=True)
    # one picked_protein call per collection, in list order
    order = rec.orders[observed] if len(rec.orders) > observed else []
    dm = rec.dms[observed] if len(rec.dms) > observed else []
    out = {"P": P, "dm": dm, "order": order, "result": res, "den": den, "md_calls": rec.calls}
    _CACHE[k] = out
    return out


# ----------------------------------------------------------------------------- peptides.match_decoy directly
MD_DTYPES = [None, "object", "str", "string", "arrow", "keys"]


def _md_series(vals, dtype, index=None, seed=0):
    """a Series of peptide strings as a caller may hand it to match_decoy"""
    import pandas as pd
    if dtype == "keys" and len(set(vals)) == len(vals):
        ser = pd.Series(dict.fromkeys(vals).keys())         # as group_without_decoys builds its targets
    elif dtype in (None, "keys"):
        ser = pd.Series(vals) if vals else pd.Series(vals, dtype=object)
    elif dtype == "object":
        ser = pd.Series(vals, dtype=object)
    elif dtype == "str":
        ser = pd.Series(vals, dtype="str")
    else:
        ser = pd.Series(vals, dtype={"string": "string[python]", "arrow": "string[pyarrow]"}[dtype])
    labels = _index_labels(index, len(vals), seed) if vals else None
    if labels is not None:
        ser.index = pd.Index(labels)
    return ser


def _run_md(c):
    """the real match_decoy on the case's decoys and targets, then on the same targets in every other order of
    c['orders'] with the SAME seed -> dict(md_calls = the call records of all runs, result = the answer of the first
    run | ('err', 'OrderDependent: ...') when another order of the targets gives another answer)"""
    k = _key(c)
    if k in _CACHE:
        return _CACHE[k]
    import numpy as np
    n = len(c["targets"])
    orders = [list(range(n))] + [o for o in c.get("orders", []) if sorted(o) == list(range(n))]
    calls, answers = [], []
    for o in orders:
        tv = [c["targets"][j] for j in o]
        ds = _md_series(c["decoys"], c.get("dtype"))
        ts = _md_series(tv, c.get("dtype"), c.get("index"), c["seed"])
        before = (list(ds), list(ts), ds.index.copy(), ts.index.copy())
        np.random.seed(c["seed"] % (1 << 31))
        rng = None if c.get("rng") == "global" else _rng_arg(c.get("rng"), c["seed"])
        with _Record() as rec:
            def go():
                out = rec.pp.match_decoy(ds, ts, ignore_mods=bool(c.get("ignore_mods", True)), rng=rng)
                return [[str(d), str(t)] for d, t in out.items()]
            res = call_impl(go)
        if res[0] == "ok" and (list(ds) != before[0] or list(ts) != before[1] or not ds.index.equals(before[2])
                               or not ts.index.equals(before[3])):
            res = ("err", "InputModified: values or row labels of the Series handed to match_decoy")
        calls += rec.calls
        answers.append(res)
    result = answers[0]
    for o, a in zip(orders[1:], answers[1:]):
        if lib.jsonable(a) != lib.jsonable(answers[0]):
            result = ("err", "OrderDependent: targets %r -> %r but the same targets as %r -> %r (same seed)"
                      % (c["targets"], answers[0], [c["targets"][j] for j in o], a))
            break
    out = {"md_calls": calls, "result": result, "runs": len(orders)}
    _CACHE[k] = out
    return out


def _run(c):
    if c["fn"] == "match_decoy":
        return _run_md(c)
    return _run_confidence(c) if c["fn"] == "confidence" else _run_picked(c)


def _md_perm(call):
    """the recorded oracle of a call: the positions its one sample(frac=1) drew (None: no usable record)"""
    sh = call.get("shuffles") or []
    if len(sh) != 1 or call.get("decoys") is None or call.get("targets") is None:
        return None
    return sh[0]["perm"]


def _md_line(call, perm):
    return "c15.match_decoy " + " ".join([lib.b(call["ignore_mods"]), lib.lst(perm), lib.lst(call["decoys"], lib.s),
                                          lib.lst(call["targets"], lib.s)])


def _md_decode(t):
    r = t.result(lambda: t.lst(lambda: [t.s(), t.s()]))
    return [r[0], r[1]]


def _md_models(calls):
    """md_match (Model/MatchDecoy.v) on the recorded arguments and the recorded shuffle of every given call record
    that has no model answer yet; one driver run"""
    lines, todo = [], []
    for x in calls:
        if "model" in x:
            continue
        perm = _md_perm(x)
        if perm is None:
            x["model"] = ["no-oracle", "%d sample(frac=1) calls inside match_decoy" % len(x.get("shuffles") or [])]
        else:
            lines.append(_md_line(x, perm))
            todo.append(x)
    for x, o in zip(todo, lib.run_driver(lines)):
        x["model"] = _md_decode(lib.Toks(o))


def _md_disagreement(c):
    """sub-comparison of a case: every match_decoy call the real code made during the case against md_match on the
    same arguments and the recorded shuffle -> None | message"""
    calls = _run(c).get("md_calls") or []
    if any("model" not in x for x in calls):
        # every call recorded so far and not yet answered, in one driver run
        pend = [x for v in list(_CACHE.values()) if isinstance(v, dict) for x in (v.get("md_calls") or []) if "model" not in x]
        _md_models(pend + [x for x in calls if "model" not in x and not any(x is y for y in pend)])
    for j, x in enumerate(calls):
        if lib.jsonable(x["model"]) != lib.jsonable(x["result"]):
            return ("match_decoy call %d of the case: decoys %r, targets %r, ignore_mods=%r, shuffle %r: real answer %r, "
                    "md_match %r" % (j, x["decoys"], x["targets"], x["ignore_mods"], _md_perm(x), x["result"], x["model"]))
    return None


# ----------------------------------------------------------------------------- model side
def _enc_proteins(P):
    pm = list(P.peptide_map.items())
    sh = list(P.shared_peptides.keys())
    prm = list(P.protein_map.items())
    ps = lib.pair(lib.s, lib.s)
    return " ".join([lib.lst(pm, ps), lib.lst(sh, lib.s), lib.lst(prm, ps), lib.b(P.has_decoys), lib.s(P.decoy_prefix)])


def _model_rows(c):
    """rows in the order the model numbers them, with exact integer scores: a picked_protein case keeps the table
    order; through assign_confidence the peptide-level file is written best (effective) score first and read back with
    labels 0..n-1"""
    ps = _pscores(c)
    den = exact_den(ps)
    rows = [[bool(r[0]), r[1], int(v * den), j] for j, (r, v) in enumerate(zip(c["rows"], ps))]
    if c["fn"] == "confidence":
        rows.sort(key=lambda x: -x[2])
    return rows


def encode(c):
    if c["fn"] == "strip":
        return "c15.strip_all " + lib.lst(c["col"], lib.s)
    r = _run(c)
    if c["fn"] == "match_decoy":
        call = r["md_calls"][0]
        perm = _md_perm(call)
        # no usable shuffle record: the empty shuffle, which md_match refuses unless there is no target (and the
        # sub-comparison reports the missing oracle)
        return _md_line(call, perm if perm is not None else [])
    P = r["P"]
    row = lambda x: " ".join([lib.b(x[0]), lib.s(x[1]), lib.z(x[2])])
    entry = "c15.picked_q " if c["fn"] == "confidence" else "c15.picked "
    return entry + " ".join([_enc_proteins(P), lib.lst(r["dm"], lib.pair(lib.s, lib.s)), lib.lst(r["order"]),
                             lib.lst(_model_rows(c), row)])


def _dec_entry(t):
    return [t.s(), t.s(), t.s(), t.z(), t.b()]


def decode(c, t):
    if c["fn"] == "strip":
        return t.lst(t.s)
    if c["fn"] == "match_decoy":
        return tuple(_md_decode(t))
    if c["fn"] == "confidence":
        r = t.result(lambda: t.lst(lambda: [_dec_entry(t), t.q()]))
        return ("ok", sorted(r[1], key=lambda e: e[0])) if r[0] == "ok" else r
    r = t.result(lambda: t.lst(lambda: _dec_entry(t)))
    return ("ok", sorted(r[1])) if r[0] == "ok" else r


# ----------------------------------------------------------------------------- implementation side
def _impl_strip(col, dtype=None, index=None):
    """strip_peptides on a Series of the given dtype / row labels; the answer must carry the labels of its argument"""
    import pandas as pd
    from mokapot.picked_protein import strip_peptides
    if dtype in (None, "object") or not col:
        ser = pd.Series(col, dtype=object)
    elif dtype == "category":
        ser = pd.Series(col, dtype=object).astype("category")
    elif dtype == "str":
        ser = pd.Series(col)
    else:
        ser = pd.Series(col, dtype={"string": "string[python]", "arrow": "string[pyarrow]"}[dtype])
    if index and col:
        ser.index = pd.Index(_index_labels(index, len(col), len(col)))
    before = list(ser)
    out = strip_peptides(ser)
    if list(ser) != before:
        return ["<argument modified>"]
    if len(out) == len(ser) and not out.index.equals(ser.index):
        return ["<row labels changed>"]
    return [str(v) for v in out]


def impl(c):
    if c["fn"] == "strip":
        if not c["col"]:
            return _impl_strip_empty()
        r = call_impl(_impl_strip, c["col"], c.get("dtype"), c.get("index"))
        return r[1] if r[0] == "ok" else r
    return _run(c)["result"]


def _impl_strip_empty():
    r = call_impl(_impl_strip, [])
    return r[1] if r[0] == "ok" else r


def pair_key(P, group):
    first = group.split(",")[0]
    return P.protein_map.get(first, first)


def first_member(P, group):
    """the first protein of a group, by the identifiers of the database (a group name is its identifiers joined by
    ', '; an identifier that itself contains a comma stays whole)"""
    names = set(P.protein_map.keys()) | set(P.protein_map.values())
    best = None
    for n in names:
        if (group == n or group.startswith(n + ", ")) and (best is None or len(n) > len(best)):
            best = n
    return best if best is not None else group.split(",")[0]


def spec_pair_key(P, group):
    """the target/decoy pair a group belongs to (the property's notion, independent of how the code splits names)"""
    f = first_member(P, group)
    return P.protein_map.get(f, f)


def _has_comma(c):
    return any(ln.startswith(">") and "," in ln[1:].split(" ")[0] for ln in c["fasta"].split("\n"))


def _close(a, b):
    return abs(a - b) <= TOL * abs(b)


def _observed_model(c, m):
    """what of the model's answer the observation shows: with decoys=False only targets.proteins is written"""
    if c["fn"] == "confidence" and m[0] == "ok" and (c.get("pres") or {}).get("decoys") is False:
        return ("ok", [e for e in m[1] if e[0][4]])
    return m


def _same_model(c, m, i):
    if m[0] != i[0]:
        return False
    if m[0] != "ok":
        return m[1] == i[1]
    m = _observed_model(c, m)
    if c["fn"] == "confidence":
        if [e[0] for e in m[1]] != [e[0] for e in i[1]]:
            return False
        return all(_close(b[1], a[1]) for a, b in zip(m[1], i[1]))
    if c.get("ties"):
        P = _run(c)["P"]
        km = sorted((pair_key(P, e[0]), e[3]) for e in m[1])
        ki = sorted((pair_key(P, e[0]), e[3]) for e in i[1])
        return km == ki
    return [list(e) for e in m[1]] == [list(e) for e in i[1]]


def same(c, m, i):
    if c["fn"] == "strip":
        return list(m) == list(i)
    if c["fn"] == "match_decoy":
        return lib.jsonable(m) == lib.jsonable(i) and _md_disagreement(c) is None and oracle(c, i) is None
    if not _same_model(c, m, i):
        return False
    # every match_decoy call of the run (target-only FASTA) against Model/MatchDecoy.v
    if _md_disagreement(c) is not None:
        return False
    # agreement with the model is not enough where the comparison is coarse (tie stream: pair -> score) or the model
    # follows the code by construction (how a group name is split): the property itself must hold on the answer
    return oracle(c, i) is None


def finding_key(c, m, i):
    """structural key of a disagreement that belongs to a known finding (known_findings.json): the input class AND
    the symptom must match"""
    if c["fn"] in ("strip", "match_decoy"):
        return None
    if _is_colliding(c):
        return "picked_protein:column-name-collides-with-internal-column"
    if _has_comma(c) and i[0] == "ok" and (m is None or _same_model(c, m, i)):
        return "picked_protein:protein-identifier-with-comma"
    return None


def nontrivial(c):
    if c["fn"] == "strip":
        return any(ch in s for s in c["col"] for ch in "[(.") or any(s.lower() == s and s for s in c["col"])
    if c["fn"] == "match_decoy":
        # the shuffle matters (a decoy meets two or more targets of its composition) or a decoy goes without a target
        nt = {}
        for t in c["targets"]:
            k = spec_key(t, not c.get("ignore_mods", True))
            nt[k] = nt.get(k, 0) + 1
        return any(nt.get(spec_key(d, True), 0) != 1 for d in c["decoys"])
    if any(r[1] != r[3] for r in c["rows"]):
        return True
    return any(r[3] == "?" for r in c["rows"])


# ----------------------------------------------------------------------------- the property on the implementation's output
def _group_of(P, dm, s):
    g = P.peptide_map.get(s)
    if g is None and not P.has_decoys:
        t = dict((a, b) for a, b in dm).get(s)
        if t is not None:
            tg = P.peptide_map.get(t)
            if tg is not None:
                g = ", ".join(P.decoy_prefix + p for p in tg.split(", "))
    return g


def spec_key(s, mods):
    """composition of a peptide string as match_decoy takes it, written without regular expressions and without the
    model: mods=False -> its characters; mods=True -> its residues, a residue being an upper-case letter with everything
    that follows it up to the next upper-case letter (what precedes the first upper-case letter is a piece of its own)"""
    if not mods:
        return "".join(sorted(s))
    pieces, cur = [], ""
    for ch in s:
        if "A" <= ch <= "Z":
            pieces.append(cur)
            cur = ch
        else:
            cur += ch
    pieces.append(cur)
    return "".join(sorted(pieces))


def _oracle_md(c, i):
    """C15_match_decoy_composition / _injective / _exhausts / _dict and C08_match_decoy_order_independent, read off the
    dict the real match_decoy returned"""
    if i[0] != "ok":
        if str(i[1]).startswith("OrderDependent"):
            return "match_decoy with the same seed depends on the order of the targets: " + str(i[1])[16:]
        if str(i[1]).startswith("InputModified"):
            return "match_decoy changed its arguments (" + str(i[1])[15:] + ")"
        return f"match_decoy({c['decoys']!r}, {c['targets']!r}) failed with {i[1]}"
    from collections import Counter
    tmods = not c.get("ignore_mods", True)
    ds, ts, items = c["decoys"], c["targets"], i[1]
    if len({d for d, _ in items}) != len(items):
        return f"a decoy occurs twice among the items {items!r}"
    for d, t in items:
        if d not in ds or t not in ts:
            return f"pair {(d, t)!r}: not a decoy / not a target of the call"
        if spec_key(d, True) != spec_key(t, tmods):
            return f"pair {(d, t)!r}: the decoy and its target differ in composition"
    over = Counter(t for _, t in items) - Counter(ts)
    if over:
        return f"target {sorted(over)[0]!r} is handed out more often than it occurs among the targets"
    # per composition the first min(#decoys, #targets) decoy occurrences are matched, the others are not
    nt = Counter(spec_key(t, tmods) for t in ts)
    seen, expect = Counter(), []
    for d in ds:
        k = spec_key(d, True)
        if seen[k] < nt.get(k, 0) and d not in expect:
            expect.append(d)
        seen[k] += 1
    got = [d for d, _ in items]
    if got != expect:
        return (f"matched decoys {got!r}; per composition the first min(#decoys, #targets) occurrences must be matched, "
                f"in decoy order: {expect!r}")
    return None


def oracle(c, i):
    if c["fn"] == "strip":
        exp = spec_strip_col(c["col"])
        if list(i) != exp:
            j = [a != b for a, b in zip(i, exp)].index(True) if len(i) == len(exp) else -1
            return (f"strip_peptides({c['col']!r}) = {list(i)!r}; modifications / flanks removed by definition gives {exp!r}"
                    + (f" (row {j})" if j >= 0 else ""))
        return None
    if c["fn"] == "match_decoy":
        return _oracle_md(c, i)
    r = _run(c)
    P, dm = r["P"], r["dm"]
    pres = c.get("pres") or {}
    if P is None or i[0] != "ok":
        if i[0] == "err":
            if str(i[1]).startswith("InputModified"):
                return f"the call changed its arguments ({i[1][15:]}): the caller's peptide table / Proteins object must stay as they were"
            # a table whose every row maps to a protein group must be accepted
            st = spec_strip_col([x[1] for x in c["rows"]])
            if c["rows"] and P is not None and all(_group_of(P, dm, s) is not None for s in st):
                return f"every peptide maps to a protein group but the call failed with {i[1]}"
        return None
    den = r["den"]
    rows = c["rows"]
    sc_int = [int(v * den) for v in _pscores(c)]
    st = spec_strip_col([x[1] for x in rows])
    mapped = []     # (key, group, row index)
    for j, s in enumerate(st):
        g = _group_of(P, dm, s)
        if g is not None:
            mapped.append((spec_pair_key(P, g), g, j))
    best = {}
    for k, g, j in mapped:
        best[k] = max(best.get(k, sc_int[j]), sc_int[j])
    ents = [e[0] for e in i[1]] if c["fn"] == "confidence" else i[1]
    only_targets = c["fn"] == "confidence" and pres.get("decoys") is False
    seen = {}
    for e in ents:
        g, bp, ss, sc, tg = e
        if g == NAN:
            return f"entry without a protein group: {e!r} (its peptide {ss!r} is not a unique peptide of any group)"
        k = spec_pair_key(P, g)
        if k in seen:
            return f"two entries for the protein pair {k!r}: {seen[k]!r} and {e!r}"
        seen[k] = e
        if ss in P.shared_peptides and _group_of(P, dm, ss) is None:
            return f"entry {e!r} is represented by the shared peptide {ss!r}"
        if k not in best:
            return f"entry {e!r}: no retained peptide maps to the pair {k!r}"
        cands = [j for kk, gg, j in mapped if kk == k and gg == g and rows[j][1] == bp and st[j] == ss
                 and sc_int[j] == sc and bool(rows[j][0]) == tg]
        if not cands:
            return f"entry {e!r} is not a row of the table mapped to its group (peptide, stripped sequence, score, flag)"
        if sc != best[k]:
            return f"entry {e!r} has score {sc}/{den} but the best peptide of pair {k!r} scores {best[k]}/{den}"
    for k in best:
        if k not in seen:
            if only_targets and not any(rows[j][0] for kk, gg, j in mapped if kk == k and sc_int[j] == best[k]):
                continue        # the pair is won by a decoy row: its entry is in decoys.proteins, which was not asked for
            return f"protein pair {k!r} has a retained unique peptide but no entry"
    if c["fn"] == "confidence" and not only_targets:
        from .c01 import q_spec
        scs = [e[0][3] for e in i[1]]
        tgs = [e[0][4] for e in i[1]]
        spec = q_spec(scs, tgs, True)
        for e, q in zip(i[1], spec):
            if not _close(e[1], q):
                return f"protein q-value of {e[0][0]!r} is {float(e[1])!r}; the C01 formula over the entries gives {q}"
    return None


def shrink(c):
    if c["fn"] == "strip":
        col = c["col"]
        for f in ("dtype", "index"):
            if c.get(f):
                yield {k: v for k, v in c.items() if k != f}
        for j in range(len(col)):
            if len(col) > 1:
                yield dict(c, col=col[:j] + col[j + 1:])
        for j, s in enumerate(col):
            for k in range(len(s)):
                yield dict(c, col=col[:j] + [s[:k] + s[k + 1:]] + col[j + 1:])
        return
    if c["fn"] == "match_decoy":
        for f in ("dtype", "index", "rng"):
            if c.get(f):
                yield {k: v for k, v in c.items() if k != f}
        ords = c.get("orders") or []
        for j in range(len(ords)):
            if len(ords) > 1:
                yield dict(c, orders=[ords[j]])
        ds, ts = c["decoys"], c["targets"]
        for j in range(len(ds)):
            yield dict(c, decoys=ds[:j] + ds[j + 1:])
        for j in range(len(ts)):
            yield dict(c, targets=ts[:j] + ts[j + 1:],
                       orders=[[x - (x > j) for x in o if x != j] for o in ords])
        for j, d in enumerate(ds):
            for k in range(len(d)):
                yield dict(c, decoys=ds[:j] + [d[:k] + d[k + 1:]] + ds[j + 1:])
        for j, t in enumerate(ts):
            for k in range(len(t)):
                yield dict(c, targets=ts[:j] + [t[:k] + t[k + 1:]] + ts[j + 1:])
        return
    # presentation facets first, one at a time: a failing case ends with the facet that matters
    p = c.get("pres") or {}
    if c.get("index"):
        yield {k: v for k, v in c.items() if k != "index"}
    for f in list(p):
        if f in ("smap", "sdtype"):
            if f == "smap":
                q = {k: v for k, v in p.items() if k not in ("smap", "sdtype")}
                yield dict(c, pres=q) if q else {k: v for k, v in c.items() if k != "pres"}
                if p.get("sdtype") and p["smap"] != [0, 0]:       # keep the dtype, drop the value map
                    c2 = dict(c, pres=dict(p, smap=[0, 0]))
                    if _score_array(_pscores(c2), p["sdtype"]) is not None:
                        yield c2
            continue
        q = {k: v for k, v in p.items() if k != f}
        if f == "extra" and "order" in q:
            del q["order"]
        if f == "desc":                 # the further PSMs are worse than the row of their peptide in ONE direction only
            q.pop("psms", None)
        if f == "psms":
            q.pop("mix", None)
        if f == "lseed" and not p.get("levels"):
            continue
        yield dict(c, pres=q) if q else {k: v for k, v in c.items() if k != "pres"}
    # extra levels one at a time, then towards the plainest kind; further PSMs one at a time
    lv = p.get("levels") or []
    if len(lv) > 1:
        for j in range(len(lv)):
            yield dict(c, pres=dict(p, levels=lv[:j] + lv[j + 1:]))
    ex = p.get("psms") or []
    if len(ex) > 1:
        yield dict(c, pres=dict(p, psms=ex[: len(ex) // 2]))
        yield dict(c, pres=dict(p, psms=ex[len(ex) // 2:]))
        if len(ex) <= 12:
            for j in range(len(ex)):
                yield dict(c, pres=dict(p, psms=ex[:j] + ex[j + 1:]))
    for j, e in enumerate(ex):
        if e[2] is not None:
            yield dict(c, pres=dict(p, psms=ex[:j] + [[e[0], e[1], None]] + ex[j + 1:]))
            break
    rows = c["rows"]
    sd = p.get("sdtype", "float64")
    for j in range(len(rows)):
        yield dict(c, rows=rows[:j] + rows[j + 1:])
    for j, r in enumerate(rows):
        if r[1] != r[3] and r[3] != "?":
            yield dict(c, rows=rows[:j] + [[r[0], r[3], r[2], r[3]]] + rows[j + 1:])
    if p.get("other"):
        o = p["other"]
        for j in range(len(o)):
            yield dict(c, pres=dict(p, other=o[:j] + o[j + 1:]))


# ----------------------------------------------------------------------------- exhaustive regex comparison
def _all_strings(alpha, maxlen):
    for n in range(maxlen + 1):
        for tup in itertools.product(alpha, repeat=n):
            yield "".join(tup)


def extra_checks(ctx):
    fails, info = [], {}
    L = 7 if ctx.thorough else 6
    S = 5 if ctx.thorough else 4
    strs = list(_all_strings(ALPHA, L))
    # (a) the three substitutions one by one against `re` (same expressions as the source)
    subs = [("unmod", re.compile(r"[\[\(].*?[\]\)]")), ("unprefix", re.compile(r"^.*?\.")),
            ("before_dot", re.compile(r"\..*?$"))]
    nre = 0
    for name, rx in subs:
        outs = lib.run_driver(["c15.%s %s" % (name, lib.s(s)) for s in strs])
        for s, o in zip(strs, outs):
            got = lib.Toks(o).s()
            nre += 1
            if got != rx.sub("", s):
                fails.append({"what": f"scanner st_{name} differs from re.sub({rx.pattern!r}) on {s!r}: {got!r} vs {rx.sub('', s)!r}",
                              "failing_input": None})
                break
    # (b) the whole set as one column through the real strip_peptides (else-branch of the lower-case rule)
    got = _impl_strip(strs)
    mod = lib.Toks(lib.run_driver(["c15.strip_all " + lib.lst(strs, lib.s)])[0]).lst(lambda: None) if False else None
    t = lib.Toks(lib.run_driver(["c15.strip_all " + lib.lst(strs, lib.s)])[0])
    mod = t.lst(t.s)
    bad = [s for s, a, b in zip(strs, got, mod) if a != b]
    if bad or len(got) != len(mod):
        s = min(bad, key=len) if bad else ""
        fails.append({"what": f"strip_peptides and the model differ on {len(bad)} of {len(strs)} strings (as one column), e.g. {s!r}",
                      "failing_input": {"fn": "strip", "col": [s, "A"], "tags": ["strip", "from-exhaustive"]}})
    # (c) one-row columns (both branches)
    small = list(_all_strings(ALPHA, S))
    outs = lib.run_driver(["c15.strip_all " + lib.lst([s], lib.s) for s in small])
    nsingle = 0
    for s, o in zip(small, outs):
        t = lib.Toks(o)
        m = t.lst(t.s)
        g = _impl_strip([s])
        nsingle += 1
        if m != g:
            fails.append({"what": f"strip_peptides([{s!r}]) = {g!r} but the model gives {m!r}",
                          "failing_input": {"fn": "strip", "col": [s], "tags": ["strip", "from-exhaustive"]}})
            break
    info["exhaustive_strip_sweep"] = {"alphabet": ALPHA, "regex_vs_scanner_strings": len(strs), "regex_comparisons": nre,
                          "column_len": len(strs), "single_row_columns": nsingle}
    # (d) oracle contracts on the recorded values: DataFrame.sample(frac=1) draws every retained row exactly once
    nord = ndup = nmiss = 0
    for k, v in list(_CACHE.items()):
        if not isinstance(k, str) or not isinstance(v, dict) or "order" not in v or v["result"][0] != "ok":
            continue
        c = json.loads(k)
        if _is_colliding(c):
            continue
        nord += 1
        if len(set(v["order"])) != len(v["order"]):
            ndup += 1
        st = spec_strip_col([x[1] for x in c["rows"]])
        need = {jm for jm, x in enumerate(_model_rows(c)) if _group_of(v["P"], v["dm"], st[x[3]]) is not None}
        if not need <= set(v["order"]):
            nmiss += 1
    # (e) match_decoy: the recorded shuffles are permutations of the positions (oracle contract of md_match), and what
    # sample received was the sorted target list
    nsh = nbad = nunsorted = 0
    for v in list(_CACHE.values()):
        if not isinstance(v, dict):
            continue
        for x in v.get("md_calls") or []:
            for sh in x.get("shuffles") or []:
                nsh += 1
                if sorted(sh["perm"]) != list(range(len(x["targets"] or []))):
                    nbad += 1
                if sh["values"] != sorted(x["targets"] or []):
                    nunsorted += 1
    # (f) composition keys and the sort against the real residue_sort / sort_values on every string over {A,B,a,[} up to
    # length 5 (6)
    from mokapot.peptides import residue_sort
    import pandas as pd
    kstrs = list(_all_strings("ABa[", 6 if ctx.thorough else 5))
    nkey = 0
    for im, entry in ((True, "c15.md_key_plain"), (False, "c15.md_key_mods")):
        real = {}
        for key, peps in residue_sort(pd.Series(kstrs), im).items():
            for q in peps:
                real[q] = key
        outs = lib.run_driver(["%s %s" % (entry, lib.s(x)) for x in kstrs])
        for x, o in zip(kstrs, outs):
            nkey += 1
            got = lib.Toks(o).s()
            if got != real.get(x) or got != spec_key(x, not im):
                fails.append({"what": f"composition key of {x!r} (ignore_mods={im}): residue_sort {real.get(x)!r}, "
                                      f"model {got!r}, specification {spec_key(x, not im)!r}", "failing_input": None})
                break
    srng = ctx.sub("md-sort")
    nsort = 0
    lists = [[srng.choice(kstrs[:400]) for _ in range(srng.randint(0, 12))] for _ in range(300 if ctx.thorough else 80)]
    outs = lib.run_driver(["c15.md_sort_strs " + lib.lst(l, lib.s) for l in lists])
    for l, o in zip(lists, outs):
        t = lib.Toks(o)
        got = t.lst(t.s)
        nsort += 1
        if got != pd.Series(l, dtype="str").sort_values().to_list() or got != sorted(l):
            fails.append({"what": f"sort_values of {l!r}: model {got!r}", "failing_input": None})
            break
    info["match_decoy_checks"] = {"shuffles_recorded": nsh, "not_a_permutation": nbad, "sample_input_not_sorted": nunsorted,
                                  "composition_keys_compared": nkey, "sorts_compared": nsort}
    if nbad:
        fails.append({"what": f"Series.sample contract broken: {nbad} of {nsh} recorded shuffles inside match_decoy are no "
                              f"permutation of the target positions", "failing_input": None})
    info["oracle_contract_checks"] = {"sample_orders_checked": nord, "with_duplicates": ndup, "missing_retained_rows": nmiss}
    if ndup or nmiss:
        fails.append({"what": f"DataFrame.sample contract broken: {ndup} orders with duplicated labels, {nmiss} not covering "
                              f"the retained rows", "failing_input": None})
    return fails, info
