"""C14 — k-way merge: correspondence of Model/Merge.v with mokapot.utils.merge_sort (row-dict merge over
tsv/csv/Parquet files) and mokapot.streaming.MergedTabularDataReader / merge_readers (table merger).

A case is a list of inputs, each a list of rows [score image, row id] (what the model sees), plus a description of
how these rows exist physically (`phys`): column names and order, row labels of the frames, missing payload values,
the class of the score values, the kind of reader that delivers them, optional arguments of the call, how often / in
which order the call is made, and (phys.text) how the numbers of a text input are PRINTED (`7` or `7.0`, `+7`, `007`,
`3e2`), which decides the column types a chunk-wise reader infers.  The model knows nothing of the physical side: every physical variation has to leave the
result (as a sequence of [image, id]) what the model computes, and every returned row has to be, field by field, the
row that was written."""
import atexit
import copy
import itertools
import json
import math
import re
import shutil
import struct
import tempfile
import zlib
from fractions import Fraction
from pathlib import Path

from .. import lib

PROP = "C14"
RULE = ("cases: (1) exhaustive: every way to put <=5 (quick) / <=7 (thorough) rows with scores from {1,2,3} into "
        "<=3 inputs (0 inputs; every 4th of the shapes with an empty input), each input sorted; each shape is run through the table "
        "merger descending (row iterator) and ascending (read / chunked / merge_readers / row types in rotation) and "
        "through utils.merge_sort on real tsv files (Parquet for every 3rd), reader chunk sizes rotating over 1..n+1; "
        "(2) random sorted inputs: 1..8 inputs of 1..N rows, score pools of 1..10^6 values (dense ties to none), int and "
        "dyadic-float scores, reader chunk 1..N+1, output chunk 1..total+1, DataFrame/tsv/Parquet-backed readers, "
        "Parquet row groups of 1, 2 or all rows; (3) malformed stream: one adjacent inversion (first / last / random "
        "position), shuffled input, wrong declared direction, empty input, no input - error kind and the rows yielded "
        "before the error are compared for the table merger, the full sequence for merge_sort (it has no check); "
        "(4) physical stream (white-box review): 1..12 sorted inputs whose PHYSICAL form is varied independently of the "
        "scores: column names (with blanks, Python keywords, leading underscore / digit, 'index', 'level_0'), column "
        "order (score first / middle / last; a different order per file for merge_sort), row labels of DataFrame inputs "
        "(RangeIndex, shifted, permuted, all-duplicate, string labels), missing values in the payload columns (also a "
        "nullable 2^53+odd integer column in Parquet), score classes (dyadic int / float; special floats: +-inf, +-0.0, "
        "subnormal, neighbouring doubles, 1e300; integers around 2^53 and 2^62 that differ by 1; int and float inputs "
        "mixed in one merge_sort call), reader kinds as brew_rollup builds them (ColumnMappedReader, "
        "ComputedTabularDataReader, JoinedTabularDataReader, a MergedTabularDataReader as input of another), text "
        "suffixes .tsv/.csv/.psms/.peptides/.txt, the `columns` projection of read / chunked / row iterator, omitted "
        "`descending` / `reader_chunk_size` (defaults), the call repeated on the same reader object or two iterators "
        "consumed alternately; DataFrame inputs are checked to be untouched afterwards; (5) malformed variants of (4) "
        "(inversion between values that differ by one unit in the last place / by 1 above 2^53, wrong direction); "
        "(6) inputs longer than the DEFAULT chunk sizes (MERGE_SORT_CHUNK_SIZE = 20000 rows, reader_chunk_size = 1000 rows) "
        "with the defaults left alone; "
        "(7) text inputs as OTHER tools write them (round 4): tab-separated files written cell by cell, numbers printed "
        "without '.0' on whole values (7, 4.75), with a leading '+', with leading zeros (007), with exponents (3e2, 1e+05, "
        "475e-2), as pandas prints them, or a mixture per cell; the score column of every input has a whole-numbered head and "
        "a fractional tail / the other way round / is whole-numbered or fractional throughout / mixed (merge_sort: an own "
        "pattern per file), a float payload column has runs of whole values, a string payload column looks like an "
        "integer column or is empty in the first rows; crossed with reader chunk sizes 1, 2, h-1, h, h+1, n, n+1 around "
        "the row h where the kind of number changes, ascending and descending, every way of reading the table merger and "
        "utils.merge_sort with a patched-down MERGE_SORT_CHUNK_SIZE, plus inputs that stay whole-numbered up to the end "
        "of the first DEFAULT-sized chunk (20000 rows for merge_sort, 1000 rows for the table merger) and turn fractional "
        "after it; one inversion / the wrong direction on these files (malformed variants). Cells of these text files "
        "are compared by NUMERIC VALUE (the integer 7 and the float 7.0 are both the cell `7`; 4 is not 4.75); a text "
        "case of the table merger whose files start with different kinds of numbers in the first two rows is a known "
        "finding (the constructor rejects it), about 5 % of the table cases of (7) are of that kind on purpose. "
        "Rows carry a unique id and payload columns; every returned row is compared field by field (value, type, "
        "missingness, key order) with the row written, and full row sequences (including order among ties) are "
        "compared with the model. distinct = distinct (entry, configuration, inputs); non-trivial = >=2 inputs and (a score shared by "
        "two inputs, or a single-row input, or an unsorted input)")
ASSUMPTIONS = [
    "scores are not NaN (NaN has no place in a sorted sequence); +-inf, +-0.0 and subnormal scores are generated",
    "utils.get_next_row compares float(score): for integer scores of magnitude >= 2^53 the model of merge_sort is given "
    "the float image (the order the code sees), and the property itself (exact order) is evaluated separately on those "
    "cases - see known finding merge_sort:int-scores-compared-as-float. The table merger is modelled with exact integers",
    "scores are passed to the model as exact integer images (value * 4 for the dyadic float columns, the order-preserving "
    "integer image of the IEEE bit pattern for the special floats), so order and ties are the implementation's own",
    "the model has no chunking: both merges consume per-input row iterators; independence of the reader chunk size "
    "(MERGE_SORT_CHUNK_SIZE, reader_chunk_size, Parquet row-group size) and of the output chunk size is established "
    "by running the real readers with chunk sizes 1..N+1 (and the defaults on inputs longer than a chunk) against the "
    "same model output",
    "all inputs of one utils.merge_sort call have the same file type (the code picks the iterator from paths[0])",
    "a projection passed as `columns` contains the priority column and the id column (without the priority column the "
    "table merger raises KeyError; the property does not speak about that)",
    "a MergedTabularDataReader used as INPUT of another one is only generated with sorted inputs (the inner merger "
    "pre-fetches, so the rows yielded before a rejection differ from the flat model)",
    "MOKAPOT_MERGE_SORT_CHUNK_SIZE is read at import time; the chunk size is varied through the module attribute instead",
    "a cell of a TEXT input has no type: pandas infers the column types chunk by chunk, so the same cell `7` of a float "
    "column comes back as the integer 7 in one chunking and as the float 7.0 in another, and `1001` of a string column "
    "as 1001, 1001.0 or '1001'. In stream (7) 'unmodified' therefore means: the returned value is a number that is "
    "EXACTLY equal (Python int/float comparison, no rounding) to the number printed in the file - 4 for `4.75` is a "
    "violation - or, for a string cell, the same string or (if it is all digits) that integer; ids and the 2^53+odd "
    "integer column must come back as Python ints in every chunking. Streams (1)-(6) (files written by "
    "DataFrame.to_csv, which prints 7.0) keep the strict comparison of value AND type. Scores of stream (7) are "
    "multiples of 0.25 below 2^33, exact as int64 and as float64 alike",
    "which column types a reader reports for a text file (CSVFileReader.get_column_types looks at two rows) is not "
    "part of the property; that the table merger refuses to merge text files whose first two rows look like different "
    "types IS held against it: known finding table:text-column-types-from-first-two-rows",
]
TRUSTED_EXTRA = ["pandas / pyarrow (de)serialisation of the generated tables (rows are checked field by field against "
                 "what was written: id, score, payload columns; special float values were chosen to survive pandas' "
                 "text round trip, which is verified when a file is written; every hand-written text file of stream (7) "
                 "is read back in one piece with pandas.read_csv and compared with the numbers that were meant)"]

SCALE = 4
COLS = ["id", "score", "tag", "aux"]
NCOLS = ["id", "score", "big"]
VIAS = ["rows-Dicts", "read", "chunked", "merge_readers", "rows-DataFrame", "rows-Records"]
STREAM_VIAS = ("merge_readers", "rows-Dicts", "rows-DataFrame", "rows-Records")
BIG = 2 ** 53 + 1
KEY_FLOAT = "merge_sort:int-scores-compared-as-float"
KEY_HDR = "table:text-column-types-from-first-two-rows"
# how a number is printed in a text input that was NOT written by DataFrame.to_csv (phys.text.style):
#   g      7 / 4.75 (printf %g, awk, R, ...: no ".0" on whole numbers)     plus   +7 / +4.75
#   zeros  007 / 004.75                                                    exp    3e2 / 1e+05 / 475e-2 (7 stays 7)
#   pandas 7.0 / 4.75 (what to_csv prints)                                 mix    one of the five per cell
TEXT_STYLES = ["g", "plus", "zeros", "exp", "pandas"]

NAME_POOL = {
    "id": ["id", "SpecId", "spec id", "index", "level_0", "0"],
    "score": ["score", "mokapot score", "q-value", "class", "1"],
    "tag": ["tag", "def", "peptide seq", "_tag"],
    "aux": ["aux", "_aux", "2nd", "lambda"],
    "big": ["big", "_big", "big int"],
}
TEXT_SUFFIXES = [".tsv", ".csv", ".psms", ".peptides", ".txt"]

_TMP = None
_FILES = {}
_FLOAT_FINDINGS = []


def _tmpdir():
    global _TMP
    if _TMP is None:
        _TMP = tempfile.mkdtemp(prefix="c14_")
        atexit.register(shutil.rmtree, _TMP, True)
    return _TMP


class Modified(Exception):
    pass


def _kind(e):
    """error kind of an exception of the implementation; a row that is not the row written keeps its description"""
    if isinstance(e, Modified):
        return f"Modified: {e}"[:240]
    return lib.err_kind(e)


# ----------------------------------------------------------------------------- score images
def fkey(f):
    """order-preserving integer image of a double (-0.0 and 0.0 both map to 0)"""
    u = struct.unpack(">Q", struct.pack(">d", float(f)))[0]
    return -(u & (2 ** 63 - 1)) if u >> 63 else u


def unkey(k, neg_zero=False):
    if k == 0:
        return -0.0 if neg_zero else 0.0
    u = k if k > 0 else (2 ** 63 | -k)
    return struct.unpack(">d", struct.pack(">Q", u))[0]


_INF = float("inf")
# every value survives DataFrame.to_csv -> read_csv bit for bit (checked again when a file is written)
SPECIAL_FLOATS = [-_INF, -1.7976931348623157e308, -1e300, -2.5, -1.0000000000000002, -1.0, -5e-324, 0.0, 5e-324,
                  2.2250738585072014e-308, 1e-7, 0.1, 0.3, 1.0, 1.0000000000000002, 1.0000000000000004, 1e16, 1e16 + 2,
                  6.02214076e23, 1e300, 1.7976931348623157e308, _INF]
FB_KEYS = sorted(fkey(x) for x in SPECIAL_FLOATS)
HUGE_INTS = sorted([2 ** 53 + d for d in range(-1, 6)] + [-(2 ** 53) - d for d in range(0, 4)]
                   + [2 ** 62 + d for d in range(0, 4)] + [0, 1, 2 ** 31, 2 ** 63 - 1, -(2 ** 63) + 1])


def _ph(c, key, default=None):
    return (c.get("phys") or {}).get(key, default)


def _idb(c):
    return int(_ph(c, "idb", 100))


def _in_dtype(c, j):
    ds = _ph(c, "dtypes")
    return ds[j] if ds else c["dtype"]


def _score_value(c, j, k, i):
    """the Python value of the score of row i (exact image k) of input j"""
    sc = _ph(c, "sclass")
    if sc == "fbits":
        return unkey(int(k), neg_zero=bool(i % 2))
    if sc == "hugeint":
        return int(k)
    dt = _in_dtype(c, j)
    if dt == "int":
        return int(k)
    if dt == "int4":
        if int(k) % SCALE:
            raise ValueError("int4 image not a multiple of 4")
        return int(k) // SCALE
    return int(k) / SCALE


def _score_is_int(c, j):
    return _ph(c, "sclass") == "hugeint" or (_ph(c, "sclass") is None and _in_dtype(c, j) in ("int", "int4"))


def _model_image(c, k):
    """the image the MODEL is given: merge_sort compares float(score)"""
    if c["fn"] == "merge_sort" and _ph(c, "sclass") == "hugeint":
        return int(float(int(k)))
    return int(k)


# ----------------------------------------------------------------------------- physical tables
def _layout(c):
    return c.get("layout", "mixed") if c["fn"] == "merge_sort" else "mixed"


def _lorder(c, j=0):
    """logical columns in physical order (input j of a merge_sort call may have its own rotation)"""
    base = list(_ph(c, "order") or (COLS if _layout(c) == "mixed" else NCOLS))
    if _ph(c, "rot") and c["fn"] == "merge_sort":
        r = j % len(base)
        base = base[r:] + base[:r]
    return base


def _pname(c, logical):
    return (_ph(c, "names") or {}).get(logical, logical)


def _nullable_big(c):
    return bool(_ph(c, "nulls")) and c["fn"] == "merge_sort" and c.get("fmt") == "parquet" and _layout(c) == "numeric"


def _text(c):
    """phys.text: the input files are text files whose numbers are printed as other tools print them"""
    return _ph(c, "text")


def _payload(c, logical, i):
    p = i % _idb(c)
    nulls = bool(_ph(c, "nulls"))
    tx = _text(c)
    if tx and logical == "tag":
        # a string column that looks like an integer column / is empty in the first rows of every file
        if nulls and p % 4 == 3:
            return None
        if tx["tag"] == "int-head" and p < int(tx["q"]):
            return str(i + 1)
        if tx["tag"] == "empty-head" and p < int(tx["q"]):
            return None
        return f"r{i}"
    if tx and logical == "aux":
        # a float column with runs of whole numbers: printed without ".0" these rows look like integers
        if nulls and p % 3 == 2:
            return None
        if tx["aux"] == "empty-head" and p < int(tx["q"]):
            return None
        frac = (p % 4 == 0) if tx["aux"] == "frac-first" else (p % 4 == 3)
        return float(i) + (0.25 if frac else 0.0)
    if logical == "tag":
        return None if nulls and p % 4 == 3 else f"r{i}"
    if logical == "aux":
        return None if nulls and p % 3 == 2 else i * 0.5
    if logical == "big":
        return None if _nullable_big(c) and p % 3 == 2 else BIG + 2 * i
    raise KeyError(logical)


def _expected(c):
    """id -> (input number, exact image, {logical column: value})"""
    out = {}
    for j, inp in enumerate(c["inputs"]):
        for k, i in inp:
            vals = {"id": int(i), "score": _score_value(c, j, k, i)}
            for l in _lorder(c):
                if l not in vals:
                    vals[l] = _payload(c, l, int(i))
            out[int(i)] = (j, int(k), vals)
    return out


def _index_for(mode, n, j):
    if mode == "shift":
        return list(range(5 + j, 5 + j + n))
    if mode == "perm":
        return [(7 * q + 3) % n for q in range(n)] if n % 7 else list(range(n - 1, -1, -1))
    if mode == "dups":
        return [j % 2] * n
    if mode == "str":
        return [f"row{(q * 5) % 3}" for q in range(n)]
    return None


def _build_df(c, j, rows):
    """the table of input j as a DataFrame: physical names, physical order, row labels of phys.index"""
    import numpy as np
    import pandas as pd
    ids = [int(r[1]) for r in rows]
    cols = {}
    for l in _lorder(c, j):
        if l == "id":
            v = np.array(ids, dtype="int64")
        elif l == "score":
            vals = [_score_value(c, j, r[0], int(r[1])) for r in rows]
            v = np.array(vals, dtype="int64" if _score_is_int(c, j) else "float64")
        elif l == "tag":
            v = pd.Series([_payload(c, l, i) for i in ids], dtype=object)
        elif l == "aux":
            v = np.array([float("nan") if _payload(c, l, i) is None else _payload(c, l, i) for i in ids], dtype="float64")
        else:
            v = np.array([BIG + 2 * i for i in ids], dtype="int64")       # nulls of `big`: see _write
        cols[_pname(c, l)] = v
    df = pd.DataFrame(cols)
    idx = _index_for(_ph(c, "index", "range"), len(df), j)
    if idx is not None:
        df.index = idx
    return df


def _num_text(v, style, salt):
    """a finite float printed in one of TEXT_STYLES; every form parses back to exactly v (verified when written)"""
    v = float(v)
    if style == "mix":
        style = TEXT_STYLES[salt % len(TEXT_STYLES)]
    if style == "pandas":
        return repr(v)
    whole = v == int(v)
    body = str(int(v)) if whole else repr(v)
    if "e" in body or "n" in body:
        raise RuntimeError(f"harness: {v!r} is outside the range of the text styles")
    if style == "plus":
        return "+" + body if v > 0 else body
    if style == "zeros":
        return ("-00" + body[1:]) if body.startswith("-") else "00" + body
    if style == "exp":
        if whole and v != 0 and int(v) % 10 == 0:
            m, e = int(v), 0
            while m % 10 == 0:
                m, e = m // 10, e + 1
            return f"{m}e+{e:02d}" if salt % 2 else f"{m}e{e}"
        if not whole and v * 100 == int(v * 100):
            return f"{int(v * 100)}e-2"
    return body


def _cell_kind(t):
    """what a cell of a text file looks like to a type-inferring reader"""
    if t == "":
        return "e"
    if re.fullmatch(r"[+-]?[0-9]+", t):
        return "i"
    try:
        float(t)
        return "f"
    except ValueError:
        return "s"


def _col_kind(kinds):
    """the column type pandas infers for cells of these kinds: i(nt64) / f(loat64) / s(tr)"""
    if "s" in kinds:
        return "s"
    if "f" in kinds or "e" in kinds:
        return "f"
    return "i"


def _styled_cells(df, style):
    """DataFrame -> (column names, rows of cell texts): float columns in `style`, missing cells empty"""
    names = [str(x) for x in df.columns]
    cols = []
    for name in names:
        col = df[name]
        salt0 = zlib.crc32((name[4:] if name.startswith("src ") else name).encode())
        vals = col.tolist()
        if str(col.dtype) == "float64":
            cols.append(["" if v != v else _num_text(v, style, salt0 + 7 * q) for q, v in enumerate(vals)])
        elif str(col.dtype) == "int64":
            cols.append([str(int(v)) for v in vals])
        else:
            cols.append(["" if _missing(v) else str(v) for v in vals])
    return names, [list(r) for r in zip(*cols)] if cols else []


def _write_styled(p, df, style):
    import pandas as pd
    names, rows = _styled_cells(df, style)
    for t in names + [x for r in rows for x in r]:
        if "\t" in t or "\n" in t or '"' in t:
            raise RuntimeError(f"harness: cell {t!r} needs quoting")
    with open(p, "w") as f:
        f.write("\t".join(names) + "\n")
        for r in rows:
            f.write("\t".join(r) + "\n")
    # the file read in ONE piece holds what was meant (the text forms are exact)
    back = pd.read_csv(p, sep="\t", index_col=False)
    if [str(x) for x in back.columns] != names or len(back) != len(df):
        raise RuntimeError(f"harness: styled text file {p} does not read back: {list(back.columns)} / {len(back)} rows")
    for name in names:
        if str(df[name].dtype) in ("float64", "int64"):
            a, b = df[name].tolist(), back[name].tolist()
            if any(not ((x != x and y != y) or x == y) for x, y in zip(a, b)):
                raise RuntimeError(f"harness: column {name} of a styled text file does not read back exactly")


def _header_sig(c, j, rows):
    """the column types a reader infers from the first two rows of text input j (what CSVFileReader.get_column_types
    does), as a string of i / f / s per column"""
    df = _build_df(c, j, rows[:2])
    _, cells = _styled_cells(df, _text(c)["style"])
    return "".join(_col_kind([_cell_kind(r[q]) for r in cells]) for q in range(len(df.columns)))


def _header_sigs(c):
    return [_header_sig(c, j, rows) for j, rows in enumerate(c["inputs"]) if rows]


def _write(key, df, fmt, suffix, rg, null_big=None, check_floats=None, style=None):
    """a (cached) real file; fmt: text (tab separated, as mokapot reads and writes) / parquet"""
    p = _FILES.get(key)
    if p is not None:
        return p
    p = Path(_tmpdir()) / f"f{len(_FILES)}{suffix}"
    if style and fmt != "parquet":
        _write_styled(p, df, style)
        _FILES[key] = p
        return p
    if fmt == "parquet":
        kw = {} if not rg else {"row_group_size": int(rg)}
        if null_big:
            # written by pyarrow directly (no pandas metadata): an int64 column with nulls
            import pyarrow as pa
            import pyarrow.parquet as pq
            name, missing = null_big
            arrays = []
            for col in df.columns:
                vals = df[col].tolist()
                if col == name:
                    arrays.append(pa.array([None if q in missing else int(v) for q, v in enumerate(vals)], type=pa.int64()))
                else:
                    arrays.append(pa.array(vals))
            pq.write_table(pa.Table.from_arrays(arrays, names=[str(x) for x in df.columns]), p, **kw)
        else:
            df.to_parquet(p, index=False, **kw)
    else:
        import pandas as pd
        df.to_csv(p, sep="\t", index=False)
        if check_floats:
            back = pd.read_csv(p, sep="\t")[check_floats[0]].tolist()
            if [struct.pack(">d", float(x)) for x in back] != [struct.pack(">d", float(x)) for x in check_floats[1]]:
                raise RuntimeError(f"harness: float scores do not survive the text round trip: {check_floats[1]} -> {back}")
    _FILES[key] = p
    return p


def _file_of_input(c, j, rows, df=None, fmt=None):
    fmt = fmt or c.get("fmt") or c.get("backing")
    df = _build_df(c, j, rows) if df is None else df
    kind = "parquet" if fmt == "parquet" else "text"
    suffix = ".parquet" if kind == "parquet" else (_ph(c, "suffix") or "." + fmt)
    nb = None
    if _nullable_big(c):
        nb = [_pname(c, "big"), [q for q, r in enumerate(rows) if _payload(c, "big", int(r[1])) is None]]
    cf = None
    sn = _pname(c, "score")
    if kind == "text" and _ph(c, "sclass") == "fbits" and sn in df.columns:
        cf = [sn, df[sn].tolist()]
    key = lib.stable_hash([kind, suffix, c.get("rg") if kind == "parquet" else None, [str(x) for x in df.columns],
                           [str(t) for t in df.dtypes], [[int(a), int(b)] for a, b in rows], _ph(c, "sclass"),
                           _in_dtype(c, j), bool(_ph(c, "nulls")), _idb(c), nb, _text(c)])
    return _write(key, df, kind, suffix, c.get("rg"), nb, cf, style=(_text(c) or {}).get("style"))


# ----------------------------------------------------------------------------- checking returned rows
def _py(v):
    return v.item() if hasattr(v, "item") else v


def _missing(v):
    if v is None:
        return True
    try:
        import pandas as pd
        if v is pd.NA or v is pd.NaT:
            return True
    except Exception:
        pass
    return isinstance(v, float) and v != v


def _is_number(v):
    return isinstance(v, (int, float)) and not isinstance(v, bool)


def _same_value(exp, got, text=False):
    """text=False: same value AND same Python type.  text=True (inputs are text files with numbers printed as other
    tools print them; a reader that infers types chunk by chunk may return the integer 7 for the cell `7` and the float
    7.0 for the same cell in another chunking): a float cell is compared by its numeric value (exactly: Python compares
    int with float without rounding), a string cell that looks like an integer may come back as that number"""
    got = _py(got)
    if exp is None:
        return _missing(got)
    if text and isinstance(exp, float):
        return _is_number(got) and got == exp
    if text and isinstance(exp, str) and re.fullmatch(r"[1-9][0-9]*", exp) and _is_number(got):
        return got == int(exp)
    if isinstance(exp, str):
        return isinstance(got, str) and got == exp
    if isinstance(exp, bool):
        return isinstance(got, bool) and got == exp
    if isinstance(exp, int):
        return isinstance(got, int) and not isinstance(got, bool) and got == exp
    if isinstance(exp, float):
        return (isinstance(got, float) and got == exp and math.copysign(1.0, got) == math.copysign(1.0, exp))
    return False


class _Expect:
    """what a returned row has to look like"""

    def __init__(self, c, projected=True):
        self.c = c
        self.rows = _expected(c)
        self.text = bool(_text(c))
        self.idn = _pname(c, "id")
        cols = _ph(c, "columns") if projected else None
        self.proj = list(cols) if cols else None

    def logical(self, j):
        return self.proj if self.proj is not None else _lorder(self.c, j)

    def names(self, j=0):
        return [_pname(self.c, l) for l in self.logical(j)]

    def canon(self, d):
        """dict-like returned row -> [exact score image, id]; raises Modified if it is not a row that was written"""
        keys = [str(k) for k in d.keys()]
        if self.idn not in keys:
            raise Modified(f"columns {keys}")
        i = _py(d[self.idn])
        if isinstance(i, bool) or not isinstance(i, int):
            raise Modified(f"id {i!r} is not the integer that was written")
        e = self.rows.get(i)
        if e is None:
            raise Modified(f"row id {i} was never written")
        j, k, vals = e
        if keys != self.names(j):
            raise Modified(f"columns {keys} instead of {self.names(j)}")
        for l in self.logical(j):
            got = d[_pname(self.c, l)]
            if not _same_value(vals[l], got, self.text):
                raise Modified(f"column {l} of row {i}: {_py(got)!r} ({type(_py(got)).__name__}) instead of {vals[l]!r}")
        return [k, i]

    def of_df(self, df, check_dtypes=True):
        if [str(x) for x in df.columns] != self.names(0):
            raise Modified(f"columns {list(df.columns)} instead of {self.names(0)}")
        if list(df.index) != list(range(len(df))):
            raise Modified(f"index {list(df.index)}")
        if check_dtypes and len(df) and not self.text:     # text inputs: dtypes follow the reader's chunks; values are checked
            want = {"id": "int64", "score": "int64" if _score_is_int(self.c, 0) else "float64"}
            if not _ph(self.c, "nulls"):
                want.update({"aux": "float64", "big": "int64"})
            for l in self.logical(0):
                if l in want and str(df[_pname(self.c, l)].dtype) != want[l]:
                    raise Modified(f"dtype of {l}: {df[_pname(self.c, l)].dtype}")
        return [self.canon(d) for d in df.to_dict(orient="records")]


# ----------------------------------------------------------------------------- real code: merge_sort
def _drain_alternately(mk):
    """two iterators of the same call, advanced in turns -> [(rows, error kind)] * 2"""
    res = []
    its = []
    for _ in range(2):
        try:
            its.append(mk())
        except BaseException as e:  # noqa
            if isinstance(e, (KeyboardInterrupt, SystemExit, MemoryError)):
                raise
            its.append(e)
    out = [[[], None], [[], None]]
    live = [True, True]
    for n, it in enumerate(its):
        if isinstance(it, BaseException):
            out[n][1] = _kind(it)
            live[n] = False
    while any(live):
        for n in range(2):
            if not live[n]:
                continue
            try:
                out[n][0].append(next(its[n]))
            except StopIteration:
                live[n] = False
            except BaseException as e:  # noqa
                if isinstance(e, (KeyboardInterrupt, SystemExit, MemoryError)):
                    raise
                out[n][1] = _kind(e)
                live[n] = False
    return out


def _run_merge_sort(c):
    import mokapot.utils as U
    import mokapot.constants as K
    paths = [_file_of_input(c, j, rows) for j, rows in enumerate(c["inputs"])]
    X = _Expect(c, projected=False)
    old = (U.MERGE_SORT_CHUNK_SIZE, K.MERGE_SORT_CHUNK_SIZE)
    if int(c["rchunk"]) > 0:                 # 0: leave the default (constants.MERGE_SORT_CHUNK_SIZE) alone
        U.MERGE_SORT_CHUNK_SIZE = K.MERGE_SORT_CHUNK_SIZE = int(c["rchunk"])
    sn = _pname(c, "score")
    rep = _ph(c, "repeat", "none")
    try:
        if rep == "interleaved":
            (a, ea), (b, eb) = _drain_alternately(lambda: U.merge_sort(list(paths), sn))
            if ea is not None or eb is not None:
                if ea != eb:
                    raise Modified(f"two merges of the same files end differently: {ea} / {eb}")
                raise _Reraise(ea)
            out = [X.canon(d) for d in a]
            if out != [X.canon(d) for d in b]:
                raise Modified("two merges of the same files, consumed alternately, differ")
        else:
            out = [X.canon(d) for d in U.merge_sort(list(paths), sn)]
            if rep == "twice":
                if out != [X.canon(d) for d in U.merge_sort(list(paths), sn)]:
                    raise Modified("second merge of the same files differs from the first")
    finally:
        U.MERGE_SORT_CHUNK_SIZE, K.MERGE_SORT_CHUNK_SIZE = old
    if c["fn"] == "merge_sort" and _ph(c, "sclass") == "hugeint":
        msg = oracle(c, ("ok", out))
        if msg:
            _FLOAT_FINDINGS.append({"key": KEY_FLOAT, "what": msg[:300], "failing_input": {k: v for k, v in c.items() if k != "tags"}})
    return out


class _Reraise(Exception):
    """carries the error kind of the implementation through call_impl"""

    def __init__(self, kind):
        super().__init__(kind)
        self.kind = kind


# ----------------------------------------------------------------------------- real code: table merger
def _base_reader(c, j, rows, df, frames, part=0):
    from mokapot.tabular_data import DataFrameReader, TabularDataReader
    b = c.get("backing", "df")
    if b == "df":
        frames.append((df, df.copy(deep=True)))
        return DataFrameReader(df)
    return TabularDataReader.from_path(_file_of_input(c, j, rows, df=df, fmt=b))


def _reader_one(c, j, rows, frames):
    import numpy as np
    from mokapot.tabular_data import ColumnMappedReader
    from mokapot.streaming import ComputedTabularDataReader, JoinedTabularDataReader
    full = _build_df(c, j, rows)
    wrap = _ph(c, "wrap", "none")
    if wrap == "mapped":
        cmap = {"src " + _pname(c, l): _pname(c, l) for l in ("score", "tag")}
        src = full.rename(columns={v: k for k, v in cmap.items()})
        return ColumnMappedReader(_base_reader(c, j, rows, src, frames), cmap)
    if wrap == "computed":
        auxn, idn, idb, nulls = _pname(c, "aux"), _pname(c, "id"), _idb(c), bool(_ph(c, "nulls"))
        if list(full.columns)[-1] != auxn:
            raise RuntimeError("harness: computed column must be the last one")
        src = full.drop(columns=[auxn])

        def func(df):
            ids = df[idn].to_numpy()
            v = ids * 0.5
            return np.where((ids % idb) % 3 == 2, np.nan, v) if nulls else v
        return ComputedTabularDataReader(_base_reader(c, j, rows, src, frames), auxn, np.dtype("float64"), func)
    if wrap == "joined":
        cs = list(full.columns)
        return JoinedTabularDataReader([_base_reader(c, j, rows, full[cs[:2]].copy(), frames, 0),
                                        _base_reader(c, j, rows, full[cs[2:]].copy(), frames, 1)])
    return _base_reader(c, j, rows, full, frames)


def _readers(c, frames):
    from mokapot.streaming import MergedTabularDataReader
    rs = [_reader_one(c, j, rows, frames) for j, rows in enumerate(c["inputs"])]
    if _ph(c, "wrap") == "nested" and len(rs) >= 2:
        h = (len(rs) + 1) // 2
        kw = {"descending": bool(c["desc"]), "reader_chunk_size": max(1, int(c["rchunk"]))}
        rs = [MergedTabularDataReader(rs[:h], _pname(c, "score"), **kw),
              MergedTabularDataReader(rs[h:], _pname(c, "score"), **kw)]
    return rs


def _merger_kwargs(c):
    kw = {}
    defaults = _ph(c, "defaults") or []
    if not ("desc" in defaults and c["desc"]):
        kw["descending"] = bool(c["desc"])
    if "rchunk" not in defaults:
        kw["reader_chunk_size"] = int(c["rchunk"])
    return kw


def _columns_kw(c, X):
    return {} if X.proj is None else {"columns": [_pname(c, l) for l in X.proj]}


def _frames_untouched(frames):
    for df, orig in frames:
        if list(df.columns) != list(orig.columns) or list(df.index) != list(orig.index) or not df.equals(orig):
            return False
    return True


def _run_table_full(c):
    from mokapot.streaming import MergedTabularDataReader
    frames = []
    X = _Expect(c)
    rd = MergedTabularDataReader(_readers(c, frames), _pname(c, "score"), **_merger_kwargs(c))
    ck = _columns_kw(c, X)

    def once():
        if c["via"] == "read":
            return X.of_df(rd.read(**ck))
        oc = int(c["ochunk"])
        chunks = list(rd.get_chunked_data_iterator(chunk_size=oc, **ck))
        lens = [len(ch) for ch in chunks]
        if any(n != oc for n in lens[:-1]) or not lens or not (1 <= lens[-1] <= oc):
            raise Modified(f"chunk lengths {lens} for chunk_size {oc}")
        return [r for ch in chunks for r in X.of_df(ch)]
    out = once()
    if _ph(c, "repeat", "none") != "none" and once() != out:
        raise Modified("second read of the same merged reader differs from the first")
    if not _frames_untouched(frames):
        raise Modified("an input DataFrame was changed by the merge")
    return out


def _run_table_stream(c):
    """-> [rows yielded, exception kind or None]"""
    from mokapot.streaming import MergedTabularDataReader, merge_readers
    from mokapot.tabular_data import TableType
    frames = []
    X = _Expect(c, projected=c["via"] != "merge_readers")
    sn = _pname(c, "score")
    kw = _merger_kwargs(c)
    try:
        readers = _readers(c, frames)
        if c["via"] == "merge_readers":
            def mk():
                if "descending" in kw:        # positional, as the function is declared
                    return merge_readers(readers, sn, kw["descending"], **{k: v for k, v in kw.items() if k != "descending"})
                return merge_readers(readers, sn, **kw)

            def conv(ch):
                rows = X.of_df(ch)
                if len(rows) != 1:
                    raise Modified(f"merge_readers chunk of {len(rows)} rows")
                return rows
        else:
            rt = TableType[c["via"].split("-")[1]]
            rd = MergedTabularDataReader(readers, sn, **kw)
            ck = _columns_kw(c, X)

            def mk():
                return rd.get_row_iterator(row_type=rt, **ck)

            def conv(row):
                if rt == TableType.DataFrame:
                    return X.of_df(row)
                if rt == TableType.Dicts:
                    return [X.canon(row)]
                return [X.canon({n: row[n] for n in row.dtype.names})]
    except BaseException as e:  # noqa
        if isinstance(e, (KeyboardInterrupt, SystemExit, MemoryError)):
            raise
        return [[], _kind(e)]

    def drain():
        prefix, err = [], None
        try:
            for x in mk():
                prefix.extend(conv(x))
        except BaseException as e:  # noqa
            if isinstance(e, (KeyboardInterrupt, SystemExit, MemoryError)):
                raise
            err = _kind(e)
        return [prefix, err]

    rep = _ph(c, "repeat", "none")
    if rep == "interleaved":
        (a, ea), (b, eb) = _drain_alternately(mk)
        res = []
        for raw, e in ((a, ea), (b, eb)):
            prefix, err = [], e
            try:
                for x in raw:
                    prefix.extend(conv(x))
            except Modified as m:
                err = _kind(m)
            res.append([prefix, err])
        if res[0] != res[1]:
            return [res[0][0], "Modified:two iterators of the same reader, consumed alternately, differ"]
        out = res[0]
    else:
        out = drain()
        if rep == "twice" and drain() != out:
            return [out[0], "Modified:second iteration of the same reader differs from the first"]
    if out[1] is None and not _frames_untouched(frames):
        return [out[0], "Modified:an input DataFrame was changed by the merge"]
    return out


def impl(c):
    if c["fn"] == "merge_sort":
        try:
            return ("ok", _run_merge_sort(c))
        except _Reraise as e:
            return ("err", e.kind)
        except BaseException as e:  # noqa
            if isinstance(e, (KeyboardInterrupt, SystemExit, MemoryError)):
                raise
            return ("err", _kind(e))
    if c["via"] in STREAM_VIAS:
        return _run_table_stream(c)
    try:
        return ("ok", _run_table_full(c))
    except BaseException as e:  # noqa
        if isinstance(e, (KeyboardInterrupt, SystemExit, MemoryError)):
            raise
        return ("err", _kind(e))


# ----------------------------------------------------------------------------- model side
def _enc_inputs(c):
    return lib.lst(c["inputs"], lambda inp: lib.lst([[_model_image(c, r[0]), r[1]] for r in inp], lib.pair(lib.z, lib.z)))


def encode(c):
    if c["fn"] == "merge_sort":
        return "c14.merge_sort " + _enc_inputs(c)
    if c["via"] in STREAM_VIAS:
        return f"c14.merge_stream {lib.b(c['desc'])} " + _enc_inputs(c)
    return f"c14.merge_checked {lib.b(c['desc'])} " + _enc_inputs(c)


def decode(c, t):
    row = lambda: [t.z(), t.z()]
    if c["fn"] == "table" and c["via"] in STREAM_VIAS:
        pre = t.lst(row)
        e = t.opt(lambda: lib.ERR_CODES[t.int()])
        return [pre, e]
    return t.result(lambda: t.lst(row))


def same(c, m, i):
    i = lib.jsonable(i)
    if c["fn"] == "merge_sort" and _ph(c, "sclass") == "hugeint" and isinstance(i, list) and i and i[0] == "ok":
        i = ["ok", [[_model_image(c, r[0]), r[1]] for r in i[1]]]
    return lib.jsonable(m) == i


# ----------------------------------------------------------------------------- property
def _sorted_dir(rows, desc):
    ks = [r[0] for r in rows]
    return all((a >= b) if desc else (a <= b) for a, b in zip(ks, ks[1:]))


def _declared_desc(c):
    return True if c["fn"] == "merge_sort" else bool(c["desc"])


def nontrivial(c):
    ins = c["inputs"]
    if len(ins) < 2:
        return False
    desc = _declared_desc(c)
    sets = [set(r[0] for r in inp) for inp in ins]
    shared = any(sets[a] & sets[b] for a in range(len(sets)) for b in range(a + 1, len(sets)))
    return shared or any(len(inp) == 1 for inp in ins) or any(not _sorted_dir(inp, desc) for inp in ins)


def oracle(c, i):
    """the property text on the implementation's output: every row exactly once, unmodified, globally sorted;
    the table merger rejects an input that is not sorted as declared"""
    ins = c["inputs"]
    if not ins or any(len(inp) == 0 for inp in ins):
        return None                       # outside the quantifier (at least one input, every input has rows)
    desc = _declared_desc(c)
    all_sorted = all(_sorted_dir(inp, desc) for inp in ins)
    stream = c["fn"] == "table" and c["via"] in STREAM_VIAS
    if stream:
        out, err = i[0], i[1]
    else:
        out, err = (i[1], None) if i[0] == "ok" else (None, i[1])
    want = sorted([int(a), int(b)] for inp in ins for a, b in inp)
    if err is not None and str(err).startswith("Modified"):
        return f"rows are not returned exactly as written / the call is not repeatable: {err}"
    if all_sorted:
        if err is not None:
            return f"sorted inputs but the merge raised {err}"
        out = [[int(a), int(b)] for a, b in out]
        if sorted(out) != want:
            return f"output rows are not the input rows exactly once: got {out[:40]}, inputs {str(ins)[:400]}"
        if not _sorted_dir(out, desc):
            return f"output not in {'non-increasing' if desc else 'non-decreasing'} score order: {out[:40]}"
        return None
    if c["fn"] == "table":
        if err != "ValueError":
            return (f"an input is not sorted {'descending' if desc else 'ascending'} but the table merger "
                    f"{'returned ' + str(out)[:300] if err is None else 'raised ' + str(err)} instead of ValueError")
        if stream and not _sorted_dir(out, desc):
            return f"rows yielded before the rejection are not in order: {out[:40]}"
    return None


def finding_key(c, m, i):
    """utils.get_next_row compares float(score): integer scores >= 2^53 that differ by less than the float spacing
    are ties for the code.  Only when the output is a correct merge for the float images."""
    if c["fn"] == "table" and _text(c) and i is not None:
        # the constructor of MergedTabularDataReader compares the column types that each CSVFileReader infers from the
        # first TWO rows of its file: only when these really differ among the inputs, and the error is that assertion
        i = lib.jsonable(i)
        rejected = i in (["err", "AssertionError"], [[], "AssertionError"])
        return KEY_HDR if rejected and c["inputs"] and all(c["inputs"]) and len(set(_header_sigs(c))) > 1 else None
    if c["fn"] != "merge_sort" or _ph(c, "sclass") != "hugeint" or i is None:
        return None
    i = lib.jsonable(i)
    if not (isinstance(i, list) and i and i[0] == "ok"):
        return None
    if oracle(c, i) is None:
        return None
    fc = dict(c, inputs=[[[_model_image(c, r[0]), r[1]] for r in inp] for inp in c["inputs"]], phys=dict(c["phys"], sclass=None))
    fi = ["ok", [[_model_image(c, r[0]), r[1]] for r in i[1]]]
    return KEY_FLOAT if oracle(fc, fi) is None else None


def extra_checks(ctx):
    """the property (exact order) on the merge_sort cases with integer scores >= 2^53: the main pipeline compares those
    with the model on float images (what the code compares); a property failure is reported under its finding key"""
    seen = {}
    for f in sorted(_FLOAT_FINDINGS, key=lambda f: sum(len(x) for x in f["failing_input"]["inputs"])):
        seen.setdefault(f["key"], f)         # the smallest failing input
    return list(seen.values()), {"merge_sort_huge_int_cases_violating_exact_order": len(_FLOAT_FINDINGS)}


def shrink(c):
    ins = c["inputs"]
    for j in range(len(ins)):
        if len(ins) > 1 and not _ph(c, "dtypes"):
            yield dict(c, inputs=ins[:j] + ins[j + 1:])
    for j, inp in enumerate(ins):
        for p in range(len(inp)):
            if len(inp) > 1:
                yield dict(c, inputs=ins[:j] + [inp[:p] + inp[p + 1:]] + ins[j + 1:])
    if c.get("rchunk", 1) > 1:
        yield dict(c, rchunk=1)
    if c.get("backing", "df") != "df":
        yield dict(c, backing="df")
    ph = c.get("phys")
    if ph:
        for k, v in (("repeat", "none"), ("wrap", "none"), ("columns", None), ("defaults", []), ("rot", False),
                     ("names", {}), ("index", "range"), ("nulls", False)):
            if ph.get(k) not in (None, v):
                if k == "index" and c.get("backing", "df") != "df":
                    continue
                yield dict(c, phys=dict(ph, **{k: v}))
        return                       # images of the special score classes are not re-ranked
    # scores -> ranks
    ks = sorted({r[0] for inp in ins for r in inp})
    if ks != list(range(len(ks))):
        rk = {k: n for n, k in enumerate(ks)}
        yield dict(c, inputs=[[[rk[r[0]], r[1]] for r in inp] for inp in ins])


# ----------------------------------------------------------------------------- generators
def _with_ids(score_lists, base=100):
    return [[[int(k), base * j + p] for p, k in enumerate(ks)] for j, ks in enumerate(score_lists)]


def _shape_tags(ins, desc):
    n = sum(len(x) for x in ins)
    allk = [r[0] for inp in ins for r in inp]
    tags = [f"k={len(ins) if len(ins) <= 8 else '9+'}",
            f"rows={'0' if n == 0 else '1-3' if n <= 3 else '4-7' if n <= 7 else '8-20' if n <= 20 else '21-999' if n < 1000 else '1000+'}"]
    tags.append("ties" if len(set(allk)) < len(allk) else "no-ties")
    if any(len(inp) == 1 for inp in ins):
        tags.append("single-row-input")
    if any(len(inp) == 0 for inp in ins):
        tags.append("empty-input")
    if not ins:
        tags.append("no-inputs")
    if any(not _sorted_dir(inp, desc) for inp in ins):
        tags.append("unsorted-input")
    return tags


def _phys_tags(ph):
    if not ph:
        return []
    t = ["phys"]
    nm = ph.get("names") or {}
    if nm:
        t.append("names=non-default")
        if any(not str(v).isidentifier() or v in ("class", "def", "lambda") or str(v).startswith("_") for v in nm.values()):
            t.append("names=not-an-identifier")
        if any(v in ("index", "level_0") for v in nm.values()):
            t.append("names=index/level_0")
    if ph.get("order"):
        t.append(f"score-col-pos={ph['order'].index('score')}")
    for k in ("index", "wrap", "repeat", "sclass", "suffix"):
        if ph.get(k) not in (None, "none", "range"):
            t.append(f"{k}={ph[k]}")
    if ph.get("nulls"):
        t.append("payload-nulls")
    if ph.get("columns"):
        t.append("columns=projection")
    for d in ph.get("defaults") or []:
        t.append(f"default-{d}")
    if ph.get("dtypes") and len(set(ph["dtypes"])) > 1:
        t.append("mixed-int-float-inputs")
    if ph.get("rot"):
        t.append("per-file-column-order")
    tx = ph.get("text")
    if tx:
        t += ["text-typed", f"text-style={tx['style']}", f"text-tag={tx['tag']}", f"text-aux={tx['aux']}"]
    return t


def _mk_table(ins, desc, via, rchunk, ochunk=1, dtype="float", backing="df", rg=None, extra=(), phys=None):
    c = {"fn": "table", "desc": bool(desc), "inputs": ins, "via": via, "rchunk": int(rchunk), "ochunk": int(ochunk),
         "dtype": dtype, "backing": backing, "rg": rg}
    if phys:
        c["phys"] = phys
    c["tags"] = (["table", "desc" if desc else "asc", via, f"backing={backing}", f"dtype={dtype}"]
                 + _shape_tags(ins, desc) + _phys_tags(phys) + list(extra))
    return c


def _mk_ms(ins, fmt, rchunk, dtype="float", rg=None, extra=(), phys=None, layout=None):
    # a third of the merge_sort inputs are tables WITHOUT any string column (id, score and a 2^53+odd integer): a row
    # iterator that goes through a numeric array would turn the integers into floats
    if layout is None:
        layout = "numeric" if (len(ins) + sum(len(x) for x in ins)) % 3 == 0 else "mixed"
    c = {"fn": "merge_sort", "inputs": ins, "fmt": fmt, "rchunk": int(rchunk), "dtype": dtype, "rg": rg, "layout": layout}
    if phys:
        c["phys"] = phys
    c["tags"] = (["merge_sort", f"fmt={fmt}", f"dtype={dtype}", f"layout={layout}"] + _shape_tags(ins, True)
                 + _phys_tags(phys) + list(extra))
    return c


def _exhaustive(maxn):
    """all tuples of <=3 descending score lists over {1,2,3} with <= maxn rows in total"""
    ms = {m: list(itertools.combinations_with_replacement((3, 2, 1), m)) for m in range(maxn + 1)}
    yield []
    for k in (1, 2, 3):
        for sizes in itertools.product(range(maxn + 1), repeat=k):
            if sum(sizes) > maxn:
                continue
            for combo in itertools.product(*[ms[s] for s in sizes]):
                yield [list(x) for x in combo]


def _random_names(rng, logical):
    if rng.random() < 0.25:
        return {}
    return {l: rng.choice(NAME_POOL[l]) for l in logical}


def _gen_physical(ctx, n_cases):
    """(4): sorted inputs, the physical side varied"""
    rng = ctx.sub("physical")
    out = []
    for n in range(n_cases):
        k = rng.choice([1, 2, 2, 3, 3, 4, 5, 8, 9, 12])
        N = rng.choice([1, 2, 3, 5, 8, 12] + ([20, 40] if ctx.thorough else []))
        desc = rng.random() < 0.5
        sclass = rng.choice([None, None, None, "fbits", "fbits", "hugeint", "hugeint"])
        lens = [1 if rng.random() < 0.2 else rng.randint(1, N) for _ in range(k)]
        is_table = rng.random() < 0.6
        ph = {"idb": 1000, "sclass": sclass, "nulls": rng.random() < 0.4,
              "repeat": rng.choice(["none", "none", "twice", "interleaved"])}
        dtype = "float"
        if sclass == "fbits":
            w = rng.choice([3, 6, len(FB_KEYS)])
            lo = rng.randrange(len(FB_KEYS) - w + 1)
            draw = lambda: FB_KEYS[lo + rng.randrange(w)]
        elif sclass == "hugeint":
            w = rng.choice([2, 4, len(HUGE_INTS)])
            lo = rng.randrange(len(HUGE_INTS) - w + 1)
            draw = lambda: HUGE_INTS[lo + rng.randrange(w)]
            dtype = "int"
        else:
            pool = rng.choice([1, 2, 3, 5, 50, 10 ** 6])
            base = rng.choice([0, -pool // 2, 10 ** 9])
            dtype = rng.choice(["int", "float"])
            mixed = (not is_table) and rng.random() < 0.35
            if mixed:
                dtype = "float"
                ph["dtypes"] = [rng.choice(["int4", "float"]) for _ in range(k)]
            draw = lambda: base + rng.randrange(pool)
        shape = []
        for j, m in enumerate(lens):
            ks = [draw() for _ in range(m)]
            if ph.get("dtypes") and ph["dtypes"][j] == "int4":
                ks = [SCALE * q for q in ks]
            shape.append(sorted(ks, reverse=desc))
        tot = sum(lens)
        rchunk = rng.choice([1, 2, N, N + 1, rng.randint(1, N + 1)])
        rg = rng.choice([None, 1, 2])
        if is_table:
            via = VIAS[n % 6]
            backing = rng.choice(["df", "df", "df", "tsv", "parquet"])
            wrap = rng.choice(["none", "none", "mapped", "computed", "joined", "nested"])
            order = list(COLS)
            rng.shuffle(order)
            if wrap == "computed":
                order.remove("aux")
                order.append("aux")
            if wrap == "nested" and k < 2:
                wrap = "none"
            index = "range"
            if backing == "df":
                index = rng.choice(["range", "shift", "perm", "dups", "dups", "str"])
                if wrap == "joined" and index in ("dups", "str"):
                    index = "perm"       # JoinedTabularDataReader aligns its members on the row labels
            cols = None
            if via != "merge_readers" and rng.random() < 0.4:
                rest = [l for l in COLS if l not in ("id", "score") and rng.random() < 0.5]
                cols = ["id", "score"] + rest
                rng.shuffle(cols)
            defaults = [d for d in ("desc", "rchunk") if rng.random() < 0.25]
            ph.update({"names": _random_names(rng, COLS), "order": order, "index": index, "wrap": wrap,
                       "columns": cols, "defaults": defaults})
            if backing != "df":
                ph["suffix"] = None if backing == "parquet" else rng.choice(TEXT_SUFFIXES)
            ins = _with_ids(shape, 1000)
            c = _mk_table(ins, desc, via, rchunk, ochunk=rng.choice([1, 2, tot, tot + 1, rng.randint(1, tot + 1)]),
                          dtype=dtype, backing=backing, rg=rg, extra=["physical"], phys=ph)
        else:
            if not desc:
                shape = [list(reversed(x)) for x in shape]
            layout = rng.choice(["mixed", "mixed", "numeric"])
            logical = COLS if layout == "mixed" else NCOLS
            order = list(logical)
            rng.shuffle(order)
            fmt = rng.choice(["tsv", "csv", "parquet", "parquet"])
            ph.update({"names": _random_names(rng, logical), "order": order, "rot": rng.random() < 0.3})
            if fmt != "parquet":
                ph["suffix"] = rng.choice(TEXT_SUFFIXES)
            ins = _with_ids(shape, 1000)
            c = _mk_ms(ins, fmt, rchunk, dtype=dtype, rg=rg, extra=["physical"], phys=ph, layout=layout)
        out.append(c)
    return out


def _gen_physical_malformed(ctx, base_cases, n_cases, label="physical-malformed", tag="physical"):
    """(5): an inversion between neighbouring values / the wrong declared direction, physical side as in (4)"""
    rng = ctx.sub(label)
    out = []
    for n in range(n_cases):
        b = base_cases[rng.randrange(len(base_cases))]
        c = copy.deepcopy({k: v for k, v in b.items() if k != "tags"})
        ph = c["phys"]
        if ph.get("wrap") == "nested":
            ph["wrap"] = "none"
        ins = c["inputs"]
        kind = rng.choice(["swap", "swap", "direction"])
        cand = [(j, p) for j, inp in enumerate(ins) for p in range(len(inp) - 1) if inp[p][0] != inp[p + 1][0]]
        if kind == "swap" and cand:
            j, p = cand[rng.randrange(len(cand))]
            ins[j][p][0], ins[j][p + 1][0] = ins[j][p + 1][0], ins[j][p][0]
        else:
            kind = "direction"
            if c["fn"] == "table":
                c["desc"] = not c["desc"]
            else:
                for x in ins:
                    ks = [r[0] for r in x][::-1]
                    for r, k in zip(x, ks):
                        r[0] = k
        if c["fn"] == "table":
            m = _mk_table(ins, c["desc"], c["via"], c["rchunk"], c["ochunk"], c["dtype"], c["backing"], c["rg"],
                          extra=[tag, "malformed", kind] + _hdr_tag(dict(c, inputs=ins, phys=ph)), phys=ph)
        else:
            m = _mk_ms(ins, c["fmt"], c["rchunk"], c["dtype"], c["rg"], extra=[tag, "malformed", kind], phys=ph,
                       layout=c["layout"])
        out.append(m)
    return out


# --- (7) text inputs whose numbers are printed as other tools print them: per-chunk type inference of the readers
def _seg_images(rng, kind, side, m, c0, pool, unit):
    """m score images (value * 4) of one kind (whole / frac / any) above (side=+1) or below (side=-1) the value unit*c0;
    whole images of both sides include unit*c0 itself, so whole heads and whole tails can tie"""
    out = []
    for _ in range(m):
        k = kind if kind != "any" else ("whole" if rng.random() < 0.5 else "frac")
        if k == "whole":
            out.append(SCALE * unit * (c0 + side * rng.randint(0, pool)))
        elif side > 0:
            out.append(SCALE * unit * c0 + SCALE * rng.randrange(unit * pool) + rng.choice([1, 2, 3]))
        else:
            out.append(SCALE * unit * c0 - SCALE * (1 + rng.randrange(unit * pool)) + rng.choice([1, 2, 3]))
    return out


SPATS = {"whole-head": ("whole", "frac"), "frac-head": ("frac", "whole"), "whole": ("whole", "whole"),
         "frac": ("frac", "frac"), "mixed": ("any", "any")}


def _text_input(rng, spat, h, t, desc, c0, pool, unit):
    """one sorted input: h rows of the first kind of the pattern, then t rows of the second kind"""
    k1, k2 = SPATS[spat]
    first = sorted(_seg_images(rng, k1, 1 if desc else -1, h, c0, pool, unit), reverse=desc)
    second = sorted(_seg_images(rng, k2, -1 if desc else 1, t, c0, pool, unit), reverse=desc)
    return first + second


def _hdr_tag(c):
    if c["fn"] == "table" and _text(c) and c["inputs"] and all(c["inputs"]):
        return ["text-header-types=" + ("differ" if len(set(_header_sigs(c))) > 1 else "same")]
    return []


def _gen_text_typed(ctx, n_cases):
    """(7): sorted text inputs with a whole-numbered head and a fractional tail of the score column (the other way
    round / whole throughout / fractional throughout / mixed), numbers printed without '.0' (and with '+', leading
    zeros, exponents), crossed with reader chunk sizes around the row where the kind of number changes"""
    rng = ctx.sub("text-typed")
    big = ctx.thorough
    out = []
    for n in range(n_cases):
        is_table = n % 2 == 0
        k = rng.choice([1, 2, 2, 3, 3, 4])
        desc = rng.random() < 0.5
        h0 = rng.choice([1, 2, 2, 3, 4, 6] + ([10, 25] if big else []))
        t0 = rng.choice([1, 2, 3, 5] + ([12] if big else []))
        spat0 = rng.choice(["whole-head"] * 5 + ["frac-head"] * 3 + ["whole", "whole", "frac", "mixed"])
        style = rng.choice(["g", "g", "g", "g", "plus", "zeros", "exp", "mix"])
        unit = 10 if style in ("exp", "mix") and rng.random() < 0.7 else 1     # whole scores that end in 0: 3e2
        c0 = rng.choice([0, 3, 10, -4, 10 ** 6, 10 ** 9])
        pool = rng.choice([1, 2, 3, 6, 40])
        differ = is_table and k > 1 and rng.random() < 0.05     # table merger: see known finding KEY_HDR
        free = differ or not is_table                     # merge_sort does not look at column types
        tx = {"style": style, "tag": rng.choice(["str", "str", "int-head", "empty-head"]),
              "aux": rng.choice(["frac-first", "whole-first", "whole-first", "empty-head"]), "q": rng.choice([2, 3, max(2, h0)])}
        ph = {"idb": 1000, "sclass": None, "nulls": rng.random() < 0.3, "text": tx,
              "repeat": rng.choice(["none", "none", "none", "twice", "interleaved"])}
        rchunk = max(1, rng.choice([1, 2, h0 - 1, h0, h0, h0 + 1, h0 + t0, h0 + t0 + 1]))
        suffix = rng.choice(TEXT_SUFFIXES)
        if is_table:
            via = VIAS[(n // 2) % 6]
            wrap = rng.choice(["none"] * 4 + ["mapped", "nested"])
            if wrap == "nested" and k < 2:
                wrap = "none"
            order = list(COLS)
            rng.shuffle(order)
            cols = None
            if via != "merge_readers" and rng.random() < 0.3:
                cols = ["id", "score"] + [l for l in COLS if l not in ("id", "score") and rng.random() < 0.5]
                rng.shuffle(cols)
            ph.update({"names": _random_names(rng, COLS) if rng.random() < 0.5 else {}, "order": order, "index": "range",
                       "wrap": wrap, "columns": cols, "defaults": ["desc"] if desc and rng.random() < 0.2 else [],
                       "suffix": suffix})
        else:
            layout = rng.choice(["mixed", "mixed", "numeric"])
            logical = COLS if layout == "mixed" else NCOLS
            order = list(logical)
            rng.shuffle(order)
            ph.update({"names": _random_names(rng, logical) if rng.random() < 0.5 else {}, "order": order,
                       "rot": rng.random() < 0.3, "suffix": suffix})
        for attempt in range(40):
            shape = []
            for j in range(k):
                spat = rng.choice(list(SPATS)) if free and rng.random() < 0.5 else spat0
                if rng.random() < 0.15:
                    h, t = 1, 0                                            # single-row input
                else:
                    h = max(2 if (is_table and not differ) else 1, h0 + rng.choice([-1, 0, 0, 0, 1]))
                    t = max(1, t0 + rng.choice([-1, 0, 0, 1]))
                shape.append(_text_input(rng, spat, h, t, desc or not is_table, c0, pool, unit))
            ins = _with_ids(shape, 1000)
            if is_table:
                tot = sum(len(x) for x in shape)
                c = _mk_table(ins, desc, via, rchunk, ochunk=rng.choice([1, 2, tot, tot + 1, rng.randint(1, tot + 1)]),
                              dtype="float", backing="tsv", extra=["text-typed-stream", f"spat={spat0}"], phys=ph)
                same_hdr = len(set(_header_sigs(c))) == 1
                if same_hdr == differ:
                    continue                     # draw the rows again until the header types are as intended
                c["tags"] += _hdr_tag(c)
            else:
                c = _mk_ms(ins, rng.choice(["tsv", "csv"]), rchunk, dtype="float", extra=["text-typed-stream", f"spat={spat0}"],
                           phys=ph, layout=layout)
            c["tags"].append("rchunk<longest-input" if rchunk < max(len(x) for x in shape) else "rchunk>=longest-input")
            out.append(c)
            break
    return out


def _gen_text_default_chunks(ctx):
    """(7b): text inputs as in (7) that are longer than the DEFAULT chunk sizes, whole-numbered up to the end of the
    first default-sized chunk"""
    rng = ctx.sub("text-default-chunks")
    out = []
    tx = {"style": "g", "tag": "str", "aux": "whole-first", "q": 2}

    def ph(**kw):
        return dict({"idb": 10 ** 6, "sclass": None, "nulls": False, "text": dict(tx), "suffix": ".tsv"}, **kw)
    ms = [("whole-head", [(20000, 3), (2, 1)])]
    if ctx.thorough:
        ms += [("frac-head", [(20000, 2), (20001, 0)]), ("whole-head", [(20001, 1), (20000, 20001)])]
    for spat, lens in ms:
        shape = [_text_input(rng, spat, h, t, True, 7000, 5000, 1) for h, t in lens]
        out.append(_mk_ms(_with_ids(shape, 10 ** 6), "tsv", 0, dtype="float", phys=ph(names={"score": "mokapot score"}),
                          extra=["default-chunk-size", "text-typed-stream", f"spat={spat}"], layout="mixed"))
    tb = [("whole-head", [(1000, 2), (3, 1)], "rows-Dicts", True)]
    if ctx.thorough:
        tb += [("whole-head", [(1001, 3), (2000, 1), (1, 0)], "read", False), ("frac-head", [(1000, 1), (1000, 1001)], "rows-Records", True),
               ("whole", [(1000, 1), (2, 2)], "merge_readers", False)]
    for spat, lens, via, desc in tb:
        shape = [_text_input(rng, spat, h, t, desc, 400, 300, 1) for h, t in lens]
        c = _mk_table(_with_ids(shape, 10 ** 6), desc, via, 1000, ochunk=777, dtype="float", backing="tsv",
                      extra=["default-chunk-size", "text-typed-stream", f"spat={spat}"],
                      phys=ph(defaults=["rchunk"] + (["desc"] if desc else [])))
        c["tags"] += _hdr_tag(c)
        out.append(c)
    return out


def _gen_default_chunks(ctx):
    """(6): inputs longer than the default chunk sizes, the defaults left alone"""
    rng = ctx.sub("default-chunks")
    out = []

    def shape(lens, pool, desc=True):
        return [sorted((rng.randrange(pool) for _ in range(m)), reverse=desc) for m in lens]
    ms_lens = [[20001, 3], [20000, 20001, 1]] if ctx.thorough else [[20001, 3]]
    for lens in ms_lens:
        for fmt in ("csv", "parquet"):
            ph = {"idb": 10 ** 6, "sclass": None, "names": {"score": "mokapot score"} if fmt == "csv" else {},
                  "suffix": ".csv" if fmt == "csv" else None}
            ins = _with_ids(shape(lens, 5000), 10 ** 6)
            out.append(_mk_ms(ins, fmt, 0, dtype="float", rg=None, extra=["default-chunk-size"], phys=ph, layout="mixed"))
    tb = [([1000, 1001], "rows-Dicts", "df"), ([2001, 1], "rows-Records", "tsv"), ([1001, 999, 2], "read", "parquet")]
    if ctx.thorough:
        tb += [([3000, 1001], "chunked", "df"), ([1001, 1000], "merge_readers", "df"), ([2500], "rows-DataFrame", "parquet")]
    for n, (lens, via, backing) in enumerate(tb):
        desc = n % 2 == 0
        ph = {"idb": 10 ** 6, "sclass": None, "defaults": ["rchunk"] + (["desc"] if desc else []),
              "suffix": ".tsv" if backing == "tsv" else None}
        ins = _with_ids(shape(lens, 300, desc), 10 ** 6)
        out.append(_mk_table(ins, desc, via, 1000, ochunk=777, dtype="int" if n % 2 else "float", backing=backing,
                             extra=["default-chunk-size"], phys=ph))
    return out


def gen(ctx):
    cases = []
    # (1) exhaustive small scope
    maxn = 7 if ctx.thorough else 5
    for n, shape in enumerate(_exhaustive(maxn)):
        tot = sum(len(x) for x in shape)
        has_empty = (not shape) or any(len(x) == 0 for x in shape)
        if has_empty and n % 4:
            continue          # inputs without rows all fail alike before the first row: a quarter of them is enough
        ins = _with_ids(shape)
        rc = 1 + n % (tot + 1)
        cases.append(_mk_table(ins, True, "rows-Dicts", rc, extra=["exhaustive"]))
        asc = _with_ids([list(reversed(x)) for x in shape])
        via = VIAS[1 + n % 5]
        cases.append(_mk_table(asc, False, via, 1 + (n // 5) % (tot + 1), ochunk=1 + (n // 7) % (tot + 1),
                               dtype="int" if n % 2 else "float", extra=["exhaustive"]))
        fmt = "parquet" if n % 3 == 0 else "tsv"
        cases.append(_mk_ms(ins, fmt, 1 + (n // 3) % (tot + 1), dtype="int" if (n // 2) % 2 else "float",
                            rg=(1 + n % 2) if n % 6 == 0 else None, extra=["exhaustive"]))

    # (2) random sorted inputs
    rng = ctx.sub("structured")
    nrand = 6000 if ctx.thorough else 350
    structured = []
    for n in range(nrand):
        k = rng.choice([1, 2, 2, 3, 3, 4, 5, 6, 7, 8])
        N = rng.choice([1, 2, 3, 5, 8, 12] + ([20, 40] if ctx.thorough else []))
        pool = rng.choice([1, 2, 3, 5, 50, 10 ** 6])
        lo = rng.choice([0, -pool // 2, 10 ** 9])
        desc = rng.random() < 0.5
        lens = [1 if rng.random() < 0.2 else rng.randint(1, N) for _ in range(k)]
        shape = [sorted((lo + rng.randrange(pool) for _ in range(m)), reverse=desc) for m in lens]
        ins = _with_ids(shape)
        tot = sum(lens)
        dtype = rng.choice(["int", "float"])
        rchunk = rng.choice([1, 2, N, N + 1, rng.randint(1, N + 1)])
        rg = rng.choice([None, 1, 2])
        if rng.random() < 0.7:
            via = VIAS[n % 6]
            backing = rng.choice(["df", "df", "df", "tsv", "parquet"])
            c = _mk_table(ins, desc, via, rchunk, ochunk=rng.choice([1, 2, tot, tot + 1, rng.randint(1, tot + 1)]),
                          dtype=dtype, backing=backing, rg=rg, extra=["structured"])
        else:
            if not desc:
                ins = _with_ids([list(reversed(x)) for x in shape])
            c = _mk_ms(ins, rng.choice(["tsv", "csv", "parquet"]), rchunk, dtype=dtype, rg=rg, extra=["structured"])
        structured.append(c)
    cases.extend(structured)

    # (3) malformed stream
    rng = ctx.sub("malformed")
    nmal = 2500 if ctx.thorough else 250
    for n in range(nmal):
        base = structured[rng.randrange(len(structured))]
        c = {k: v for k, v in base.items() if k != "tags"}
        ins = [[list(r) for r in inp] for inp in c["inputs"]]
        kind = rng.choice(["swap-first", "swap-last", "swap-any", "swap-any", "shuffle", "direction", "empty", "none"])
        j = rng.randrange(len(ins))
        inp = ins[j]
        if kind.startswith("swap"):
            if len(inp) < 2:
                inp.append([inp[0][0], inp[0][1] + 50])
            p = {"swap-first": 0, "swap-last": len(inp) - 2}.get(kind, rng.randrange(len(inp) - 1))
            if inp[p][0] == inp[p + 1][0]:
                # make the pair unequal first (keeps the input sorted up to this pair's inversion)
                d = 1 if _declared_desc(c) else -1
                for q in range(p + 1):
                    inp[q][0] += d
            inp[p][0], inp[p + 1][0] = inp[p + 1][0], inp[p][0]
        elif kind == "shuffle":
            ks = [r[0] for r in inp]
            rng.shuffle(ks)
            for r, k in zip(inp, ks):
                r[0] = k
        elif kind == "direction":
            if c["fn"] == "table":
                c["desc"] = not c["desc"]
            else:
                for x in ins:
                    ks = [r[0] for r in x][::-1]
                    for r, k in zip(x, ks):
                        r[0] = k
        elif kind == "empty":
            ins[j] = []
            if c.get("backing", "df") != "df":
                c["backing"] = "df"      # an empty tsv has other column types: constructor assertion, not the merge
        elif kind == "none":
            ins = []
        c["inputs"] = ins
        if c["fn"] == "table":
            m = _mk_table(ins, c["desc"], c["via"], c["rchunk"], c["ochunk"], c["dtype"], c["backing"], c["rg"],
                          extra=["malformed", kind])
        else:
            m = _mk_ms(ins, c["fmt"], c["rchunk"], c["dtype"], c["rg"], extra=["malformed", kind])
        cases.append(m)

    # (4)-(6) white-box review: the physical side
    cases.extend(_gen_default_chunks(ctx))      # (6) first: the evidence samples the last cases, keep those small
    cases.extend(_gen_text_default_chunks(ctx))
    physical = _gen_physical(ctx, 5000 if ctx.thorough else 700)
    cases.extend(physical)
    cases.extend(_gen_physical_malformed(ctx, physical, 1500 if ctx.thorough else 250))
    # (7) round 4: text inputs whose numbers are printed as other tools print them
    typed = _gen_text_typed(ctx, 2500 if ctx.thorough else 300)
    cases.extend(typed)
    cases.extend(_gen_physical_malformed(ctx, typed, 500 if ctx.thorough else 60, label="text-typed-malformed", tag="text-typed-stream"))
    return cases
