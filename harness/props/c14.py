"""C14 — k-way merge: correspondence of Model/Merge.v with mokapot.utils.merge_sort (row-dict merge over
tsv/csv/Parquet files) and mokapot.streaming.MergedTabularDataReader / merge_readers (table merger)."""
import atexit
import itertools
import os
import shutil
import tempfile
from fractions import Fraction
from pathlib import Path

from .. import lib
from ..lib import call_impl

PROP = "C14"
RULE = ("cases: (1) exhaustive: every way to put <=5 (quick) / <=7 (thorough) rows with scores from {1,2,3} into "
        "<=3 inputs (0 inputs; every 4th of the shapes with an empty input), each input sorted; each shape is run through the table "
        "merger descending (row iterator) and ascending (read / chunked / merge_readers / row types in rotation) and "
        "through utils.merge_sort on real tsv files (Parquet for every 3rd), reader chunk sizes rotating over 1..n+1; "
        "(2) random sorted inputs: 1..8 inputs of 1..N rows, score pools of 1..10^6 values (dense ties to none), int and "
        "dyadic-float scores, reader chunk 1..N+1, output chunk 1..total+1, DataFrame/tsv/Parquet-backed readers, "
        "Parquet row groups of 1, 2 or all rows; (3) malformed stream: one adjacent inversion (first / last / random "
        "position), shuffled input, wrong declared direction, empty input, no input - error kind and the rows yielded "
        "before the error are compared for the table merger, the full sequence for merge_sort (it has no check). "
        "Rows carry a unique id and two payload columns; full row sequences (including order among ties) are "
        "compared. distinct = distinct (entry, configuration, inputs); non-trivial = >=2 inputs and (a score shared by "
        "two inputs, or a single-row input, or an unsorted input)")
ASSUMPTIONS = [
    "scores are finite, |score| < 2^53 (get_next_row compares float(score)); NaN / inf scores are not modelled",
    "scores are passed to the model as exact integer images (value * 4 for the dyadic float columns), so order and "
    "ties are the implementation's own",
    "the model has no chunking: both merges consume per-input row iterators; independence of the reader chunk size "
    "(MERGE_SORT_CHUNK_SIZE, reader_chunk_size, Parquet row-group size) and of the output chunk size is established "
    "by running the real readers with chunk sizes 1..N+1 against the same model output",
    "all inputs of one utils.merge_sort call have the same file type (the code picks the iterator from paths[0])",
]
TRUSTED_EXTRA = ["pandas / pyarrow (de)serialisation of the generated tables (rows are checked field by field against "
                 "what was written: id, score, two payload columns)"]

SCALE = 4
COLS = ["id", "score", "tag", "aux"]
VIAS = ["rows-Dicts", "read", "chunked", "merge_readers", "rows-DataFrame", "rows-Records"]
STREAM_VIAS = ("merge_readers", "rows-Dicts", "rows-DataFrame", "rows-Records")

_TMP = None
_FILES = {}


def _tmpdir():
    global _TMP
    if _TMP is None:
        _TMP = tempfile.mkdtemp(prefix="c14_")
        atexit.register(shutil.rmtree, _TMP, True)
    return _TMP


def _val(k, dtype):
    return int(k) if dtype == "int" else k / SCALE


def _frame(rows, dtype):
    import numpy as np
    import pandas as pd
    ids = [int(r[1]) for r in rows]
    return pd.DataFrame({
        "id": np.array(ids, dtype="int64"),
        "score": np.array([_val(r[0], dtype) for r in rows], dtype="int64" if dtype == "int" else "float64"),
        "tag": pd.Series([f"r{i}" for i in ids], dtype=object),
        "aux": np.array([i * 0.5 for i in ids], dtype="float64"),
    })


BIG = 2 ** 53 + 1


def _frame_numeric(rows, dtype):
    import numpy as np
    import pandas as pd
    ids = [int(r[1]) for r in rows]
    return pd.DataFrame({
        "id": np.array(ids, dtype="int64"),
        "score": np.array([_val(r[0], dtype) for r in rows], dtype="int64" if dtype == "int" else "float64"),
        "big": np.array([BIG + 2 * i for i in ids], dtype="int64"),
    })


def _canon_numeric(d, dtype):
    if sorted(d.keys()) != ["big", "id", "score"]:
        raise Modified(f"columns {sorted(d.keys())}")
    i = d["id"].item() if hasattr(d["id"], "item") else d["id"]
    g = d["big"].item() if hasattr(d["big"], "item") else d["big"]
    v = d["score"].item() if hasattr(d["score"], "item") else d["score"]
    if isinstance(i, bool) or not isinstance(i, int):
        raise Modified(f"id {i!r} is not the integer that was written")
    if isinstance(g, bool) or not isinstance(g, int) or g != BIG + 2 * i:
        raise Modified(f"big {g!r} of row {i} is not the integer {BIG + 2 * i} that was written")
    fr = Fraction(v) * (1 if dtype == "int" else SCALE)
    if fr.denominator != 1:
        raise Modified(f"score {v!r}")
    return [int(fr), int(i)]


def _file(fmt, dtype, rg, rows, layout="mixed"):
    """a (cached) real file holding the rows; fmt: tsv / csv (both tab separated, as mokapot reads them) / parquet"""
    key = (fmt, dtype, rg if fmt == "parquet" else None, tuple((int(a), int(b)) for a, b in rows), layout)
    p = _FILES.get(key)
    if p is None:
        p = Path(_tmpdir()) / f"f{len(_FILES)}.{fmt}"
        df = _frame(rows, dtype) if layout == "mixed" else _frame_numeric(rows, dtype)
        if fmt == "parquet":
            kw = {} if not rg else {"row_group_size": int(rg)}
            df.to_parquet(p, index=False, **kw)
        else:
            df.to_csv(p, sep="\t", index=False)
        _FILES[key] = p
    return p


class Modified(Exception):
    pass


def _canon(d, dtype):
    """output row (dict-like) -> [score image, id]; raises if the row is not one of the rows written"""
    if sorted(d.keys()) != sorted(COLS):
        raise Modified(f"columns {sorted(d.keys())}")
    i = d["id"]
    i = i.item() if hasattr(i, "item") else i
    v = d["score"]
    v = v.item() if hasattr(v, "item") else v
    if isinstance(i, bool) or not isinstance(i, int):
        raise Modified(f"id {i!r}")
    if d["tag"] != f"r{i}" or float(d["aux"]) != i * 0.5:
        raise Modified(f"payload of row {i}: {d['tag']!r} {d['aux']!r}")
    fr = Fraction(v) * (1 if dtype == "int" else SCALE)
    if fr.denominator != 1:
        raise Modified(f"score {v!r}")
    return [int(fr), int(i)]


def _rows_of_df(df, dtype):
    if list(df.columns) != COLS:
        raise Modified(f"columns {list(df.columns)}")
    if list(df.index) != list(range(len(df))):
        raise Modified(f"index {list(df.index)}")
    if str(df["id"].dtype) != "int64" or str(df["score"].dtype) != ("int64" if dtype == "int" else "float64"):
        raise Modified(f"dtypes {df.dtypes.tolist()}")
    return [_canon(d, dtype) for d in df.to_dict(orient="records")]


# ----------------------------------------------------------------------------- real code
def _run_merge_sort(c):
    import mokapot.utils as U
    layout = c.get("layout", "mixed")
    paths = [_file(c["fmt"], c["dtype"], c.get("rg"), rows, layout) for rows in c["inputs"]]
    old = U.MERGE_SORT_CHUNK_SIZE
    U.MERGE_SORT_CHUNK_SIZE = int(c["rchunk"])
    try:
        out = list(U.merge_sort(paths, "score"))
    finally:
        U.MERGE_SORT_CHUNK_SIZE = old
    return [(_canon if layout == "mixed" else _canon_numeric)(d, c["dtype"]) for d in out]


def _readers(c):
    from mokapot.tabular_data import DataFrameReader, TabularDataReader
    b = c.get("backing", "df")
    if b == "df":
        return [DataFrameReader(_frame(rows, c["dtype"])) for rows in c["inputs"]]
    return [TabularDataReader.from_path(_file(b, c["dtype"], c.get("rg"), rows)) for rows in c["inputs"]]


def _run_table_full(c):
    from mokapot.streaming import MergedTabularDataReader
    rd = MergedTabularDataReader(_readers(c), "score", descending=bool(c["desc"]),
                                 reader_chunk_size=int(c["rchunk"]))
    if c["via"] == "read":
        return _rows_of_df(rd.read(), c["dtype"])
    oc = int(c["ochunk"])
    chunks = list(rd.get_chunked_data_iterator(chunk_size=oc))
    lens = [len(ch) for ch in chunks]
    if any(n != oc for n in lens[:-1]) or not lens or not (1 <= lens[-1] <= oc):
        raise Modified(f"chunk lengths {lens} for chunk_size {oc}")
    return [r for ch in chunks for r in _rows_of_df(ch, c["dtype"])]


def _run_table_stream(c):
    """-> [rows yielded, exception kind or None]"""
    from mokapot.streaming import MergedTabularDataReader, merge_readers
    from mokapot.tabular_data import TableType
    prefix, err = [], None
    try:
        if c["via"] == "merge_readers":
            it = merge_readers(_readers(c), "score", bool(c["desc"]), reader_chunk_size=int(c["rchunk"]))
            for ch in it:
                rows = _rows_of_df(ch, c["dtype"])
                if len(rows) != 1:
                    raise Modified(f"merge_readers chunk of {len(rows)} rows")
                prefix.extend(rows)
        else:
            rt = TableType[c["via"].split("-")[1]]
            rd = MergedTabularDataReader(_readers(c), "score", descending=bool(c["desc"]),
                                         reader_chunk_size=int(c["rchunk"]))
            for row in rd.get_row_iterator(row_type=rt):
                if rt == TableType.DataFrame:
                    prefix.extend(_rows_of_df(row, c["dtype"]))
                elif rt == TableType.Dicts:
                    prefix.append(_canon(row, c["dtype"]))
                else:
                    prefix.append(_canon({n: row[n] for n in row.dtype.names}, c["dtype"]))
    except BaseException as e:  # noqa
        if isinstance(e, (KeyboardInterrupt, SystemExit, MemoryError)):
            raise
        err = lib.err_kind(e)
    return [prefix, err]


def impl(c):
    if c["fn"] == "merge_sort":
        return call_impl(_run_merge_sort, c)
    if c["via"] in STREAM_VIAS:
        return _run_table_stream(c)
    return call_impl(_run_table_full, c)


# ----------------------------------------------------------------------------- model side
def _enc_inputs(inputs):
    return lib.lst(inputs, lambda inp: lib.lst(inp, lib.pair(lib.z, lib.z)))


def encode(c):
    if c["fn"] == "merge_sort":
        return "c14.merge_sort " + _enc_inputs(c["inputs"])
    if c["via"] in STREAM_VIAS:
        return f"c14.merge_stream {lib.b(c['desc'])} " + _enc_inputs(c["inputs"])
    return f"c14.merge_checked {lib.b(c['desc'])} " + _enc_inputs(c["inputs"])


def decode(c, t):
    row = lambda: [t.z(), t.z()]
    if c["fn"] == "table" and c["via"] in STREAM_VIAS:
        pre = t.lst(row)
        e = t.opt(lambda: lib.ERR_CODES[t.int()])
        return [pre, e]
    return t.result(lambda: t.lst(row))


def same(c, m, i):
    return lib.jsonable(m) == lib.jsonable(i)


# ----------------------------------------------------------------------------- property
def _sorted_dir(rows, desc):
    ks = [r[0] for r in rows]
    return all((a >= b) if desc else (a <= b) for a, b in zip(ks, ks[1:]))


def _declared_desc(c):
    return True if c["fn"] == "merge_sort" else bool(c["desc"])


def nontrivial(c):
    ins = c["inputs"]
    if len(ins) < 2:
        return False
    desc = _declared_desc(c)
    sets = [set(r[0] for r in inp) for inp in ins]
    shared = any(sets[a] & sets[b] for a in range(len(sets)) for b in range(a + 1, len(sets)))
    return shared or any(len(inp) == 1 for inp in ins) or any(not _sorted_dir(inp, desc) for inp in ins)


def oracle(c, i):
    """the property text on the implementation's output: every row exactly once, unmodified, globally sorted;
    the table merger rejects an input that is not sorted as declared"""
    ins = c["inputs"]
    if not ins or any(len(inp) == 0 for inp in ins):
        return None                       # outside the quantifier (1..8 inputs of 1..N rows)
    desc = _declared_desc(c)
    all_sorted = all(_sorted_dir(inp, desc) for inp in ins)
    stream = c["fn"] == "table" and c["via"] in STREAM_VIAS
    if stream:
        out, err = i[0], i[1]
    else:
        out, err = (i[1], None) if i[0] == "ok" else (None, i[1])
    want = sorted([int(a), int(b)] for inp in ins for a, b in inp)
    if all_sorted:
        if err is not None:
            return f"sorted inputs but the merge raised {err}"
        out = [[int(a), int(b)] for a, b in out]
        if sorted(out) != want:
            return f"output rows are not the input rows exactly once: got {out}, inputs {ins}"
        if not _sorted_dir(out, desc):
            return f"output not in {'non-increasing' if desc else 'non-decreasing'} score order: {out}"
        return None
    if c["fn"] == "table":
        if err != "ValueError":
            return (f"an input is not sorted {'descending' if desc else 'ascending'} but the table merger "
                    f"{'returned ' + str(out) if err is None else 'raised ' + str(err)} instead of ValueError")
        if stream and not _sorted_dir(out, desc):
            return f"rows yielded before the rejection are not in order: {out}"
    return None


def shrink(c):
    ins = c["inputs"]
    for j in range(len(ins)):
        if len(ins) > 1:
            yield dict(c, inputs=ins[:j] + ins[j + 1:])
    for j, inp in enumerate(ins):
        for p in range(len(inp)):
            if len(inp) > 1:
                yield dict(c, inputs=ins[:j] + [inp[:p] + inp[p + 1:]] + ins[j + 1:])
    if c.get("rchunk", 1) > 1:
        yield dict(c, rchunk=1)
    if c.get("backing", "df") != "df":
        yield dict(c, backing="df")
    # scores -> ranks
    ks = sorted({r[0] for inp in ins for r in inp})
    if ks != list(range(len(ks))):
        rk = {k: n for n, k in enumerate(ks)}
        yield dict(c, inputs=[[[rk[r[0]], r[1]] for r in inp] for inp in ins])


# ----------------------------------------------------------------------------- generators
def _with_ids(score_lists):
    return [[[int(k), 100 * j + p] for p, k in enumerate(ks)] for j, ks in enumerate(score_lists)]


def _shape_tags(ins, desc):
    n = sum(len(x) for x in ins)
    allk = [r[0] for inp in ins for r in inp]
    tags = [f"k={len(ins)}", f"rows={'0' if n == 0 else '1-3' if n <= 3 else '4-7' if n <= 7 else '8-20' if n <= 20 else '21+'}"]
    tags.append("ties" if len(set(allk)) < len(allk) else "no-ties")
    if any(len(inp) == 1 for inp in ins):
        tags.append("single-row-input")
    if any(len(inp) == 0 for inp in ins):
        tags.append("empty-input")
    if not ins:
        tags.append("no-inputs")
    if any(not _sorted_dir(inp, desc) for inp in ins):
        tags.append("unsorted-input")
    return tags


def _mk_table(ins, desc, via, rchunk, ochunk=1, dtype="float", backing="df", rg=None, extra=()):
    c = {"fn": "table", "desc": bool(desc), "inputs": ins, "via": via, "rchunk": int(rchunk), "ochunk": int(ochunk),
         "dtype": dtype, "backing": backing, "rg": rg}
    c["tags"] = (["table", "desc" if desc else "asc", via, f"backing={backing}", f"dtype={dtype}"]
                 + _shape_tags(ins, desc) + list(extra))
    return c


def _mk_ms(ins, fmt, rchunk, dtype="float", rg=None, extra=()):
    # a third of the merge_sort inputs are tables WITHOUT any string column (id, score and a 2^53+odd integer): a row
    # iterator that goes through a numeric array would turn the integers into floats
    layout = "numeric" if (len(ins) + sum(len(x) for x in ins)) % 3 == 0 else "mixed"
    c = {"fn": "merge_sort", "inputs": ins, "fmt": fmt, "rchunk": int(rchunk), "dtype": dtype, "rg": rg, "layout": layout}
    c["tags"] = ["merge_sort", f"fmt={fmt}", f"dtype={dtype}", f"layout={layout}"] + _shape_tags(ins, True) + list(extra)
    return c


def _exhaustive(maxn):
    """all tuples of <=3 descending score lists over {1,2,3} with <= maxn rows in total"""
    ms = {m: list(itertools.combinations_with_replacement((3, 2, 1), m)) for m in range(maxn + 1)}
    yield []
    for k in (1, 2, 3):
        for sizes in itertools.product(range(maxn + 1), repeat=k):
            if sum(sizes) > maxn:
                continue
            for combo in itertools.product(*[ms[s] for s in sizes]):
                yield [list(x) for x in combo]


def gen(ctx):
    cases = []
    # (1) exhaustive small scope
    maxn = 7 if ctx.thorough else 5
    for n, shape in enumerate(_exhaustive(maxn)):
        tot = sum(len(x) for x in shape)
        has_empty = (not shape) or any(len(x) == 0 for x in shape)
        if has_empty and n % 4:
            continue          # inputs without rows all fail alike before the first row: a quarter of them is enough
        ins = _with_ids(shape)
        rc = 1 + n % (tot + 1)
        cases.append(_mk_table(ins, True, "rows-Dicts", rc, extra=["exhaustive"]))
        asc = _with_ids([list(reversed(x)) for x in shape])
        via = VIAS[1 + n % 5]
        cases.append(_mk_table(asc, False, via, 1 + (n // 5) % (tot + 1), ochunk=1 + (n // 7) % (tot + 1),
                               dtype="int" if n % 2 else "float", extra=["exhaustive"]))
        fmt = "parquet" if n % 3 == 0 else "tsv"
        cases.append(_mk_ms(ins, fmt, 1 + (n // 3) % (tot + 1), dtype="int" if (n // 2) % 2 else "float",
                            rg=(1 + n % 2) if n % 6 == 0 else None, extra=["exhaustive"]))

    # (2) random sorted inputs
    rng = ctx.sub("structured")
    nrand = 6000 if ctx.thorough else 350
    structured = []
    for n in range(nrand):
        k = rng.choice([1, 2, 2, 3, 3, 4, 5, 6, 7, 8])
        N = rng.choice([1, 2, 3, 5, 8, 12] + ([20, 40] if ctx.thorough else []))
        pool = rng.choice([1, 2, 3, 5, 50, 10 ** 6])
        lo = rng.choice([0, -pool // 2, 10 ** 9])
        desc = rng.random() < 0.5
        lens = [1 if rng.random() < 0.2 else rng.randint(1, N) for _ in range(k)]
        shape = [sorted((lo + rng.randrange(pool) for _ in range(m)), reverse=desc) for m in lens]
        ins = _with_ids(shape)
        tot = sum(lens)
        dtype = rng.choice(["int", "float"])
        rchunk = rng.choice([1, 2, N, N + 1, rng.randint(1, N + 1)])
        rg = rng.choice([None, 1, 2])
        if rng.random() < 0.7:
            via = VIAS[n % 6]
            backing = rng.choice(["df", "df", "df", "tsv", "parquet"])
            c = _mk_table(ins, desc, via, rchunk, ochunk=rng.choice([1, 2, tot, tot + 1, rng.randint(1, tot + 1)]),
                          dtype=dtype, backing=backing, rg=rg, extra=["structured"])
        else:
            if not desc:
                ins = _with_ids([list(reversed(x)) for x in shape])
            c = _mk_ms(ins, rng.choice(["tsv", "csv", "parquet"]), rchunk, dtype=dtype, rg=rg, extra=["structured"])
        structured.append(c)
    cases.extend(structured)

    # (3) malformed stream
    rng = ctx.sub("malformed")
    nmal = 2500 if ctx.thorough else 250
    for n in range(nmal):
        base = structured[rng.randrange(len(structured))]
        c = {k: v for k, v in base.items() if k != "tags"}
        ins = [[list(r) for r in inp] for inp in c["inputs"]]
        kind = rng.choice(["swap-first", "swap-last", "swap-any", "swap-any", "shuffle", "direction", "empty", "none"])
        j = rng.randrange(len(ins))
        inp = ins[j]
        if kind.startswith("swap"):
            if len(inp) < 2:
                inp.append([inp[0][0], inp[0][1] + 50])
            p = {"swap-first": 0, "swap-last": len(inp) - 2}.get(kind, rng.randrange(len(inp) - 1))
            if inp[p][0] == inp[p + 1][0]:
                # make the pair unequal first (keeps the input sorted up to this pair's inversion)
                d = 1 if _declared_desc(c) else -1
                for q in range(p + 1):
                    inp[q][0] += d
            inp[p][0], inp[p + 1][0] = inp[p + 1][0], inp[p][0]
        elif kind == "shuffle":
            ks = [r[0] for r in inp]
            rng.shuffle(ks)
            for r, k in zip(inp, ks):
                r[0] = k
        elif kind == "direction":
            if c["fn"] == "table":
                c["desc"] = not c["desc"]
            else:
                for x in ins:
                    ks = [r[0] for r in x][::-1]
                    for r, k in zip(x, ks):
                        r[0] = k
        elif kind == "empty":
            ins[j] = []
            if c.get("backing", "df") != "df":
                c["backing"] = "df"      # an empty tsv has other column types: constructor assertion, not the merge
        elif kind == "none":
            ins = []
        c["inputs"] = ins
        if c["fn"] == "table":
            m = _mk_table(ins, c["desc"], c["via"], c["rchunk"], c["ochunk"], c["dtype"], c["backing"], c["rg"],
                          extra=["malformed", kind])
        else:
            m = _mk_ms(ins, c["fmt"], c["rchunk"], c["dtype"], c["rg"], extra=["malformed", kind])
        cases.append(m)
    return cases
