"""C12 — training alignment: correspondence of Model/Fit.v with mokapot.model.Model.fit / predict /
save_model / load_model, driven with a recording deterministic estimator (row-id feature column).

The Coq model sees every case in a CANONICAL form (integer feature values, plain feature names, the
permutation drawn by the generator).  The real code sees the same case in one of many PRESENTATIONS
(field "pres": row labels, column order and container of feature_columns, dtypes of features / targets /
scores, an order-isomorphic value map, a position-dependent scaler, the kind of rng argument, a
hyper-parameter search wrapper, the order of predict calls, an earlier fit on the same Model object);
the implementation's answers are mapped back to the canonical form before the comparison."""
import itertools
import json
import os
import random as _random
import subprocess
import sys
import tempfile
from fractions import Fraction
from pathlib import Path

from .. import lib
from ..lib import call_impl

PROP = "C12"
RULE = ("(1) small scope: n=4..5 rows, every target vector with both classes x rank patterns of 2 score columns x "
        "shuffle on/off x order-independent/order-dependent estimator x max_iter 1..3; (2) random: n<=60 (quick, plus a stream "
        "with 201..260 rows: beyond the 'few PSMs' bound of 200) / 300 "
        "(thorough) rows, 1..4 candidate score columns with ties, extra feature columns, start = best feature / direction "
        "/ pretrained (stored feature order = or != table order), estimators with decision_function / 2-column predict_proba "
        "/ 1-column predict_proba / 1-dimensional predict_proba / predict_proba as nested lists, max_iter 1..10, train_fdr in {0.01..1.0}, override, shuffle, seeds; second table with "
        "permuted / repeated rows and permuted / wrong feature columns; separable and rising/declining runs (labels and "
        "fitted state change between iterations, both 'performs worse' exits); (3) edge stream: no targets, no decoys, "
        "unknown direction, nothing passes, single-row tables, two-row tables, max_iter=0; (4) Model.predict alone: stored "
        "names vs table names, untrained model; (5) save_model/load_model round trip on a third of the cases, to a fresh path, to a path that already holds another model, and to a path holding an unrelated leftover; "
        "a sample of saved models is also loaded in a FRESH interpreter (other PYTHONHASHSEED, no module state). "
        "(6) PRESENTATION, drawn independently for two thirds of the cases of (1)-(4) and invisible to the Coq model: row labels of the input frame "
        "(RangeIndex / permuted integers / strings / duplicated), DataFrame column order (features interleaved with metadata, an unused column), "
        "feature_columns as list / tuple / pandas Index / None (inferred), feature-name styles (plain / case- and whitespace-colliding / names of internal columns), "
        "feature dtypes float64 / int64 / int32 / float32 / mixed, target column as bool / 0-1 int / 0.0-1.0 float / object, copy_data, "
        "an order-isomorphic value map v -> v*2^k + c of the non-id features (eighths, 2^-10 steps, offsets 2^30 / -2^33: equal only after a cast to float32 / int / rounding), "
        "scores returned as float64 / float32 / int64, a position-dependent recording scaler (column j times 2^(j+1), undone inside the estimator; counts its fits), "
        "rng as int / numpy integer / Generator, train_fdr as float / numpy.float64 / int, max_iter as int / numpy.int64, numpy's and random's global state set to a drawn seed, GridSearchCV around the estimator (every fold fit is checked for rows "
        "carrying their own label; best parameters must reach the fitted estimator), predict calls in the other order and repeated, and an EARLIER fit of the same Model object "
        "on a sub-table (the model gets the second draw of the generator and, if the first fit succeeded, the re-fit branch with the state the MODEL computes for the first fit). "
        "The estimator records the WHOLE feature row next to each label: a row whose features are those of another PSM is a disagreement. "
        "(7) real estimators, checked by the property oracle alone (no Coq model; verdict = the oracle): LinearSVC / LogisticRegression / GridSearchCV(LinearSVC) with StandardScaler / MinMaxScaler / as-is on "
        "continuous features: every fit call gets rows (recovered through scaler.inverse_transform) with their own labels, positives = targets with q <= train_fdr under the scores the estimator "
        "returned just before, prediction of a row-subset / column-permuted table = prediction of the same rows of the training table (1e-9), pickle round trip identical, wrong feature set -> ValueError. "
        "distinct = distinct case (canonical part + presentation); non-trivial = the implementation called estimator.fit at least twice in the main loop, or left through an error exit, "
        "or (predict stream) a trained model; counted from the observed run, not from the case parameters")
ASSUMPTIONS = [
    "feature values are integers (canonical form) presented as v*2^k + c, exactly representable in the dtype used; scores handed to the model are the canonical integers (order and ties exact)",
    "train_fdr is a decimal literal: the model gets the exact decimal, the implementation float(decimal)",
    "rng.permutation is an oracle: sigma = numpy.random.default_rng(seed).permutation(arange(n)) (the second draw for a second fit) is passed to the model as data "
    "(contract checked: it is a permutation and it is what Model.fit draws)",
    "scaler='as-is' (DummyScaler) or the recording scaler (columnwise powers of two, exact); StandardScaler / MinMaxScaler only in the real-estimator stream (tolerance 1e-9); "
    "pickle is an oracle for save/load (contract: identical predictions)",
    "feature names are unique strings",
    "re-fitting a trained model scores the table with the raw estimator on positional, unscaled features (F17, modelled as written): re-fit cases use the as-is scaler",
]
TRUSTED_EXTRA = ["numpy fancy indexing / argsort, pandas .loc selection, pickle are exercised, not modelled",
                 "the recording estimator harness/props/c12.py:_RecBase is the learner oracle; its Coq twin is Fit.fit_demo_learn",
                 "real-estimator stream (fn='real'): no Coq model, the property oracle is the verdict"]

LOGS = {}
_KEY = [0]
_OUTCOME = {}          # case hash -> (number of main-loop fit calls, "ok" / "err")   (for an honest `nontrivial`)
_SIDE = {}             # case hash -> facts about an earlier fit of the same Model object (for the oracle)


def _chash(c):
    return lib.stable_hash({k: v for k, v in c.items() if k != "tags"})


# ----------------------------------------------------------------------------- the recording estimator
def _learn(lk, kk, pairs):
    """fitted state as a function of the (row id, label) pairs handed to fit, in order"""
    codes = [(i + 1) * (3 if y == 1 else 2) for i, y in pairs]
    if lk == 0:
        return sum(codes) % kk
    if lk == 1:
        return sum((j + 1) * c for j, c in enumerate(codes)) % kk
    return 0


def _make_classes():
    import numpy as np
    from sklearn.base import BaseEstimator

    class _RecBase(BaseEstimator):
        """lk, idc, sc0, kk: see Fit.fit_demo_learn; unscale: undo the recording scaler (column j was
        multiplied by 2^(j+1)); sdtype: dtype of the scores handed back; hp / want: a hyper-parameter
        without influence on the fit whose best value (for GridSearchCV) is `want`"""

        def __init__(self, lk=0, idc=0, sc0=1, kk=1, log_key=None, unscale=0, sdtype="float64", hp=0, want=0):
            self.lk = lk
            self.idc = idc
            self.sc0 = sc0
            self.kk = kk
            self.log_key = log_key
            self.unscale = unscale
            self.sdtype = sdtype
            self.hp = hp
            self.want = want

        def _x(self, X):
            X = np.asarray(X)
            if X.ndim != 2:
                raise AssertionError("X is not two-dimensional")
            if self.unscale:
                X = X / (2.0 ** (np.arange(X.shape[1]) + 1))
            return X

        def fit(self, X, y):
            X = self._x(X)
            y = np.asarray(y)
            if y.ndim != 1 or len(y) != X.shape[0]:
                raise AssertionError("X and y differ in length")
            ids = [float(v) for v in X[:, self.idc]]
            pairs = [(int(i) if i == int(i) else i, float(v)) for i, v in zip(ids, y)]
            LOGS.setdefault(self.log_key, []).append(
                {"obj": id(self), "pairs": pairs, "rows": [[float(v) for v in row] for row in X]})
            self.g_ = _learn(self.lk, self.kk, [(int(i), v) for i, v in pairs])
            return self

        def score(self, X, y):          # used by GridSearchCV only
            return -abs(float(self.hp) - float(self.want))

        def _s(self, X):
            X = self._x(X)
            return X[:, self.sc0 + self.g_].astype(self.sdtype)

    class RecDF(_RecBase):
        def decision_function(self, X):
            return self._s(X)

    class RecProba2(_RecBase):
        def predict_proba(self, X):
            s = self._s(X)
            return np.column_stack([-s, s])

    class RecProba1(_RecBase):
        def predict_proba(self, X):
            return self._s(X).reshape(-1, 1)

    class RecProbaFlat(_RecBase):       # one-dimensional predict_proba
        def predict_proba(self, X):
            return self._s(X)

    class RecProbaLists(_RecBase):      # two columns, as nested Python lists
        def predict_proba(self, X):
            s = self._s(X)
            return [[-v, v] for v in s.tolist()]

    class RecScaler(BaseEstimator):
        """scikit-learn transformer interface; column j is multiplied by 2^(j+1) (exact, strictly increasing per
        column, but NOT the same for every column: transforming a table whose columns are in another order
        than at fit time gives other numbers).  Counts its fits."""

        def __init__(self, base=2.0):
            self.base = base

        def fit(self, X, y=None):
            X = np.asarray(X)
            self.n_features_in_ = X.shape[1]
            self.fits_ = getattr(self, "fits_", 0) + 1
            return self

        def transform(self, X):
            X = np.asarray(X, dtype=float)
            if X.shape[1] != self.n_features_in_:
                raise ValueError("number of features differs from fit")
            return X * (self.base ** (np.arange(X.shape[1]) + 1))

        def fit_transform(self, X, y=None):
            return self.fit(X).transform(X)

    for cls in (_RecBase, RecDF, RecProba2, RecProba1, RecProbaFlat, RecProbaLists, RecScaler):
        cls.__module__ = __name__
        cls.__qualname__ = cls.__name__
        globals()[cls.__name__] = cls
    return RecDF, RecProba2, RecProba1, RecProbaFlat, RecProbaLists, RecScaler


_CLASSES = None
_CLASS_NAMES = ("_RecBase", "RecDF", "RecProba2", "RecProba1", "RecProbaFlat", "RecProbaLists", "RecScaler")


def _classes():
    global _CLASSES
    if _CLASSES is None:
        _CLASSES = _make_classes()
    return _CLASSES


def __getattr__(name):          # so that pickle finds the classes in a fresh interpreter as well
    if name in _CLASS_NAMES:
        _classes()
        return globals()[name]
    raise AttributeError(name)


# ----------------------------------------------------------------------------- helpers
def sigma_of(seed, n, earlier=None):
    """what Model(rng=seed).fit draws for a table of n rows; earlier = number of rows of a table the same
    generator was used for before (an earlier fit that got as far as the shuffle)"""
    import numpy as np
    g = np.random.default_rng(seed)
    if earlier is not None:
        g.permutation(np.arange(earlier))
    return [int(v) for v in g.permutation(np.arange(n))]


def second_table(c):
    """(names2, cols2, n2) of the prediction table: rows c['prow'] of the training table, columns
    c['pnames'] (a name unknown to the training table is a column of zeros)"""
    byname = dict(zip(c["names"], c["cols"]))
    prow = c["prow"]
    cols2 = []
    for nm in c["pnames"]:
        col = byname.get(nm)
        cols2.append([col[r] for r in prow] if col is not None else [0] * len(prow))
    return list(c["pnames"]), cols2, len(prow)


# ---- presentation of a canonical table to the real code
CANON = ["id", "c0", "c1", "c2", "c3", "e0", "e1", "zz"]
_STYLE1 = dict(zip(CANON, ["ID ", "\u00c4", "\u00e4", " a", "a ", "A.1", "a.1", "\u03b1 \u03b2"]))
_STYLE2 = dict(zip(CANON, ["index", "score", "spectrum", "peptide", "label", "level_0", "q-value", "targets"]))
VMAPS = [(0, 0), (-3, 0), (-10, 0), (0, 2 ** 30), (0, -2 ** 33), (-3, 2 ** 20), (4, 1)]
PRES0 = {"index": 0, "dfperm": None, "fcols": "list", "fdtype": "float64", "tdtype": "bool", "copy": True, "nstyle": 0,
         "vmap": [0, 0], "scaler": 0, "rng": "int", "wrap": 0, "sdtype": "float64", "porder": 0, "gstate": None,
         "thr_type": "float", "iter_type": "int"}


def _pres(c):
    p = dict(PRES0)
    p.update(c.get("pres") or {})
    return p


def _nm(style, name):
    if style == 1:
        return _STYLE1.get(name, name)
    if style == 2:
        return _STYLE2.get(name, name)
    return name


def _meta_names(style):
    return ("is_target", "specid", "pep") if style == 2 else ("target", "spectrum", "peptide")


def _vmap(pres, v):
    sp, off = pres["vmap"]
    x = Fraction(v) * Fraction(2) ** sp + off
    f = float(x)
    if Fraction(f) != x:
        raise AssertionError("value map is not exact")
    return f


def _unmap(pres, vals):
    """canonical integers of scores the implementation returned (ValueError if a score is not the image of an integer)"""
    sp, off = pres["vmap"]
    out = []
    for v in vals:
        x = (Fraction(float(v)) - off) / Fraction(2) ** sp
        if x.denominator != 1:
            raise ValueError("score is not the image of a canonical integer")
        out.append(int(x))
    return out


def _present_cols(names, cols, pres, idc):
    """the feature columns as the implementation gets them (floats, exact)"""
    return [[float(v) for v in col] if j == idc else [_vmap(pres, v) for v in col] for j, col in enumerate(cols)]


def _dataset(names, cols, targets, enforce, pres=None, idc=None):
    import numpy as np
    import pandas as pd
    from mokapot.dataset import LinearPsmDataset
    pres = dict(PRES0, **(pres or {}))
    n = len(targets)
    st = pres["nstyle"]
    tcol, scol, pcol = _meta_names(st)
    tv = np.array([bool(t) for t in targets], dtype=bool)
    tv = {"bool": tv, "int": tv.astype("int64"), "float": tv.astype(float),
          "object": np.array([bool(t) for t in targets], dtype=object)}[pres["tdtype"]]
    d = {tcol: tv, scol: np.arange(n), pcol: ["P%d" % j for j in range(n)]}
    fnames = [_nm(st, nm) for nm in names]
    fd = pres["fdtype"]
    for j, (nm, col) in enumerate(zip(fnames, _present_cols(names, cols, pres, idc))):
        dt = ("int64" if j == idc else "float64") if fd == "mixed" else fd
        arr = np.array(col, dtype="float64").astype(dt)
        if [float(v) for v in arr] != col:
            raise AssertionError("feature values are not representable in " + dt)
        d[nm] = arr
    order = [tcol, scol, pcol] + fnames
    fcols = pres["fcols"]
    if pres["dfperm"] is not None:
        rr = _random.Random(pres["dfperm"])
        if fcols == "none":          # inferred feature columns: the features keep their relative order, the rest is interleaved
            slots = sorted(rr.sample(range(len(order)), 3))
            rest = iter(fnames)
            meta = [tcol, scol, pcol]
            rr.shuffle(meta)
            meta = iter(meta)
            order = [next(meta) if k in slots else next(rest) for k in range(len(order))]
        else:
            d["unused"] = np.array([rr.random() for _ in range(n)], dtype=float)
            order = order + ["unused"]
            rr.shuffle(order)
    df = pd.DataFrame(d, columns=order)
    ix = pres["index"]
    if ix:
        rr = _random.Random(1000 + ix + n)
        lab = list(range(n))
        rr.shuffle(lab)
        df.index = ([v + 5 for v in lab] if ix == 1 else ["r%d" % v for v in lab] if ix == 2 else [v // 2 for v in range(n)])
    fc = {"list": list(fnames), "tuple": tuple(fnames), "index": pd.Index(fnames), "none": None}[fcols]
    return LinearPsmDataset(df, target_column=tcol, spectrum_columns=scol, peptide_column=pcol,
                            feature_columns=fc, copy_data=pres["copy"], enforce_checks=enforce)


def _ints(arr, pres=None):
    return _unmap(pres or PRES0, list(arr))


SKINDS = 5          # 0 decision_function, 1 two-column predict_proba, 2 one-column, 3 one-dimensional, 4 nested lists (two columns)
_SKIND_MODEL = {0: 0, 1: 1, 2: 2, 3: 2, 4: 1}       # what Fit.v distinguishes


def _estimator(c, key):
    cls = _classes()[c["skind"]]
    pres = _pres(c)
    return cls(lk=c["lk"], idc=c["idc"], sc0=c["sc0"], kk=c["kk"], log_key=key, unscale=int(bool(pres["scaler"])),
               sdtype=pres["sdtype"], hp=0, want=(c.get("seed", 0) % 3 if pres["wrap"] else 0))


def q_spec(scores, targets, desc=True):
    """the defining formula of the q-value (independent of mokapot and of the Coq model)"""
    n = len(scores)
    key = [-s if desc else s for s in scores]
    fd = {}
    for k in set(key):
        t = sum(1 for j in range(n) if targets[j] and key[j] <= k)
        d = sum(1 for j in range(n) if not targets[j] and key[j] <= k)
        fd[k] = Fraction(1) if t == 0 else Fraction(d + 1, t)
    best, cur = {}, Fraction(1)
    for k in sorted(fd, reverse=True):
        cur = min(cur, fd[k])
        best[k] = cur
    return [best[k] for k in key]


def spec_labels(scores, targets, thr, desc=True):
    return [(-1 if not t else (1 if q <= thr else 0)) for q, t in zip(q_spec(scores, targets, desc), targets)]


# ----------------------------------------------------------------------------- generation
THRS = ["0.01", "0.05", "0.1", "0.2", "0.25", "0.3", "0.34", "0.5", "0.75", "1.0"]


def _layout(rng, kk, nextra):
    """feature names in training order: the id column, the block of kk score columns, extra columns"""
    blocks = [["id"], ["c%d" % j for j in range(kk)]] + [["e%d" % j] for j in range(nextra)]
    rng.shuffle(blocks)
    names = [nm for b in blocks for nm in b]
    return names, names.index("id"), names.index("c0")


def _case(names, cols, targets, idc, sc0, kk, *, lk=0, skind=0, mode=0, dir_="", g0=0, seed=1, shuffle=True,
          thr="0.5", max_iter=2, override=False, prow=None, pnames=None, enforce=True, pickle_=False, pre_names=None,
          pres=None, first=None, tags=()):
    n = len(targets)
    return {"fn": "fit", "names": list(names), "cols": [list(c) for c in cols], "targets": [int(bool(t)) for t in targets],
            "lk": lk, "idc": idc, "sc0": sc0, "kk": kk, "skind": skind, "mode": mode, "dir": dir_, "g0": g0,
            "seed": seed, "shuffle": bool(shuffle), "thr": thr, "max_iter": max_iter, "override": bool(override),
            "prow": list(range(n)) if prow is None else list(prow),
            "pnames": list(names) if pnames is None else list(pnames),
            "enforce": bool(enforce), "pickle": bool(pickle_), "pre_names": pre_names,
            "pres": pres, "first": first, "tags": list(tags)}


def _draw_pres(rng, c):
    """a presentation of the case for the real code (compatible with the case: integer dtypes and low-precision
    scores only with the identity value map; re-fit cases keep the as-is scaler, see ASSUMPTIONS)"""
    fit = c["fn"] == "fit"
    refit = fit and (c["mode"] == 2 or c.get("first"))
    p = {"index": rng.choice([0, 1, 2, 3]), "fcols": rng.choice(["list", "tuple", "index", "none"]),
         "dfperm": rng.choice([None, rng.randrange(10 ** 6), rng.randrange(10 ** 6)]),
         "nstyle": rng.choice([0, 0, 1, 2]), "tdtype": rng.choice(["bool", "bool", "int", "float", "object"]),
         "copy": rng.random() < 0.7}
    fd = rng.choice(["float64", "float64", "float64", "int64", "int32", "float32", "mixed"])
    vm = rng.choice(VMAPS) if fd in ("float64", "mixed") else (0, 0)
    p["fdtype"], p["vmap"] = fd, list(vm)
    p["sdtype"] = rng.choice(["float64", "float32", "int64"]) if tuple(vm) == (0, 0) else "float64"
    p["scaler"] = 0 if refit else rng.choice([0, 1])
    p["rng"] = rng.choice(["int", "npint", "generator"])
    p["wrap"] = 0 if (refit or not fit) else rng.choice([0, 0, 0, 1, 2])      # 1: GridSearchCV(refit=False), 2: refit=True
    p["porder"] = rng.choice([0, 1])
    p["gstate"] = rng.choice([None, rng.randrange(2 ** 31)])
    p["thr_type"] = rng.choice(["float", "float", "npfloat64", "int" if c.get("thr") == "1.0" else "npfloat64"])
    p["iter_type"] = rng.choice(["int", "int", "npint"])
    # unsigned feature columns (ranks, counts, charges of a Parquet / typed table): negating such a column wraps, so
    # every place that handles 'lower is better' by a sign flip shows here.  Drawn last: the fields above keep their
    # values for a given seed.  Only for tables whose canonical values are all representable.
    if rng.random() < 0.3 and tuple(vm) == (0, 0) and c.get("cols"):
        vals = [v for col in c["cols"] for v in col]
        if vals and all(float(v) == int(v) and 0 <= v for v in vals):
            fits = [dt for dt, top in (("uint8", 2 ** 8), ("uint16", 2 ** 16), ("uint32", 2 ** 32), ("uint64", 2 ** 53)) if max(vals) < top]
            if fits:
                p["fdtype"] = rng.choice(fits)
    return p


def _pres_tags(p):
    if not p:
        return ["pres:canonical"]
    t = ["pres:drawn"]
    for k, v in sorted(p.items()):
        if v != PRES0[k]:
            t.append("pres:%s=%s" % (k, "drawn" if k in ("dfperm", "gstate") else ("%d,%d" % tuple(v) if k == "vmap" else v)))
    return t


def _draw_first(rng, c):
    """an earlier fit of the same Model object: on a sub-table (rows in another order) holding both classes"""
    n = len(c["targets"])
    tg = [r for r in range(n) if c["targets"][r]]
    dc = [r for r in range(n) if not c["targets"][r]]
    if not tg or not dc:
        return None
    rest = [r for r in range(n)]
    rng.shuffle(rest)
    k = n if rng.random() < 0.4 else rng.randint(2, n)
    rows = [rng.choice(tg), rng.choice(dc)]
    rows += [r for r in rest if r not in rows][: max(0, k - 2)]
    rng.shuffle(rows)
    return {"rows": rows}


def _decorate(rng, cases, share=0.67, first_share=0.12):
    """draws presentations (and earlier fits) for a list of canonical cases"""
    for c in cases:
        if c["fn"] == "fit" and c["mode"] != 2 and "edge" not in c["tags"] and rng.random() < first_share:
            c["first"] = _draw_first(rng, c)
            if c["first"]:
                c["tags"].append("fit-twice")
        if rng.random() < share:
            c["pres"] = _draw_pres(rng, c)
        c["tags"].extend(_pres_tags(c.get("pres")))
    return cases


def _random_case(rng, nmax, tags, force=None):
    force = force or {}
    n = force.get("n") or rng.randint(2, nmax)
    kk = rng.randint(1, 4)
    nextra = rng.randint(0, 2)
    names, idc, sc0 = _layout(rng, kk, nextra)
    frac = rng.choice([0.5, 0.6, 0.75, 0.9])
    targets = [1 if rng.random() < frac else 0 for _ in range(n)]
    if 1 not in targets:
        targets[rng.randrange(n)] = 1
    if 0 not in targets:
        targets[rng.randrange(n)] = 0
    ids = list(range(n))
    if rng.random() < 0.7:
        rng.shuffle(ids)
    off = rng.choice([0, 0, 7, 100])
    ids = [v + off for v in ids]
    levels = rng.choice([3, 6, 20, 1000])
    byname = {"id": ids}
    for nm in names:
        if nm == "id":
            continue
        # informative columns put most targets above the decoys; ties through the small number of levels
        p_hi = rng.choice([0.0, 0.3, 0.6, 0.8, 0.95, 0.95])
        flip = rng.random() < 0.15            # lower is better
        col = []
        for t in targets:
            base = rng.randrange(levels)
            if t and rng.random() < p_hi:
                base += levels + rng.randrange(levels)
            col.append(-base if flip else base)
        byname[nm] = col
    cols = [byname[nm] for nm in names]
    mode = force.get("mode", rng.choice([0, 0, 1, 1, 2]))
    dir_ = ""
    if mode == 1:
        dir_ = rng.choice([nm for nm in names if nm != "id"] + (["id"] if rng.random() < 0.1 else []))
    skind = force.get("skind", rng.choice([0, 0, 1, 2, 3, 4]))
    # second table
    prow = list(range(n))
    r = rng.random()
    if r < 0.6:
        rng.shuffle(prow)
    elif r < 0.75:
        prow = [rng.randrange(n) for _ in range(rng.randint(1, n + 2))]
    pnames = list(names)
    r = rng.random()
    if r < 0.65:
        rng.shuffle(pnames)
    elif r < 0.75:
        pnames.pop(rng.randrange(len(pnames)))
        rng.shuffle(pnames)
    elif r < 0.85:
        pnames.insert(rng.randrange(len(pnames) + 1), "zz")
    elif r < 0.92:
        pnames[rng.randrange(len(pnames))] = "zz"
    pre_names = None
    if mode == 2 and rng.random() < 0.5:
        pre_names = list(names)
        rng.shuffle(pre_names)
    return _case(names, cols, targets, idc, sc0, kk, pre_names=pre_names,
                 lk=force.get("lk", rng.choice([0, 0, 1, 1, 2])), skind=skind, mode=mode, dir_=dir_,
                 g0=rng.randrange(kk), seed=rng.randrange(10 ** 6), shuffle=force.get("shuffle", rng.random() < 0.5),
                 thr=force.get("thr", rng.choice(THRS if n >= 25 else THRS[3:])), max_iter=force.get("max_iter", rng.choice([1, 1, 2, 2, 3, 3, 4, 5, 7, 10])),
                 override=rng.random() < 0.5, prow=prow, pnames=pnames, pickle_=rng.random() < 0.33, tags=tags)


def gen(ctx):
    cases = []
    # (1) small scope
    rng = ctx.sub("small")
    patterns = [(p, q) for p in itertools.permutations(range(4)) for q in [(3, 2, 1, 0), (0, 0, 1, 1), (2, 0, 3, 1)]]
    names = ["id", "c0", "c1"]
    for n in (4, 5) if ctx.thorough else (4,):
        for tv in itertools.product((0, 1), repeat=n):
            if sum(tv) in (0, n):
                continue
            for (p, q) in patterns[:: (1 if ctx.thorough else 5)]:
                p = list(p) + [rng.randrange(4) for _ in range(n - 4)]
                q = list(q) + [rng.randrange(4) for _ in range(n - 4)]
                shuffle = rng.random() < 0.5
                for lk in (0, 1):
                    cases.append(_case(names, [list(range(n)), p, q], tv, 0, 1, 2, lk=lk, seed=rng.randrange(1000),
                                       shuffle=shuffle, thr=rng.choice(["0.5", "1.0", "0.34"]), max_iter=rng.randint(1, 3),
                                       override=rng.random() < 0.5, mode=rng.choice([0, 1]), dir_="c0",
                                       tags=("small", f"n={n}", "shuffle" if shuffle else "no-shuffle")))
    # (2) random
    rng = ctx.sub("random")
    nr = 4000 if ctx.thorough else 700
    for k in range(nr):
        nmax = rng.choice([8, 20, 60, 300] if ctx.thorough else [8, 20, 60])
        c = _random_case(rng, nmax, ())
        c["tags"] = ["random", ("shuffle" if c["shuffle"] else "no-shuffle"), "mode=%d" % c["mode"],
                     "skind=%d" % c["skind"], "lk=%d" % c["lk"]]
        if set(c["pnames"]) != set(c["names"]):
            c["tags"].append("wrong-feature-set")
        elif c["pnames"] != c["names"]:
            c["tags"].append("columns-permuted")
        if c["pickle"]:
            c["tags"].append("pickle")
        if c["pre_names"]:
            c["tags"].append("pretrained-other-stored-order")
        cases.append(c)
    # separable data: long runs (several iterations, labels changing)
    rng = ctx.sub("separable")
    for k in range(600 if ctx.thorough else 150):
        c = _random_case(rng, rng.choice([20, 60]), (), force={"thr": rng.choice(["0.1", "0.2", "0.25", "0.3", "0.5"]),
                                                                 "max_iter": rng.randint(2, 10)})
        c["override"] = k % 3 == 0
        c["tags"] = ["separable", "shuffle" if c["shuffle"] else "no-shuffle", "override" if c["override"] else "no-override"]
        cases.append(c)
    # runs whose number of accepted targets goes up and down around the starting count (the two
    # "performs worse" exits): score column c0 separates well, c1 badly, the direction feature e0 in between
    rng = ctx.sub("decline")
    for k in range(600 if ctx.thorough else 160):
        n = rng.randint(12, 40)
        names, idc, sc0 = _layout(rng, 2, 1)
        targets = [1 if rng.random() < 0.65 else 0 for _ in range(n)]
        targets[0], targets[1] = 1, 0
        ids = list(range(n))
        rng.shuffle(ids)
        hi = {"c0": 0.9, "c1": rng.choice([0.15, 0.3]), "e0": rng.choice([0.4, 0.6])}
        if rng.random() < 0.5:
            hi["c0"], hi["c1"] = hi["c1"], hi["c0"]
        byname = {"id": ids}
        for nm in ("c0", "c1", "e0"):
            byname[nm] = [(20 + rng.randrange(20)) if (t and rng.random() < hi[nm]) else rng.randrange(10) for t in targets]
        c = _case(names, [byname[nm] for nm in names], targets, idc, sc0, 2, lk=rng.choice([0, 1]), skind=rng.choice([0, 0, 1, 2, 3, 4]),
                  mode=rng.choice([0, 1, 1]), dir_="e0", seed=rng.randrange(10 ** 6), shuffle=rng.random() < 0.5,
                  thr=rng.choice(["0.1", "0.2", "0.3"]), max_iter=rng.randint(2, 5), override=rng.random() < 0.3)
        c["tags"] = ["decline", "shuffle" if c["shuffle"] else "no-shuffle"]
        cases.append(c)
    # (3) edge stream
    rng = ctx.sub("edge")
    for k in range(240 if ctx.thorough else 120):
        kind = ["no-targets", "no-decoys", "bad-direction", "nothing-passes", "one-row-table", "max-iter-0",
                "pre-proba2", "two-rows"][k % 8]
        c = _random_case(rng, 12, ())
        n = len(c["targets"])
        if kind == "no-targets":
            c["targets"] = [0] * n
            c["enforce"] = False
        elif kind == "no-decoys":
            c["targets"] = [1] * n
            c["enforce"] = False
        elif kind == "bad-direction":
            c["mode"], c["dir"] = 1, rng.choice(["nope", "target", "C0"])
        elif kind == "nothing-passes":
            c["thr"] = rng.choice(["0.0", "0.001", "0.01"])
        elif kind == "one-row-table":
            c["prow"] = [rng.randrange(n)]
            c["pnames"] = list(c["names"])
            rng.shuffle(c["pnames"])
            c["thr"], c["override"], c["skind"] = "1.0", True, rng.choice([0, 1, 2, 3, 4])
        elif kind == "max-iter-0":
            c["max_iter"] = 0
        elif kind == "pre-proba2":
            c["mode"], c["skind"] = 2, rng.choice([1, 1, 3, 4])
        elif kind == "two-rows":
            c = _case(["id", "c0"], [[5, 3], [rng.randrange(3), rng.randrange(3)]], rng.choice([[1, 0], [0, 1]]), 0, 1, 1,
                      lk=rng.choice([0, 1]), skind=rng.choice([0, 1, 2, 3, 4]), seed=rng.randrange(100), shuffle=rng.random() < 0.5,
                      thr="1.0", max_iter=rng.randint(1, 3), override=rng.random() < 0.5)
        c["tags"] = ["edge", kind]
        cases.append(c)
    # (4) decision_function alone: stored names vs table names
    rng = ctx.sub("predict")
    for k in range(300 if ctx.thorough else 100):
        kk = rng.randint(1, 3)
        stored, idc, sc0 = _layout(rng, kk, rng.randint(0, 2))
        n = rng.choice([1, 1, 2, 3, 7])
        pn = list(stored)
        r = rng.random()
        if r < 0.5:
            rng.shuffle(pn)
        elif r < 0.65:
            pn.pop(rng.randrange(len(pn)))
        elif r < 0.8:
            pn.append("zz")
        elif r < 0.9:
            pn[rng.randrange(len(pn))] = "zz"
        cases.append({"fn": "predict", "trained": rng.random() < 0.9, "sc0": sc0, "idc": idc, "kk": kk, "stored": stored,
                      "skind": rng.choice([0, 1, 2, 3, 4]), "g": rng.randrange(kk), "names": pn,
                      "cols": [[rng.randrange(50) for _ in range(n)] for _ in pn], "n": n,
                      "tags": ["predict", "n=1" if n == 1 else "n>1",
                               "same-set" if set(pn) == set(stored) else "wrong-feature-set"]})
    # (2b) more rows than the 'few PSMs' bound of Model.fit (200), in both tiers
    rng = ctx.sub("large")
    for k in range(60 if ctx.thorough else 24):
        c = _random_case(rng, 0, (), force={"n": rng.randint(201, 260 if not ctx.thorough else 420),
                                            "max_iter": rng.choice([1, 2, 3])})
        c["tags"] = ["large", "shuffle" if c["shuffle"] else "no-shuffle", "skind=%d" % c["skind"]]
        cases.append(c)
    # (6) presentations and earlier fits
    _decorate(ctx.sub("presentation"), cases)
    # (7) real estimators (oracle only)
    rng = ctx.sub("real")
    for k in range(120 if ctx.thorough else 36):
        est = ["svc", "logreg", "perc", "grid"][k % 4]
        sc = rng.choice(["standard", "standard", "minmax", "as-is"])
        nf = rng.randint(2, 5)
        n = rng.choice([60, 120, 250]) if not ctx.thorough else rng.choice([60, 120, 250, 600])
        pn = list(range(nf + 1))
        r = rng.random()
        if r < 0.7:
            rng.shuffle(pn)
        elif r < 0.85:
            pn.pop(rng.randrange(len(pn)))
        m = rng.randint(1, n)
        cases.append({"fn": "real", "est": est, "scaler": sc, "n": n, "nf": nf, "dseed": rng.randrange(10 ** 6),
                      "seed": rng.randrange(10 ** 6), "shuffle": rng.random() < 0.5, "thr": rng.choice(["0.05", "0.1", "0.2"]),
                      "max_iter": rng.randint(1, 4), "direction": rng.random() < 0.3, "pcols": pn,
                      "prow": [rng.randrange(n) for _ in range(m)], "hist": k % 3,
                      "pres": {k2: v for k2, v in _draw_pres(rng, {"fn": "real"}).items()
                               if k2 in ("index", "fcols", "dfperm", "tdtype", "copy", "rng", "gstate")},
                      "tags": ["real", "real:" + est, "real-scaler:" + sc]})
    return cases


# ----------------------------------------------------------------------------- model side
def _strs(xs):
    return lib.lst(xs, lib.s)


def _cols(cols):
    return lib.lst(cols, lambda col: lib.lst(col))


def first_case(c):
    """the earlier fit of a fit-twice case as a case of its own (same Model settings, the sub-table)"""
    rows = c["first"]["rows"]
    return dict(c, cols=[[col[r] for r in rows] for col in c["cols"]], targets=[c["targets"][r] for r in rows],
                prow=list(range(len(rows))), pnames=list(c["names"]), pickle=False, first=None, pre_names=None)


_FIRST = {}


def first_model(c):
    """what the MODEL says about the earlier fit: (ok?, g, desc, best, did the generator draw?)"""
    h = _chash(c)
    if h not in _FIRST:
        fc = first_case(c)
        out = lib.run_driver([encode(fc)])[0]
        trace, res = decode(fc, lib.Toks(out))
        if res[0] == "ok":
            _FIRST[h] = (True, res[1][0], res[1][2], res[1][3], True)
        else:
            # Model.fit draws the permutation after the starting labels: errors raised before (no targets / decoys,
            # unknown direction, nothing passes) leave the generator untouched; errors of the loop come after the draw
            _FIRST[h] = (False, None, None, None, bool(trace) or res[1] == "IndexError")
    return _FIRST[h]


def encode(c, patched=True):
    if c["fn"] == "real":
        return "c12.predict 0 b0 0 0 b0 0 0 b0"        # no model for this stream; see `same`
    if c["fn"] == "predict":
        return "c12.predict %s %s %s %d %s %s %s %s" % (
            lib.b(c["trained"]), lib.z(c["sc0"]), _strs(c["stored"]), _SKIND_MODEL[c["skind"]], lib.z(c["g"]),
            _strs(c["names"]), _cols(c["cols"]), lib.z(c["n"]))
    n = len(c["targets"])
    names2, cols2, n2 = second_table(c)
    mode, g0, earlier = c["mode"], c["g0"], None
    if c.get("first"):
        ok, g1, _, _, drew = first_model(c)
        if ok:
            mode, g0 = 2, g1
        if drew:
            earlier = len(c["first"]["rows"])
    return "c12.fit %s %s %s %s %s %d %s %s %s %s %s %s %s %s %s %s %s %s %s %s" % (
        lib.b(patched), lib.z(c["lk"]), lib.z(c["idc"]), lib.z(c["sc0"]), lib.z(c["kk"]), _SKIND_MODEL[c["skind"]],
        lib.z(mode), lib.s(c["dir"]), lib.z(g0),
        _strs(c["names"]), _cols(c["cols"]), lib.lst(c["targets"], lib.b),
        lib.lst(sigma_of(c["seed"], n, earlier)), lib.b(c["shuffle"]), lib.q(Fraction(c["thr"])), lib.z(c["max_iter"]),
        lib.b(c["override"]), _strs(names2), _cols(cols2), lib.z(n2))


def decode(c, t):
    if c["fn"] in ("predict", "real"):
        return t.result(lambda: t.lst(t.z))
    trace = t.lst(lambda: t.lst(lambda: [t.z(), t.b()]))

    def body():
        g = t.z()
        fp = t.z()
        d = t.opt(t.b)
        b = t.opt(t.z)
        p1 = t.result(lambda: t.lst(t.z))
        p2 = t.result(lambda: t.lst(t.z))
        return [g, fp, d, b, p1, p2]
    res = t.result(body)
    if c.get("first") and res[0] == "ok":
        ok, _, d1, b1, _ = first_model(c)
        if ok:      # a re-fit keeps model.desc / model.best_feat of the earlier fit (_get_starting_labels, trained branch)
            res[1][2], res[1][3] = d1, b1
    return [trace, res]


def same(c, m, i):
    if c["fn"] == "real":       # oracle-only stream: the verdict is the property check made on the implementation's run
        return lib.jsonable(i) == ["ok", "holds"]
    return lib.jsonable(m) == lib.jsonable(i)


# ----------------------------------------------------------------------------- implementation side
def _canon_call(entry, exp_rows):
    """one call of estimator.fit in canonical form: [[row id, label], ...]; a row whose feature values are not
    those of the PSM with that id gets the label 'features-of-another-row'"""
    out = []
    for (rid, y), row in zip(entry["pairs"], entry["rows"]):
        lab = {0.0: False, 1.0: True}.get(y, y)
        if exp_rows.get(rid) != row:
            lab = "features-of-another-row"
        out.append([rid, lab])
    return out


def _make_model(c, key, pres):
    import numpy as np
    from mokapot.model import Model
    est = _estimator(c, key)
    if pres["wrap"]:
        from sklearn.model_selection import GridSearchCV, KFold
        est = GridSearchCV(est, param_grid={"hp": [0, 1, 2]}, cv=KFold(2), refit=(pres["wrap"] == 2))
    scaler = _classes()[5]() if pres["scaler"] else "as-is"
    seed = c["seed"]
    rng = {"int": seed, "npint": np.int64(seed), "generator": np.random.default_rng(seed)}[pres["rng"]]
    if pres["gstate"] is not None:          # the global generators are somebody else's business: any state must do
        np.random.seed(pres["gstate"] % (2 ** 32))
        _random.seed(pres["gstate"])
    thr = {"float": float, "npfloat64": np.float64, "int": int}[pres["thr_type"]](float(c["thr"]))
    return Model(est, scaler=scaler, train_fdr=thr, max_iter=(np.int64(c["max_iter"]) if pres["iter_type"] == "npint" else c["max_iter"]),
                 direction=(_nm(pres["nstyle"], c["dir"]) if c["dir"] in c["names"] else c["dir"]) if c["mode"] == 1 else None,
                 override=c["override"], shuffle=c["shuffle"], rng=rng)


def _run_fit(c):
    """real Model.fit / predict (and save/load) -> same shape as the model's result"""
    from mokapot.model import save_model, load_model
    from sklearn.model_selection._search import BaseSearchCV
    _KEY[0] += 1
    key = "k%d" % _KEY[0]
    LOGS[key] = []
    pres = _pres(c)
    st = pres["nstyle"]
    try:
        names = c["names"]
        fnames = [_nm(st, nm) for nm in names]
        shown = _present_cols(names, c["cols"], pres, c["idc"])
        exp_rows = {c["cols"][c["idc"]][r]: [col[r] for col in shown] for r in range(len(c["targets"]))}
        ds = _dataset(names, c["cols"], c["targets"], c["enforce"], pres, c["idc"])
        m = _make_model(c, key, pres)
        if c["mode"] == 2:       # a trained model, set up as load_model does for Percolator weights
            m.estimator.g_ = c["g0"]
            m.features = [_nm(st, nm) for nm in (c.get("pre_names") or names)]
            m.is_trained = True
        side = {}
        if c.get("first"):       # an earlier fit of the same Model object, on a sub-table
            fc = first_case(c)
            ds0 = _dataset(names, fc["cols"], fc["targets"], False, dict(pres, index=(pres["index"] + 1) % 4), c["idc"])
            r0 = call_impl(m.fit, ds0)
            side = {"first_ok": r0[0] == "ok", "g1": int(m.estimator.g_) if r0[0] == "ok" else None}
            LOGS[key] = []
        _SIDE[_chash(c)] = side
        r = call_impl(m.fit, ds)
        inner = m.estimator.estimator if isinstance(m.estimator, BaseSearchCV) else m.estimator
        entries = LOGS[key]
        trace = [_canon_call(e, exp_rows) for e in entries if e["obj"] == id(inner)]
        # fits made by the hyper-parameter search: rows carry their own label, the label of the first iteration
        lab0 = {rid: lab for rid, lab in trace[0]} if trace else None
        for e in entries:
            if e["obj"] == id(inner):
                continue
            for rid, lab in _canon_call(e, exp_rows):
                r_ = [k for k in range(len(c["targets"])) if c["cols"][c["idc"]][k] == rid]
                ok = (lab in (True, False) and len(r_) == 1 and (lab0[rid] == lab if lab0 is not None and rid in lab0
                                                                  else (lab0 is None and bool(c["targets"][r_[0]]) == lab)))
                if not ok:
                    trace.append([[rid, "hyper-parameter-search:" + str(lab)]])
                    break
        _OUTCOME[_chash(c)] = (len(trace), r[0])
        if r[0] != "ok":
            return [trace, r]
        best = fnames.index(m.best_feat) if isinstance(m.best_feat, str) and m.best_feat in fnames else None
        desc = None if m.desc is None else bool(m.desc)
        names2, cols2, n2 = second_table(c)
        pres2 = dict(pres, index=(pres["index"] + 2) % 4, fcols={"list": "tuple", "tuple": "none", "none": "index", "index": "list"}[pres["fcols"]],
                     dfperm=None if pres["dfperm"] is None else pres["dfperm"] + 1,
                     fdtype=pres["fdtype"] if pres["fdtype"] in ("int64", "int32", "float32") else {"float64": "mixed", "mixed": "float64"}.get(pres["fdtype"], "int64"))
        ds2 = _dataset(names2, cols2, [c["targets"][r_] for r_ in c["prow"]], False, pres2,
                       names2.index("id") if "id" in names2 else None)
        fits_before = getattr(m.scaler, "fits_", None)
        if pres["porder"] == 0:
            p1 = call_impl(lambda: _ints(m.predict(ds), pres))
            p2 = call_impl(lambda: _ints(m.predict(ds2), pres))
        else:                    # the other order, and again: predicting must not leave anything behind
            p2 = call_impl(lambda: _ints(m.predict(ds2), pres))
            p1 = call_impl(lambda: _ints(m.predict(ds), pres))
            if call_impl(lambda: _ints(m.predict(ds2), pres)) != p2 or call_impl(lambda: _ints(m.predict(ds), pres)) != p1:
                p2 = ("err", "RepeatedPredictDiffers")
        if getattr(m.scaler, "fits_", None) != fits_before:
            p2 = ("err", "ScalerFittedAtPrediction")
        if pres["wrap"] and (isinstance(m.estimator, BaseSearchCV) or m.estimator.hp != m.estimator.want):
            p2 = ("err", "BestParametersNotApplied")
        if c.get("pickle"):
            with tempfile.TemporaryDirectory(prefix="c12_") as td:
                path = Path(td) / "model.pkl"
                # history: the path is not fresh — another model (or an unrelated leftover) was saved there before
                hist = c["seed"] % 3
                if hist == 1:
                    import copy
                    other = copy.deepcopy(m)
                    other.estimator.g_ = int(m.estimator.g_) + 1
                    other.features = list(reversed(m.features))
                    save_model(other, path)
                elif hist == 2:
                    path.write_bytes(b"leftover, not a pickle\n" * (1 + c["seed"] % 400))
                save_model(m, path)
                m2 = load_model(path)
                q1 = call_impl(lambda: _ints(m2.predict(ds), pres))
                q2 = call_impl(lambda: _ints(m2.predict(ds2), pres))
            if (q1, q2) != (p1, p2) or list(m2.features) != list(m.features):
                p2 = ("err", "PickleRoundTripDiffers")
        if list(m.features) != fnames:
            p2 = ("err", "StoredFeatureNamesDiffer")
        return [trace, ("ok", [int(m.estimator.g_), int(m.feat_pass), desc, best, p1, p2])]
    finally:
        LOGS.pop(key, None)


def _run_predict(c):
    from mokapot.model import Model
    pres = _pres(c)
    st = pres["nstyle"]
    m = Model(_estimator(dict(c, lk=2), None), scaler=(_classes()[5]() if pres["scaler"] else "as-is"))
    m.estimator.g_ = c["g"]
    m.features = [_nm(st, nm) for nm in c["stored"]]
    m.is_trained = c["trained"]
    if pres["scaler"]:
        m.scaler.n_features_in_ = len(c["stored"])
    ds = _dataset(c["names"], c["cols"], [1] * c["n"], False, pres, None)
    return _ints(m.predict(ds), pres)


def impl(c):
    if c["fn"] == "real":
        return call_impl(_run_real, c)
    if c["fn"] == "predict":
        r = call_impl(_run_predict, c)
        _OUTCOME[_chash(c)] = (2 if c["trained"] else 0, "ok")
        return r
    return _run_fit(c)


def nontrivial(c):
    """from the observed run: the main loop called estimator.fit at least twice (labels were recomputed from the
    estimator's scores at least once), or the run left through an error exit; a predict case: the model is trained"""
    o = _OUTCOME.get(_chash(c))
    if o is None:
        return False
    return o[0] >= 2 or o[1] == "err"


# ----------------------------------------------------------------------------- real estimators (oracle only)
_REAL_LOG = []


def _real_classes():
    import numpy as np
    from sklearn.svm import LinearSVC
    from sklearn.linear_model import LogisticRegression
    if "RealSVC" in globals():
        return globals()["RealSVC"], globals()["RealLR"]

    class RealSVC(LinearSVC):
        def fit(self, X, y):
            _REAL_LOG.append(("fit", id(self), np.array(X, dtype=float), np.array(y, dtype=float)))
            return super().fit(X, y)

        def decision_function(self, X):
            out = super().decision_function(X)
            _REAL_LOG.append(("scores", id(self), np.array(X, dtype=float), np.array(out, dtype=float)))
            return out

    class RealLR(LogisticRegression):
        def fit(self, X, y):
            _REAL_LOG.append(("fit", id(self), np.array(X, dtype=float), np.array(y, dtype=float)))
            return super().fit(X, y)

        def decision_function(self, X):
            out = super().decision_function(X)
            _REAL_LOG.append(("scores", id(self), np.array(X, dtype=float), np.array(out, dtype=float)))
            return out

    for cls in (RealSVC, RealLR):
        cls.__module__ = __name__
        cls.__qualname__ = cls.__name__
        globals()[cls.__name__] = cls
    return RealSVC, RealLR


def _real_table(c):
    rr = _random.Random(c["dseed"])
    n, nf = c["n"], c["nf"]
    targets = [rr.random() < 0.6 for _ in range(n)]
    targets[0], targets[1] = True, False
    cols = [[float(r) for r in range(n)]]                         # the row id is a feature like any other
    for j in range(nf):
        sep = [2.5, 1.0, 0.0, 3.5, 0.5][j] if j < 5 else 0.0
        scale, shift = [1.0, 30.0, 0.01, 5.0, 1000.0][j % 5], [0.0, -100.0, 3.0, 50.0, 0.0][j % 5]
        cols.append([shift + scale * (rr.gauss(0, 1) + (sep if (t and rr.random() < 0.8) else 0.0)) for t in targets])
    return ["rid"] + ["f%d" % j for j in range(nf)], cols, targets


def _real_dataset(names, cols, targets, pres, order=None, enforce=True):
    import numpy as np
    import pandas as pd
    from mokapot.dataset import LinearPsmDataset
    n = len(targets)
    tv = np.array(targets, dtype=bool)
    tv = {"bool": tv, "int": tv.astype("int64"), "float": tv.astype(float), "object": np.array(list(targets), dtype=object)}[pres["tdtype"]]
    d = {"target": tv, "spectrum": np.arange(n), "peptide": ["P%d" % j for j in range(n)]}
    for nm, col in zip(names, cols):
        d[nm] = np.array(col, dtype=float)
    fn = list(names) if order is None else [names[j] for j in order]
    cols_df = ["target", "spectrum", "peptide"] + fn
    fc = {"list": list(fn), "tuple": tuple(fn), "index": pd.Index(fn), "none": None}[pres["fcols"]]
    if pres["dfperm"] is not None and fc is not None:
        _random.Random(pres["dfperm"]).shuffle(cols_df)
    df = pd.DataFrame(d, columns=cols_df)
    if pres["index"]:
        lab = list(range(n))
        _random.Random(pres["index"] + n).shuffle(lab)
        df.index = [v + 3 for v in lab] if pres["index"] == 1 else ["r%d" % v for v in lab] if pres["index"] == 2 else [v // 2 for v in range(n)]
    return LinearPsmDataset(df, target_column="target", spectrum_columns="spectrum", peptide_column="peptide",
                            feature_columns=fc, copy_data=pres["copy"], enforce_checks=enforce)


def _run_real(c):
    """the property, evaluated on a run of the real code with a real scikit-learn estimator and scaler: 'holds' or
    the first clause that does not"""
    import numpy as np
    from mokapot.model import Model, save_model, load_model
    from sklearn.model_selection import GridSearchCV, KFold
    from sklearn.preprocessing import MinMaxScaler
    from sklearn.model_selection._search import BaseSearchCV
    RealSVC, RealLR = _real_classes()
    pres = dict(PRES0, **(c.get("pres") or {}))
    names, cols, targets = _real_table(c)
    n = c["n"]
    tab = np.array(cols, dtype=float).T
    ds = _real_dataset(names, cols, targets, pres)
    base = RealLR(C=1.0, tol=1e-8, max_iter=2000) if c["est"] == "logreg" else RealSVC(dual=False, random_state=7, tol=1e-8)
    est = base
    if c["est"] == "grid":
        est = GridSearchCV(base, param_grid={"class_weight": [{0: neg, 1: pos} for neg in (0.1, 1, 10) for pos in (0.1, 1, 10)]},
                           refit=False, cv=KFold(3, shuffle=True, random_state=c["seed"] % 1000))
    scaler = {"standard": None, "minmax": MinMaxScaler(), "as-is": "as-is"}[c["scaler"]]
    seed = c["seed"]
    rng = {"int": seed, "npint": np.int64(seed), "generator": np.random.default_rng(seed)}[pres["rng"]]
    if pres["gstate"] is not None:
        np.random.seed(pres["gstate"] % (2 ** 32))
        _random.seed(pres["gstate"])
    thr = Fraction(c["thr"])
    if c["est"] == "perc":        # the default model of mokapot as it is (its fits cannot be recorded: clauses on predict / pickle only)
        from mokapot.model import PercolatorModel
        m = PercolatorModel(scaler=scaler, train_fdr=float(c["thr"]), max_iter=c["max_iter"], direction=("f0" if c["direction"] else None),
                            override=True, rng=rng)
    else:
        m = Model(est, scaler=scaler, train_fdr=float(c["thr"]), max_iter=c["max_iter"], direction=("f0" if c["direction"] else None),
                  override=True, shuffle=c["shuffle"], rng=rng)
    del _REAL_LOG[:]
    r = call_impl(m.fit, ds)
    log = list(_REAL_LOG)
    del _REAL_LOG[:]
    inner = m.estimator.estimator if isinstance(m.estimator, BaseSearchCV) else m.estimator
    inv = (lambda X: X) if c["scaler"] == "as-is" else m.scaler.inverse_transform

    def rows_of(X):
        """the table rows behind the (scaled) feature rows handed to the estimator"""
        if X.shape[1] != tab.shape[1]:
            return None, "the estimator got %d feature columns, the table has %d" % (X.shape[1], tab.shape[1])
        orig = inv(X)
        rid = np.rint(orig[:, 0]).astype(int)
        if rid.min() < 0 or rid.max() >= n or not np.allclose(orig, tab[rid], rtol=1e-7, atol=1e-7):
            return None, "a feature row handed to the estimator is not a row of the table"
        return rid, None

    main_no = 0
    cur = None                                     # scores per table row the estimator returned last
    start = None
    if m.best_feat is not None and isinstance(m.best_feat, str):
        start = (tab[:, names.index(m.best_feat)], bool(m.desc))
    elif c["direction"] and m.desc is not None:
        start = (tab[:, names.index("f0")], bool(m.desc))
    for kind, obj, X, v in log:
        rid, msg = rows_of(X)
        if msg:
            return kind + ": " + msg
        if kind == "scores":
            if obj == id(inner) and len(rid) == n and sorted(rid) == list(range(n)):
                cur = np.empty(n)
                cur[rid] = v
            continue
        for r_, y in zip(rid, v):
            if y not in (0.0, 1.0):
                return "fit: label %r" % (y,)
            if y == 1.0 and not targets[r_]:
                return "fit: decoy row %d was handed to the estimator as a positive" % r_
            if y == 0.0 and targets[r_]:
                return "fit: target row %d was handed to the estimator as a negative" % r_
        if len(set(rid)) != len(rid):
            return "fit: a row was handed to the estimator twice"
        if obj != id(inner):
            continue                               # a fold of the hyper-parameter search: a subset, checked row by row above
        if set(r_ for r_ in range(n) if not targets[r_]) - set(rid):
            return "fit (iteration %d): a decoy is missing from the negatives" % main_no
        ref = (cur, True) if main_no > 0 else start
        if ref is not None and ref[0] is not None:
            exp = spec_labels([float(x) for x in ref[0]], targets, thr, ref[1])
            want = sorted(r_ for r_ in range(n) if exp[r_] == 1)
            got = sorted(int(r_) for r_, y in zip(rid, v) if y == 1.0)
            if want != got:
                return ("fit (iteration %d): positives are rows %s..., the targets with q <= %s under the current scores are rows %s..."
                        % (main_no, got[:8], c["thr"], want[:8]))
        main_no += 1
    _OUTCOME[_chash(c)] = (main_no, r[0])
    if r[0] != "ok":
        return "holds" if r[1] == "RuntimeError" else "fit raised " + r[1]
    p1 = np.asarray(m.predict(ds), dtype=float)
    if cur is not None and not np.allclose(p1, cur, rtol=1e-9, atol=1e-9):
        return "predict on the training table differs from the scores of the last training iteration"
    pcols, prow = c["pcols"], c["prow"]
    cols2 = [[col[r_] for r_ in prow] for col in cols]
    pres2 = dict(pres, index=(pres["index"] + 1) % 4, fcols={"list": "tuple", "tuple": "index", "none": "list", "index": "list"}[pres["fcols"]])
    sub = sorted(set(pcols))
    ds2 = _real_dataset([names[j] for j in sub], [cols2[j] for j in sub], [targets[r_] for r_ in prow], pres2,
                        order=[sub.index(j) for j in pcols], enforce=False)
    p2 = call_impl(lambda: np.asarray(m.predict(ds2), dtype=float))
    if len(pcols) != len(names):
        if p2 != ("err", "ValueError"):
            return "prediction table lacks a feature but predict gave " + repr(p2)[:80]
    else:
        if p2[0] != "ok":
            return "predict on a table with permuted feature columns raised " + p2[1]
        if p2[1].shape != (len(prow),) or not np.allclose(p2[1], p1[prow], rtol=1e-9, atol=1e-9):
            return "prediction of rows presented with permuted feature columns differs from their prediction in training layout"
    with tempfile.TemporaryDirectory(prefix="c12r_") as td:
        path = Path(td) / "m.pkl"
        if c["hist"] == 1:
            save_model(Model(RealSVC(), scaler="as-is"), path)
        elif c["hist"] == 2:
            path.write_bytes(b"x\ty\n1\t2\n" * 500)
        save_model(m, path)
        m2 = load_model(path)
        q1 = np.asarray(m2.predict(ds), dtype=float)
        if not np.array_equal(q1, p1):
            return "a saved and re-loaded model predicts differently"
        if len(pcols) == len(names) and not np.array_equal(np.asarray(m2.predict(ds2), dtype=float), p2[1]):
            return "a saved and re-loaded model predicts differently (second table)"
    return "holds"


# ----------------------------------------------------------------------------- the property itself
def oracle(c, i):
    """C12 on the implementation's output: (a) every (row id, label) handed to estimator.fit is a row of the
    table with its own label: negatives exactly the decoys, positives exactly the targets with q <= train_fdr
    under the scores of the previous fitted state; (b) for the order-independent estimator the fitted state
    and the predictions do not change when rows are permuted, the seed changes or shuffle is toggled;
    (c) prediction on permuted feature columns = prediction, wrong feature set -> ValueError."""
    if c["fn"] == "real":
        return None if lib.jsonable(i) == ["ok", "holds"] else f"real estimator ({c['est']}, scaler {c['scaler']}): {i[1] if len(i) > 1 else i!r}"
    if c["fn"] == "predict":
        if not c["trained"]:
            return None
        if set(c["names"]) != set(c["stored"]):
            return None if i == ("err", "ValueError") else f"feature set differs from the stored one but predict gave {i!r}"
        by = dict(zip(c["names"], c["cols"]))
        exp = list(by[c["stored"][c["sc0"] + c["g"]]])
        return None if i == ("ok", exp) else f"prediction {i!r} is not the stored score column taken by name {exp}"
    trace, res = i
    targets = [bool(t) for t in c["targets"]]
    if not any(targets) or all(targets):
        return None
    thr = Fraction(c["thr"])
    ids = c["cols"][c["idc"]]
    row_of = {v: r for r, v in enumerate(ids)}
    n = len(targets)
    prev_scores = None
    side = _SIDE.get(_chash(c)) or {}
    if c.get("first") and side.get("first_ok"):
        # the same Model object was fitted before: this fit starts from the scores of the state it reached then
        prev_scores = c["cols"][c["sc0"] + side["g1"]]
    if c["mode"] == 2 and not c.get("pre_names"):
        # re-fit of a trained model: the labels of the first iteration come from the scores of the model as it was handed in
        prev_scores = c["cols"][c["sc0"] + c["g0"]]
        if not trace and res[0] == "err" and res[1] == "RuntimeError":
            exp0 = spec_labels(prev_scores, targets, thr)
            npos = sum(1 for v in exp0 if v == 1)
            if npos:
                return (f"re-fit of a trained model stopped before the first training iteration (RuntimeError) although {npos} targets "
                        f"are accepted at train_fdr={c['thr']} under the scores of the model handed in")
    for k, call in enumerate(trace):
        seen = set()
        for rid, y in call:
            if isinstance(y, str):
                return (f"call {k} of estimator.fit: the feature row with id {rid!r} does not carry its own features / label ({y})")
            if rid not in row_of or rid in seen:
                return f"iteration {k}: estimator.fit received row id {rid} which is not a (distinct) row of the table"
            seen.add(rid)
            r = row_of[rid]
            if y is False and targets[r]:
                return f"iteration {k}: target row {r} (id {rid}) was handed to estimator.fit as a negative"
            if y is True and not targets[r]:
                return f"iteration {k}: decoy row {r} (id {rid}) was handed to estimator.fit as a positive"
            if y not in (True, False):
                return f"iteration {k}: label {y!r}"
        for r in range(n):
            if not targets[r] and ids[r] not in seen:
                return f"iteration {k}: decoy row {r} (id {ids[r]}) is missing from the negatives"
        if prev_scores is not None:
            exp = spec_labels(prev_scores, targets, thr)
            pos = sorted(rid for rid, y in call if y is True)
            exp_pos = sorted(ids[r] for r in range(n) if exp[r] == 1)
            if pos != exp_pos:
                return (f"iteration {k}: positives handed to estimator.fit are ids {pos}, but the targets with q <= {c['thr']} "
                        f"under the current scores are ids {exp_pos}")
        g = _learn(c["lk"], c["kk"], [(rid, 1 if y else 0) for rid, y in call])
        prev_scores = c["cols"][c["sc0"] + g]
    if res[0] == "ok":
        g, fp, desc, best, p1, p2 = res[1]
        if p1 != ("ok", list(c["cols"][c["sc0"] + g])):
            return "prediction on the training table is not the score column chosen by the fitted estimator"
        if set(c["pnames"]) != set(c["names"]):
            if p2 != ("err", "ValueError"):
                return f"prediction table has another feature set but predict gave {p2!r}"
        else:
            exp = [c["cols"][c["sc0"] + g][r] for r in c["prow"]]
            if p2 != ("ok", exp):
                return (f"prediction on permuted rows/feature columns {p2!r} differs from the prediction of the same rows "
                        f"in training layout {exp}")
    if res[0] == "err":
        k = res[1]
        known_exit = (k == "RuntimeError" or (k == "KeyError" and c["mode"] == 1 and c["dir"] not in c["names"])
                      or (k == "IndexError" and c["max_iter"] == 0))
        if not known_exit:
            return f"Model.fit left through {k}, which is none of its exits for this input (both classes present, max_iter={c['max_iter']})"
    # (d) decision_function or predict_proba: the scoring method the estimator offers does not matter
    if c["skind"] != 0 and not c.get("_variant"):
        j = _run_fit(dict(c, skind=0, _variant=True, pickle=False))
        if lib.jsonable(j) != lib.jsonable([trace, res]):
            what = {1: "two columns", 2: "one column", 3: "one-dimensional", 4: "two columns, nested lists"}[c["skind"]]
            return (f"an estimator offering only predict_proba ({what}) gives "
                    f"{res!r}, the same estimator with decision_function gives {j[1]!r}")
    # (e) the presentation of the table / the model settings (row labels, column order, dtypes, value scale, scaler,
    # kind of rng argument, hyper-parameter search around the estimator, order of predict calls) does not matter
    if c.get("pres") and not c.get("_variant"):
        j = _run_fit(dict(c, pres=None, _variant=True, pickle=False))
        if lib.jsonable(j) != lib.jsonable([trace, res]):
            diff = {k: v for k, v in c["pres"].items() if v != PRES0[k]}
            return (f"the same PSMs presented with {diff} give {res!r} (training sets {'equal' if lib.jsonable(j[0]) == lib.jsonable(trace) else 'differ'}), "
                    f"in the plain presentation {j[1]!r}")
    # (b) order invariance, order-independent estimators only
    if c["lk"] != 1 and c["mode"] != 2 and not c.get("first") and not c.get("_variant"):
        import random
        rr = random.Random(lib.stable_hash({k: v for k, v in c.items() if k != "tags"}))
        pi = list(range(n))
        rr.shuffle(pi)
        v = dict(c, cols=[[col[r] for r in pi] for col in c["cols"]], targets=[c["targets"][r] for r in pi],
                 seed=c["seed"] + 1 + rr.randrange(1000), shuffle=not c["shuffle"], _variant=True, pickle=False)
        inv = {r: j for j, r in enumerate(pi)}
        v["prow"] = [inv[r] for r in c["prow"]]
        j = _run_fit(v)
        if j[1][0] != res[0] or (res[0] == "err" and j[1][1] != res[1]):
            return f"outcome changes with row order / seed / shuffle switch: {res!r} vs {j[1]!r} (rows permuted by {pi}, shuffle={v['shuffle']})"
        if len(j[0]) != len(trace) or any(sorted(map(tuple, a)) != sorted(map(tuple, b)) for a, b in zip(trace, j[0])):
            return f"training sets change with row order / seed / shuffle switch (rows permuted by {pi}, shuffle={v['shuffle']})"
        if res[0] == "ok":
            a, b = res[1], j[1][1]
            if a[0] != b[0] or a[1] != b[1] or a[5] != b[5]:
                return f"fitted state / predictions change with row order / seed / shuffle switch: {a!r} vs {b!r}"
            if a[4][0] == "ok" and b[4][0] == "ok" and [a[4][1][r] for r in pi] != b[4][1]:
                return "predictions on the training table do not follow the rows when the rows are permuted"
    return None


def shrink(c):
    if c["fn"] != "fit":
        return
    n = len(c["targets"])
    if c["max_iter"] > 1:
        yield dict(c, max_iter=c["max_iter"] - 1)
    for r in range(n - 1, -1, -1):
        if n <= 2:
            break
        keep = [j for j in range(n) if j != r]
        remap = {j: k for k, j in enumerate(keep)}
        first = c.get("first")
        if first:
            first = {"rows": [remap[j] for j in first["rows"] if j in remap]}
            if len(first["rows"]) < 2:
                continue
        yield dict(c, cols=[[col[j] for j in keep] for col in c["cols"]], targets=[c["targets"][j] for j in keep],
                   prow=[remap[j] for j in c["prow"] if j in remap] or [0], first=first)
    if c.get("first"):
        yield dict(c, first=None)
    if c.get("pres"):
        yield dict(c, pres=None)
        for k, v in c["pres"].items():
            if v != PRES0[k]:
                cand = dict(c["pres"], **{k: PRES0[k]})
                if k == "vmap" or cand["fdtype"] in ("float64", "mixed") or tuple(cand["vmap"]) == (0, 0):
                    yield dict(c, pres=cand)
    if c["pnames"] != c["names"]:
        yield dict(c, pnames=list(c["names"]))
    if c["prow"] != list(range(n)):
        yield dict(c, prow=list(range(n)))
    if c.get("pickle"):
        yield dict(c, pickle=False)
    # drop an extra feature column
    for j, nm in enumerate(c["names"]):
        if nm.startswith("e") and c["dir"] != nm:
            names = c["names"][:j] + c["names"][j + 1:]
            yield dict(c, names=names, cols=c["cols"][:j] + c["cols"][j + 1:], idc=names.index("id"), sc0=names.index("c0"),
                       pnames=[p for p in c["pnames"] if p != nm])


# ----------------------------------------------------------------------------- oracle contracts
def extra_checks(ctx):
    """rng.permutation contract: what Model.fit draws is default_rng(seed).permutation(arange(n)), a permutation"""
    import numpy as np
    from mokapot.model import Model
    RecDF = _classes()[0]
    fails = []
    rng = ctx.sub("sigma")
    checked = 0
    for _ in range(40):
        n = rng.randint(2, 50)
        seed = rng.randrange(10 ** 6)
        sg = sigma_of(seed, n)
        if sorted(sg) != list(range(n)):
            fails.append({"what": f"default_rng({seed}).permutation(arange({n})) is not a permutation"})
        m = Model(RecDF(), scaler="as-is", rng=seed)
        drawn = [int(v) for v in m.rng.permutation(np.arange(n))]
        if drawn != sg:
            fails.append({"what": f"Model(rng={seed}).rng does not reproduce default_rng({seed})"})
        checked += 1
    # the second draw (an earlier fit of the same Model object)
    for _ in range(10):
        n0, n = rng.randint(2, 30), rng.randint(2, 30)
        seed = rng.randrange(10 ** 6)
        m = Model(RecDF(), scaler="as-is", rng=np.random.default_rng(seed))
        m.rng.permutation(np.arange(n0))
        if [int(v) for v in m.rng.permutation(np.arange(n))] != sigma_of(seed, n, n0):
            fails.append({"what": f"second draw of Model(rng=Generator({seed})).rng is not reproduced"})
        checked += 1
    f2, info = _fresh_interpreter_check(ctx)
    fails.extend(f2)
    info["sigma_contract_checked"] = checked
    return fails, info


def _fresh_interpreter_check(ctx):
    """save_model here, load_model in a NEW interpreter (another PYTHONHASHSEED, nothing of this process in memory):
    the loaded model predicts what the saved one predicted"""
    from mokapot.model import save_model
    rng = ctx.sub("fresh")
    want = 24 if ctx.thorough else 8
    jobs = []
    fails = []
    with tempfile.TemporaryDirectory(prefix="c12f_") as td:
        tries = 0
        while len(jobs) < want and tries < 20 * want:
            tries += 1
            c = _random_case(rng, 30, ("fresh",), force={"mode": rng.choice([0, 1]), "thr": rng.choice(["0.5", "1.0"])})
            c["override"] = True
            if set(c["pnames"]) != set(c["names"]):
                c["pnames"] = list(reversed(c["names"]))
            c["pres"] = _draw_pres(rng, c)
            c["pres"]["wrap"] = 0
            _KEY[0] += 1
            key = "k%d" % _KEY[0]
            pres = _pres(c)
            try:
                ds = _dataset(c["names"], c["cols"], c["targets"], True, pres, c["idc"])
                m = _make_model(c, key, pres)
                if call_impl(m.fit, ds)[0] != "ok":
                    continue
                names2, cols2, n2 = second_table(c)
                ds2 = _dataset(names2, cols2, [c["targets"][r_] for r_ in c["prow"]], False, pres, names2.index("id"))
                exp = [_ints(m.predict(ds), pres), _ints(m.predict(ds2), pres)]
                path = Path(td) / ("m%d.pkl" % len(jobs))
                save_model(m, path)
                jobs.append({"case": c, "path": str(path), "expected": exp})
            finally:
                LOGS.pop(key, None)
        (Path(td) / "jobs.json").write_text(json.dumps(jobs))
        env = dict(os.environ, PYTHONHASHSEED=str(1 + rng.randrange(10 ** 6)))
        pr = subprocess.run([sys.executable, "-W", "ignore", "-c",
                             "import sys; from harness.props import c12; c12._fresh_main(sys.argv[1])", td],
                            env=env, cwd=str(Path(__file__).resolve().parents[2]), stdout=subprocess.PIPE, stderr=subprocess.PIPE,
                            timeout=900)
        try:
            got = json.loads(pr.stdout.decode().strip().splitlines()[-1])
        except Exception:
            return [{"what": "load_model in a fresh interpreter: no answer (%s)" % pr.stderr.decode()[-300:]}], {"fresh_interpreter_loads": 0}
        for job, g in zip(jobs, got):
            if g != lib.jsonable(["ok", job["expected"]]):
                fails.append({"what": "a model saved by save_model and loaded by load_model in a fresh interpreter predicts %r, "
                                      "the saved model predicted %r" % (g, job["expected"]),
                              "failing_input": dict(job["case"], pickle=True)})
    return fails, {"fresh_interpreter_loads": len(jobs)}


def _fresh_main(td):
    """runs in the fresh interpreter"""
    import logging
    logging.disable(logging.CRITICAL)
    from mokapot.model import load_model
    out = []
    for job in json.loads((Path(td) / "jobs.json").read_text()):
        c = job["case"]
        pres = _pres(c)

        def run():
            m = load_model(Path(job["path"]))
            ds = _dataset(c["names"], c["cols"], c["targets"], True, pres, c["idc"])
            names2, cols2, n2 = second_table(c)
            ds2 = _dataset(names2, cols2, [c["targets"][r_] for r_ in c["prow"]], False, pres, names2.index("id"))
            return [_ints(m.predict(ds2), pres), _ints(m.predict(ds), pres)][::-1]
        out.append(lib.jsonable(call_impl(run)))
    print(json.dumps(out))
