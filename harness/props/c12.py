"""C12 — training alignment: correspondence of Model/Fit.v with mokapot.model.Model.fit / predict /
save_model / load_model, driven with a recording deterministic estimator (row-id feature column)."""
import itertools
import os
import tempfile
from fractions import Fraction
from pathlib import Path

from .. import lib
from ..lib import call_impl

PROP = "C12"
RULE = ("(1) small scope: n=4..5 rows, every target vector with both classes x rank patterns of 2 score columns x "
        "shuffle on/off x order-independent/order-dependent estimator x max_iter 1..3; (2) random: n<=60 (quick) / 300 "
        "(thorough) rows, 1..4 candidate score columns with ties, extra feature columns, start = best feature / direction "
        "/ pretrained (stored feature order = or != table order), estimators with decision_function / 2-column predict_proba "
        "/ 1-column predict_proba, max_iter 1..10, train_fdr in {0.01..1.0}, override, shuffle, seeds; second table with "
        "permuted / repeated rows and permuted / wrong feature columns; separable and rising/declining runs (labels and "
        "fitted state change between iterations, both 'performs worse' exits); (3) edge stream: no targets, no decoys, "
        "unknown direction, nothing passes, single-row tables, two-row tables, max_iter=0; (4) Model.predict alone: stored "
        "names vs table names, untrained model; (5) save_model/load_model round trip on a third of the cases, to a fresh path, to a path that already holds another model, and to a path holding an unrelated leftover. "
        "distinct = distinct case; non-trivial = at least two calls of estimator.fit or an error exit")
ASSUMPTIONS = [
    "feature values are integers stored as float64; scores handed to the model are those integers (order and ties exact)",
    "train_fdr is a decimal literal: the model gets the exact decimal, the implementation float(decimal)",
    "rng.permutation is an oracle: sigma = numpy.random.default_rng(seed).permutation(arange(n)) is passed to the model as data "
    "(contract checked: it is a permutation and it is what Model.fit draws)",
    "scaler='as-is' (DummyScaler); pickle is an oracle for save/load (contract: identical predictions)",
    "feature names are unique",
]
TRUSTED_EXTRA = ["numpy fancy indexing / argsort, pandas .loc selection, pickle are exercised, not modelled",
                 "the recording estimator harness/props/c12.py:_RecBase is the learner oracle; its Coq twin is Fit.fit_demo_learn"]

LOGS = {}
_KEY = [0]


# ----------------------------------------------------------------------------- the recording estimator
def _learn(lk, kk, pairs):
    """fitted state as a function of the (row id, label) pairs handed to fit, in order"""
    codes = [(i + 1) * (3 if y == 1 else 2) for i, y in pairs]
    if lk == 0:
        return sum(codes) % kk
    if lk == 1:
        return sum((j + 1) * c for j, c in enumerate(codes)) % kk
    return 0


def _make_classes():
    import numpy as np
    from sklearn.base import BaseEstimator

    class _RecBase(BaseEstimator):
        def __init__(self, lk=0, idc=0, sc0=1, kk=1, log_key=None):
            self.lk = lk
            self.idc = idc
            self.sc0 = sc0
            self.kk = kk
            self.log_key = log_key

        def fit(self, X, y):
            X = np.asarray(X)
            pairs = [(int(i), float(v)) for i, v in zip(X[:, self.idc], y)]
            if len(pairs) != X.shape[0] or len(pairs) != len(y):
                raise AssertionError("X and y differ in length")
            LOGS.setdefault(self.log_key, []).append(pairs)
            self.g_ = _learn(self.lk, self.kk, pairs)
            return self

        def _s(self, X):
            X = np.asarray(X)
            return X[:, self.sc0 + self.g_].astype(float)

    class RecDF(_RecBase):
        def decision_function(self, X):
            return self._s(X)

    class RecProba2(_RecBase):
        def predict_proba(self, X):
            s = self._s(X)
            return np.column_stack([-s, s])

    class RecProba1(_RecBase):
        def predict_proba(self, X):
            return self._s(X).reshape(-1, 1)

    for cls in (_RecBase, RecDF, RecProba2, RecProba1):
        cls.__module__ = __name__
        cls.__qualname__ = cls.__name__
        globals()[cls.__name__] = cls
    return RecDF, RecProba2, RecProba1


_CLASSES = None


def _classes():
    global _CLASSES
    if _CLASSES is None:
        _CLASSES = _make_classes()
    return _CLASSES


def __getattr__(name):          # so that pickle finds the classes in a fresh interpreter as well
    if name in ("_RecBase", "RecDF", "RecProba2", "RecProba1"):
        _classes()
        return globals()[name]
    raise AttributeError(name)


# ----------------------------------------------------------------------------- helpers
def sigma_of(seed, n):
    import numpy as np
    return [int(v) for v in np.random.default_rng(seed).permutation(np.arange(n))]


def second_table(c):
    """(names2, cols2, n2) of the prediction table: rows c['prow'] of the training table, columns
    c['pnames'] (a name unknown to the training table is a column of zeros)"""
    byname = dict(zip(c["names"], c["cols"]))
    prow = c["prow"]
    cols2 = []
    for nm in c["pnames"]:
        col = byname.get(nm)
        cols2.append([col[r] for r in prow] if col is not None else [0] * len(prow))
    return list(c["pnames"]), cols2, len(prow)


def _dataset(names, cols, targets, enforce):
    import numpy as np
    import pandas as pd
    from mokapot.dataset import LinearPsmDataset
    n = len(targets)
    d = {"target": np.array([bool(t) for t in targets], dtype=bool), "spectrum": np.arange(n),
         "peptide": ["P%d" % j for j in range(n)]}
    for nm, col in zip(names, cols):
        d[nm] = np.array(col, dtype=float)
    df = pd.DataFrame(d, columns=["target", "spectrum", "peptide"] + list(names))
    return LinearPsmDataset(df, target_column="target", spectrum_columns="spectrum", peptide_column="peptide",
                            feature_columns=list(names), copy_data=True, enforce_checks=enforce)


def _ints(arr):
    out = []
    for v in arr:
        fv = float(v)
        if fv != int(fv):
            raise ValueError("non-integer score")
        out.append(int(fv))
    return out


def _estimator(c, key):
    RecDF, RecProba2, RecProba1 = _classes()
    cls = (RecDF, RecProba2, RecProba1)[c["skind"]]
    return cls(lk=c["lk"], idc=c["idc"], sc0=c["sc0"], kk=c["kk"], log_key=key)


def q_spec(scores, targets, desc=True):
    """the defining formula of the q-value (independent of mokapot and of the Coq model)"""
    n = len(scores)
    key = [-s if desc else s for s in scores]
    fd = {}
    for k in set(key):
        t = sum(1 for j in range(n) if targets[j] and key[j] <= k)
        d = sum(1 for j in range(n) if not targets[j] and key[j] <= k)
        fd[k] = Fraction(1) if t == 0 else Fraction(d + 1, t)
    best, cur = {}, Fraction(1)
    for k in sorted(fd, reverse=True):
        cur = min(cur, fd[k])
        best[k] = cur
    return [best[k] for k in key]


def spec_labels(scores, targets, thr, desc=True):
    return [(-1 if not t else (1 if q <= thr else 0)) for q, t in zip(q_spec(scores, targets, desc), targets)]


# ----------------------------------------------------------------------------- generation
THRS = ["0.01", "0.05", "0.1", "0.2", "0.25", "0.3", "0.34", "0.5", "0.75", "1.0"]


def _layout(rng, kk, nextra):
    """feature names in training order: the id column, the block of kk score columns, extra columns"""
    blocks = [["id"], ["c%d" % j for j in range(kk)]] + [["e%d" % j] for j in range(nextra)]
    rng.shuffle(blocks)
    names = [nm for b in blocks for nm in b]
    return names, names.index("id"), names.index("c0")


def _case(names, cols, targets, idc, sc0, kk, *, lk=0, skind=0, mode=0, dir_="", g0=0, seed=1, shuffle=True,
          thr="0.5", max_iter=2, override=False, prow=None, pnames=None, enforce=True, pickle_=False, pre_names=None,
          tags=()):
    n = len(targets)
    return {"fn": "fit", "names": list(names), "cols": [list(c) for c in cols], "targets": [int(bool(t)) for t in targets],
            "lk": lk, "idc": idc, "sc0": sc0, "kk": kk, "skind": skind, "mode": mode, "dir": dir_, "g0": g0,
            "seed": seed, "shuffle": bool(shuffle), "thr": thr, "max_iter": max_iter, "override": bool(override),
            "prow": list(range(n)) if prow is None else list(prow),
            "pnames": list(names) if pnames is None else list(pnames),
            "enforce": bool(enforce), "pickle": bool(pickle_), "pre_names": pre_names, "tags": list(tags)}


def _random_case(rng, nmax, tags, force=None):
    force = force or {}
    n = rng.randint(2, nmax)
    kk = rng.randint(1, 4)
    nextra = rng.randint(0, 2)
    names, idc, sc0 = _layout(rng, kk, nextra)
    frac = rng.choice([0.5, 0.6, 0.75, 0.9])
    targets = [1 if rng.random() < frac else 0 for _ in range(n)]
    if 1 not in targets:
        targets[rng.randrange(n)] = 1
    if 0 not in targets:
        targets[rng.randrange(n)] = 0
    ids = list(range(n))
    if rng.random() < 0.7:
        rng.shuffle(ids)
    off = rng.choice([0, 0, 7, 100])
    ids = [v + off for v in ids]
    levels = rng.choice([3, 6, 20, 1000])
    byname = {"id": ids}
    for nm in names:
        if nm == "id":
            continue
        # informative columns put most targets above the decoys; ties through the small number of levels
        p_hi = rng.choice([0.0, 0.3, 0.6, 0.8, 0.95, 0.95])
        flip = rng.random() < 0.15            # lower is better
        col = []
        for t in targets:
            base = rng.randrange(levels)
            if t and rng.random() < p_hi:
                base += levels + rng.randrange(levels)
            col.append(-base if flip else base)
        byname[nm] = col
    cols = [byname[nm] for nm in names]
    mode = force.get("mode", rng.choice([0, 0, 1, 1, 2]))
    dir_ = ""
    if mode == 1:
        dir_ = rng.choice([nm for nm in names if nm != "id"] + (["id"] if rng.random() < 0.1 else []))
    skind = force.get("skind", rng.choice([0, 0, 1, 2]))
    # second table
    prow = list(range(n))
    r = rng.random()
    if r < 0.6:
        rng.shuffle(prow)
    elif r < 0.75:
        prow = [rng.randrange(n) for _ in range(rng.randint(1, n + 2))]
    pnames = list(names)
    r = rng.random()
    if r < 0.65:
        rng.shuffle(pnames)
    elif r < 0.75:
        pnames.pop(rng.randrange(len(pnames)))
        rng.shuffle(pnames)
    elif r < 0.85:
        pnames.insert(rng.randrange(len(pnames) + 1), "zz")
    elif r < 0.92:
        pnames[rng.randrange(len(pnames))] = "zz"
    pre_names = None
    if mode == 2 and rng.random() < 0.5:
        pre_names = list(names)
        rng.shuffle(pre_names)
    return _case(names, cols, targets, idc, sc0, kk, pre_names=pre_names,
                 lk=force.get("lk", rng.choice([0, 0, 1, 1, 2])), skind=skind, mode=mode, dir_=dir_,
                 g0=rng.randrange(kk), seed=rng.randrange(10 ** 6), shuffle=force.get("shuffle", rng.random() < 0.5),
                 thr=force.get("thr", rng.choice(THRS if n >= 25 else THRS[3:])), max_iter=force.get("max_iter", rng.choice([1, 1, 2, 2, 3, 3, 4, 5, 7, 10])),
                 override=rng.random() < 0.5, prow=prow, pnames=pnames, pickle_=rng.random() < 0.33, tags=tags)


def gen(ctx):
    cases = []
    # (1) small scope
    rng = ctx.sub("small")
    patterns = [(p, q) for p in itertools.permutations(range(4)) for q in [(3, 2, 1, 0), (0, 0, 1, 1), (2, 0, 3, 1)]]
    names = ["id", "c0", "c1"]
    for n in (4, 5) if ctx.thorough else (4,):
        for tv in itertools.product((0, 1), repeat=n):
            if sum(tv) in (0, n):
                continue
            for (p, q) in patterns[:: (1 if ctx.thorough else 5)]:
                p = list(p) + [rng.randrange(4) for _ in range(n - 4)]
                q = list(q) + [rng.randrange(4) for _ in range(n - 4)]
                shuffle = rng.random() < 0.5
                for lk in (0, 1):
                    cases.append(_case(names, [list(range(n)), p, q], tv, 0, 1, 2, lk=lk, seed=rng.randrange(1000),
                                       shuffle=shuffle, thr=rng.choice(["0.5", "1.0", "0.34"]), max_iter=rng.randint(1, 3),
                                       override=rng.random() < 0.5, mode=rng.choice([0, 1]), dir_="c0",
                                       tags=("small", f"n={n}", "shuffle" if shuffle else "no-shuffle")))
    # (2) random
    rng = ctx.sub("random")
    nr = 4000 if ctx.thorough else 700
    for k in range(nr):
        nmax = rng.choice([8, 20, 60, 300] if ctx.thorough else [8, 20, 60])
        c = _random_case(rng, nmax, ())
        c["tags"] = ["random", ("shuffle" if c["shuffle"] else "no-shuffle"), "mode=%d" % c["mode"],
                     "skind=%d" % c["skind"], "lk=%d" % c["lk"]]
        if set(c["pnames"]) != set(c["names"]):
            c["tags"].append("wrong-feature-set")
        elif c["pnames"] != c["names"]:
            c["tags"].append("columns-permuted")
        if c["pickle"]:
            c["tags"].append("pickle")
        if c["pre_names"]:
            c["tags"].append("pretrained-other-stored-order")
        cases.append(c)
    # separable data: long runs (several iterations, labels changing)
    rng = ctx.sub("separable")
    for k in range(600 if ctx.thorough else 150):
        c = _random_case(rng, rng.choice([20, 60]), (), force={"thr": rng.choice(["0.1", "0.2", "0.25", "0.3", "0.5"]),
                                                                 "max_iter": rng.randint(2, 10)})
        c["override"] = k % 3 == 0
        c["tags"] = ["separable", "shuffle" if c["shuffle"] else "no-shuffle", "override" if c["override"] else "no-override"]
        cases.append(c)
    # runs whose number of accepted targets goes up and down around the starting count (the two
    # "performs worse" exits): score column c0 separates well, c1 badly, the direction feature e0 in between
    rng = ctx.sub("decline")
    for k in range(600 if ctx.thorough else 160):
        n = rng.randint(12, 40)
        names, idc, sc0 = _layout(rng, 2, 1)
        targets = [1 if rng.random() < 0.65 else 0 for _ in range(n)]
        targets[0], targets[1] = 1, 0
        ids = list(range(n))
        rng.shuffle(ids)
        hi = {"c0": 0.9, "c1": rng.choice([0.15, 0.3]), "e0": rng.choice([0.4, 0.6])}
        if rng.random() < 0.5:
            hi["c0"], hi["c1"] = hi["c1"], hi["c0"]
        byname = {"id": ids}
        for nm in ("c0", "c1", "e0"):
            byname[nm] = [(20 + rng.randrange(20)) if (t and rng.random() < hi[nm]) else rng.randrange(10) for t in targets]
        c = _case(names, [byname[nm] for nm in names], targets, idc, sc0, 2, lk=rng.choice([0, 1]), skind=rng.choice([0, 0, 1, 2]),
                  mode=rng.choice([0, 1, 1]), dir_="e0", seed=rng.randrange(10 ** 6), shuffle=rng.random() < 0.5,
                  thr=rng.choice(["0.1", "0.2", "0.3"]), max_iter=rng.randint(2, 5), override=rng.random() < 0.3)
        c["tags"] = ["decline", "shuffle" if c["shuffle"] else "no-shuffle"]
        cases.append(c)
    # (3) edge stream
    rng = ctx.sub("edge")
    for k in range(240 if ctx.thorough else 120):
        kind = ["no-targets", "no-decoys", "bad-direction", "nothing-passes", "one-row-table", "max-iter-0",
                "pre-proba2", "two-rows"][k % 8]
        c = _random_case(rng, 12, ())
        n = len(c["targets"])
        if kind == "no-targets":
            c["targets"] = [0] * n
            c["enforce"] = False
        elif kind == "no-decoys":
            c["targets"] = [1] * n
            c["enforce"] = False
        elif kind == "bad-direction":
            c["mode"], c["dir"] = 1, rng.choice(["nope", "target", "C0"])
        elif kind == "nothing-passes":
            c["thr"] = rng.choice(["0.0", "0.001", "0.01"])
        elif kind == "one-row-table":
            c["prow"] = [rng.randrange(n)]
            c["pnames"] = list(c["names"])
            rng.shuffle(c["pnames"])
            c["thr"], c["override"], c["skind"] = "1.0", True, rng.choice([0, 1, 2])
        elif kind == "max-iter-0":
            c["max_iter"] = 0
        elif kind == "pre-proba2":
            c["mode"], c["skind"] = 2, 1
        elif kind == "two-rows":
            c = _case(["id", "c0"], [[5, 3], [rng.randrange(3), rng.randrange(3)]], rng.choice([[1, 0], [0, 1]]), 0, 1, 1,
                      lk=rng.choice([0, 1]), skind=rng.choice([0, 1, 2]), seed=rng.randrange(100), shuffle=rng.random() < 0.5,
                      thr="1.0", max_iter=rng.randint(1, 3), override=rng.random() < 0.5)
        c["tags"] = ["edge", kind]
        cases.append(c)
    # (4) decision_function alone: stored names vs table names
    rng = ctx.sub("predict")
    for k in range(300 if ctx.thorough else 100):
        kk = rng.randint(1, 3)
        stored, idc, sc0 = _layout(rng, kk, rng.randint(0, 2))
        n = rng.choice([1, 1, 2, 3, 7])
        pn = list(stored)
        r = rng.random()
        if r < 0.5:
            rng.shuffle(pn)
        elif r < 0.65:
            pn.pop(rng.randrange(len(pn)))
        elif r < 0.8:
            pn.append("zz")
        elif r < 0.9:
            pn[rng.randrange(len(pn))] = "zz"
        cases.append({"fn": "predict", "trained": rng.random() < 0.9, "sc0": sc0, "idc": idc, "kk": kk, "stored": stored,
                      "skind": rng.choice([0, 1, 2]), "g": rng.randrange(kk), "names": pn,
                      "cols": [[rng.randrange(50) for _ in range(n)] for _ in pn], "n": n,
                      "tags": ["predict", "n=1" if n == 1 else "n>1",
                               "same-set" if set(pn) == set(stored) else "wrong-feature-set"]})
    return cases


# ----------------------------------------------------------------------------- model side
def _strs(xs):
    return lib.lst(xs, lib.s)


def _cols(cols):
    return lib.lst(cols, lambda col: lib.lst(col))


def encode(c, patched=True):
    if c["fn"] == "predict":
        return "c12.predict %s %s %s %d %s %s %s %s" % (
            lib.b(c["trained"]), lib.z(c["sc0"]), _strs(c["stored"]), c["skind"], lib.z(c["g"]),
            _strs(c["names"]), _cols(c["cols"]), lib.z(c["n"]))
    n = len(c["targets"])
    names2, cols2, n2 = second_table(c)
    return "c12.fit %s %s %s %s %s %d %s %s %s %s %s %s %s %s %s %s %s %s %s %s" % (
        lib.b(patched), lib.z(c["lk"]), lib.z(c["idc"]), lib.z(c["sc0"]), lib.z(c["kk"]), c["skind"],
        lib.z(c["mode"]), lib.s(c["dir"]), lib.z(c["g0"]),
        _strs(c["names"]), _cols(c["cols"]), lib.lst(c["targets"], lib.b),
        lib.lst(sigma_of(c["seed"], n)), lib.b(c["shuffle"]), lib.q(Fraction(c["thr"])), lib.z(c["max_iter"]),
        lib.b(c["override"]), _strs(names2), _cols(cols2), lib.z(n2))


def decode(c, t):
    if c["fn"] == "predict":
        return t.result(lambda: t.lst(t.z))
    trace = t.lst(lambda: t.lst(lambda: [t.z(), t.b()]))

    def body():
        g = t.z()
        fp = t.z()
        d = t.opt(t.b)
        b = t.opt(t.z)
        p1 = t.result(lambda: t.lst(t.z))
        p2 = t.result(lambda: t.lst(t.z))
        return [g, fp, d, b, p1, p2]
    return [trace, t.result(body)]


# ----------------------------------------------------------------------------- implementation side
def _run_fit(c):
    """real Model.fit / predict (and save/load) -> same shape as the model's result"""
    from mokapot.model import Model, save_model, load_model
    _KEY[0] += 1
    key = "k%d" % _KEY[0]
    LOGS[key] = []
    try:
        names = c["names"]
        ds = _dataset(names, c["cols"], c["targets"], c["enforce"])
        m = Model(_estimator(c, key), scaler="as-is", train_fdr=float(c["thr"]), max_iter=c["max_iter"],
                  direction=(c["dir"] if c["mode"] == 1 else None), override=c["override"], shuffle=c["shuffle"],
                  rng=c["seed"])
        if c["mode"] == 2:       # a trained model, set up as load_model does for Percolator weights
            m.estimator.g_ = c["g0"]
            m.features = list(c.get("pre_names") or names)
            m.is_trained = True
        r = call_impl(m.fit, ds)
        trace = [[[i, {0.0: False, 1.0: True}.get(y, y)] for i, y in call] for call in LOGS[key]]
        if r[0] != "ok":
            return [trace, r]
        best = names.index(m.best_feat) if c["mode"] == 0 else None
        desc = None if m.desc is None else bool(m.desc)
        p1 = call_impl(lambda: _ints(m.predict(ds)))
        names2, cols2, n2 = second_table(c)
        ds2 = _dataset(names2, cols2, [c["targets"][r_] for r_ in c["prow"]], False)
        p2 = call_impl(lambda: _ints(m.predict(ds2)))
        if c.get("pickle"):
            with tempfile.TemporaryDirectory(prefix="c12_") as td:
                path = Path(td) / "model.pkl"
                # history: the path is not fresh — another model (or an unrelated leftover) was saved there before
                hist = c["seed"] % 3
                if hist == 1:
                    import copy
                    other = copy.deepcopy(m)
                    other.estimator.g_ = int(m.estimator.g_) + 1
                    other.features = list(reversed(m.features))
                    save_model(other, path)
                elif hist == 2:
                    path.write_bytes(b"leftover, not a pickle\n")
                save_model(m, path)
                m2 = load_model(path)
                q1 = call_impl(lambda: _ints(m2.predict(ds)))
                q2 = call_impl(lambda: _ints(m2.predict(ds2)))
            if (q1, q2) != (p1, p2) or list(m2.features) != list(m.features):
                p2 = ("err", "PickleRoundTripDiffers")
        return [trace, ("ok", [int(m.estimator.g_), int(m.feat_pass), desc, best, p1, p2])]
    finally:
        LOGS.pop(key, None)


def _run_predict(c):
    from mokapot.model import Model
    m = Model(_estimator(dict(c, lk=2), None), scaler="as-is")
    m.estimator.g_ = c["g"]
    m.features = list(c["stored"])
    m.is_trained = c["trained"]
    ds = _dataset(c["names"], c["cols"], [1] * c["n"], False)
    return _ints(m.predict(ds))


def impl(c):
    if c["fn"] == "predict":
        return call_impl(_run_predict, c)
    return _run_fit(c)


def nontrivial(c):
    if c["fn"] == "predict":
        return True
    return "edge" in c["tags"] or c["max_iter"] >= 2


# ----------------------------------------------------------------------------- the property itself
def oracle(c, i):
    """C12 on the implementation's output: (a) every (row id, label) handed to estimator.fit is a row of the
    table with its own label: negatives exactly the decoys, positives exactly the targets with q <= train_fdr
    under the scores of the previous fitted state; (b) for the order-independent estimator the fitted state
    and the predictions do not change when rows are permuted, the seed changes or shuffle is toggled;
    (c) prediction on permuted feature columns = prediction, wrong feature set -> ValueError."""
    if c["fn"] == "predict":
        if not c["trained"]:
            return None
        if set(c["names"]) != set(c["stored"]):
            return None if i == ("err", "ValueError") else f"feature set differs from the stored one but predict gave {i!r}"
        by = dict(zip(c["names"], c["cols"]))
        exp = list(by[c["stored"][c["sc0"] + c["g"]]])
        return None if i == ("ok", exp) else f"prediction {i!r} is not the stored score column taken by name {exp}"
    trace, res = i
    targets = [bool(t) for t in c["targets"]]
    if not any(targets) or all(targets):
        return None
    thr = Fraction(c["thr"])
    ids = c["cols"][c["idc"]]
    row_of = {v: r for r, v in enumerate(ids)}
    n = len(targets)
    prev_scores = None
    if c["mode"] == 2 and not c.get("pre_names"):
        # re-fit of a trained model: the labels of the first iteration come from the scores of the model as it was handed in
        prev_scores = c["cols"][c["sc0"] + c["g0"]]
        if not trace and res[0] == "err" and res[1] == "RuntimeError":
            exp0 = spec_labels(prev_scores, targets, thr)
            npos = sum(1 for v in exp0 if v == 1)
            if npos:
                return (f"re-fit of a trained model stopped before the first training iteration (RuntimeError) although {npos} targets "
                        f"are accepted at train_fdr={c['thr']} under the scores of the model handed in")
    for k, call in enumerate(trace):
        seen = set()
        for rid, y in call:
            if rid not in row_of or rid in seen:
                return f"iteration {k}: estimator.fit received row id {rid} which is not a (distinct) row of the table"
            seen.add(rid)
            r = row_of[rid]
            if y is False and targets[r]:
                return f"iteration {k}: target row {r} (id {rid}) was handed to estimator.fit as a negative"
            if y is True and not targets[r]:
                return f"iteration {k}: decoy row {r} (id {rid}) was handed to estimator.fit as a positive"
            if y not in (True, False):
                return f"iteration {k}: label {y!r}"
        for r in range(n):
            if not targets[r] and ids[r] not in seen:
                return f"iteration {k}: decoy row {r} (id {ids[r]}) is missing from the negatives"
        if prev_scores is not None:
            exp = spec_labels(prev_scores, targets, thr)
            pos = sorted(rid for rid, y in call if y is True)
            exp_pos = sorted(ids[r] for r in range(n) if exp[r] == 1)
            if pos != exp_pos:
                return (f"iteration {k}: positives handed to estimator.fit are ids {pos}, but the targets with q <= {c['thr']} "
                        f"under the current scores are ids {exp_pos}")
        g = _learn(c["lk"], c["kk"], [(rid, 1 if y else 0) for rid, y in call])
        prev_scores = c["cols"][c["sc0"] + g]
    if res[0] == "ok":
        g, fp, desc, best, p1, p2 = res[1]
        if p1 != ("ok", list(c["cols"][c["sc0"] + g])):
            return "prediction on the training table is not the score column chosen by the fitted estimator"
        if set(c["pnames"]) != set(c["names"]):
            if p2 != ("err", "ValueError"):
                return f"prediction table has another feature set but predict gave {p2!r}"
        else:
            exp = [c["cols"][c["sc0"] + g][r] for r in c["prow"]]
            if p2 != ("ok", exp):
                return (f"prediction on permuted rows/feature columns {p2!r} differs from the prediction of the same rows "
                        f"in training layout {exp}")
    # (d) decision_function or predict_proba: the scoring method the estimator offers does not matter
    if c["skind"] != 0 and not c.get("_variant"):
        j = _run_fit(dict(c, skind=0, _variant=True, pickle=False))
        if lib.jsonable(j) != lib.jsonable([trace, res]):
            return (f"an estimator offering only predict_proba ({'two columns' if c['skind'] == 1 else 'one column'}) gives "
                    f"{res!r}, the same estimator with decision_function gives {j[1]!r}")
    # (b) order invariance, order-independent estimators only
    if c["lk"] != 1 and c["mode"] != 2 and not c.get("_variant"):
        import random
        rr = random.Random(lib.stable_hash({k: v for k, v in c.items() if k != "tags"}))
        pi = list(range(n))
        rr.shuffle(pi)
        v = dict(c, cols=[[col[r] for r in pi] for col in c["cols"]], targets=[c["targets"][r] for r in pi],
                 seed=c["seed"] + 1 + rr.randrange(1000), shuffle=not c["shuffle"], _variant=True, pickle=False)
        inv = {r: j for j, r in enumerate(pi)}
        v["prow"] = [inv[r] for r in c["prow"]]
        j = _run_fit(v)
        if j[1][0] != res[0] or (res[0] == "err" and j[1][1] != res[1]):
            return f"outcome changes with row order / seed / shuffle switch: {res!r} vs {j[1]!r} (rows permuted by {pi}, shuffle={v['shuffle']})"
        if len(j[0]) != len(trace) or any(sorted(map(tuple, a)) != sorted(map(tuple, b)) for a, b in zip(trace, j[0])):
            return f"training sets change with row order / seed / shuffle switch (rows permuted by {pi}, shuffle={v['shuffle']})"
        if res[0] == "ok":
            a, b = res[1], j[1][1]
            if a[0] != b[0] or a[1] != b[1] or a[5] != b[5]:
                return f"fitted state / predictions change with row order / seed / shuffle switch: {a!r} vs {b!r}"
            if a[4][0] == "ok" and b[4][0] == "ok" and [a[4][1][r] for r in pi] != b[4][1]:
                return "predictions on the training table do not follow the rows when the rows are permuted"
    return None


def shrink(c):
    if c["fn"] != "fit":
        return
    n = len(c["targets"])
    if c["max_iter"] > 1:
        yield dict(c, max_iter=c["max_iter"] - 1)
    for r in range(n - 1, -1, -1):
        if n <= 2:
            break
        keep = [j for j in range(n) if j != r]
        remap = {j: k for k, j in enumerate(keep)}
        yield dict(c, cols=[[col[j] for j in keep] for col in c["cols"]], targets=[c["targets"][j] for j in keep],
                   prow=[remap[j] for j in c["prow"] if j in remap] or [0])
    if c["pnames"] != c["names"]:
        yield dict(c, pnames=list(c["names"]))
    if c["prow"] != list(range(n)):
        yield dict(c, prow=list(range(n)))
    if c.get("pickle"):
        yield dict(c, pickle=False)
    # drop an extra feature column
    for j, nm in enumerate(c["names"]):
        if nm.startswith("e") and c["dir"] != nm:
            names = c["names"][:j] + c["names"][j + 1:]
            yield dict(c, names=names, cols=c["cols"][:j] + c["cols"][j + 1:], idc=names.index("id"), sc0=names.index("c0"),
                       pnames=[p for p in c["pnames"] if p != nm])


# ----------------------------------------------------------------------------- oracle contracts
def extra_checks(ctx):
    """rng.permutation contract: what Model.fit draws is default_rng(seed).permutation(arange(n)), a permutation"""
    import numpy as np
    from mokapot.model import Model
    RecDF = _classes()[0]
    fails = []
    rng = ctx.sub("sigma")
    checked = 0
    for _ in range(40):
        n = rng.randint(2, 50)
        seed = rng.randrange(10 ** 6)
        sg = sigma_of(seed, n)
        if sorted(sg) != list(range(n)):
            fails.append({"what": f"default_rng({seed}).permutation(arange({n})) is not a permutation"})
        m = Model(RecDF(), scaler="as-is", rng=seed)
        drawn = [int(v) for v in m.rng.permutation(np.arange(n))]
        if drawn != sg:
            fails.append({"what": f"Model(rng={seed}).rng does not reproduce default_rng({seed})"})
        checked += 1
    return fails, {"sigma_contract_checked": checked}
