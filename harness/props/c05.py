"""C05 — independence of chunk sizes, workers, thread timing and file format: the real pipeline
read_pin -> brew -> assign_confidence under a lattice of configurations; every run is compared with the
baseline run, and the baseline with the chunk-free model prediction (Model/Brew.v, Model/Confidence.v, the
chunk-free feature-column specification of Model/PinCols.v).

The runner of the real code lives in this file (`_run`): it writes the generated tables (text with suffix .pin / .tab,
Parquet with a row-group layout, optionally dictionary-encoded strings), sets the chunk constants (module attributes,
or — `env` variants, in a fresh interpreter started through harness/c05_worker.py — the MOKAPOT_* environment
variables the code reads itself), perturbs task durations, and records through a probe on the readers which chunk
sizes the code really used, so that a configuration that silently has no effect is reported instead of counted."""
import json
import os
import random as _random
import shutil
import subprocess
import sys
import tempfile
import threading
import zlib
from fractions import Fraction
from pathlib import Path

from .. import lib, brewlib
from ..lib import call_impl
from . import c02, c03

PROP = "C05"
RULE = ("datasets are drawn from 10 profiles (every profile occurs in both tiers; quick 10 datasets, thorough 20): 1-3 jointly "
        "analysed files of different sizes (30-170 PSMs, spectra with 1-4 PSMs, spectrum keys of 1-4 columns), 1-36 feature "
        "columns (so that the default column-scan chunk of 19 splits them), columns in shuffled order, features with missing "
        "values in the first / last / a middle row (must be dropped whatever the row- and column-scan chunks), integer or "
        "dyadic-float features, labels as 1/-1, 1/0 or booleans, optional ModifiedPeptide / Precursor / PeptideGroup level "
        "columns, pairwise distinct or tied feature values (ties: no tie-break added to the scores), folds 2-6, "
        "subset_max_train absent / small, a single dataset object or a list, ensemble=True or per-fold prediction, "
        "decision_function or predict_proba estimator, de-duplication on / off, rollup on / off, prefixed or shared (appended) "
        "result files; transparent estimator whose learned column depends on the ORDER of the training rows (scores exact) "
        "and the real PercolatorModel. Per dataset one baseline run (default chunk sizes, 1 worker, .pin text) and 20 (quick) or 29-30 (thorough) "
        "variant runs: each chunk constant (confidence, merge-sort, prediction, training read, column scan, row scan) in "
        "{1, 2, 3, 7, n/3+1, n/2, n/2+1, n-1, n, n+1} for n the rows of the largest and of the smallest file, the "
        "confidence chunk also at the number of distinct spectra / peptides +-1 (flush boundary of the per-level batches), "
        "the column-scan chunk in {1, 2, 3, #ids, #ids+1, #features, #cols-1, #cols, #cols+1, 19}; pairs (confidence, "
        "merge-sort); all constants small at once; max_workers in {2, 3, 4, 8, 16} (read and brew workers equal or different) "
        "with randomly perturbed task durations, alone and combined with small chunks (many tasks per pool); Parquet with row "
        "groups {1, 2, 3, 7, n/2+1, n-1, n} combined with random chunk settings incl. merge-sort, Parquet with "
        "dictionary-encoded string columns (one row group; short row groups on every fifth dataset: known finding); text with "
        "suffix .tab; text that spells integer-valued floats without a fraction (%g) with small row-scan / training / prediction / "
        "merge-sort chunks, and with a small confidence chunk (known finding when a float spectrum-key column is de-duplicated); "
        "on every second dataset the same settings given through the MOKAPOT_* environment "
        "variables to a fresh interpreter with another PYTHONHASHSEED; every variant runs with another state of the global "
        "numpy / random generators. Own stream (round 5; quick 3, thorough 6 datasets, 5-6 / 9-10 variants each): tables with EMPTY cells "
        "in spectrum-key columns — a float key (ret_time / ExpMass), filename, ScanNr, all key columns at once, a random subset per "
        "spectrum; for whole spectra with several PSMs (must stay one spectrum: NaN in text, null in Parquet), for a part of the PSMs "
        "of a spectrum (two spectra then), spectra differing in the lost cell only (one spectrum then); de-duplication on (off in one "
        "thorough dataset), transparent and real learner; variants: confidence chunk small (1-7) and at the spectrum count, "
        "(confidence, merge-sort) pairs, all chunks small, Parquet row groups x small confidence / merge-sort chunks, .tab, workers, "
        "environment variables; the chunk-free model (Confidence.v: equal key cells, the empty ones included, are one spectrum) "
        "decides the baseline. Compared with the baseline: feature columns of every file, brew scores and descs, which "
        "rows each fold model scored, result file names, header, every cell of every row (ids, peptide, proteins, level "
        "columns, PEP exactly; score to 1e-9 because it passes through text; q-values exactly), row order, leftover files. "
        "Tied scores: rows may be permuted among equal scores only; when an entity has two top PSMs with the same score (any "
        "tied winner is legitimate) only the (spectrum, score) multiset at PSM level is compared. The baseline is compared "
        "with the extracted model (transparent estimator, integer features, per-fold prediction: Brew.v bw_brew_scores; distinct scores: "
        "Confidence.v), its feature columns with the chunk-free specification (columns without missing value, file order), "
        "ensemble scores with the mean of the learned columns (property oracle) AND with the extracted model of the ensemble "
        "branch (Brew.v bw_brew_scores_ens, R2.22: models in fold order, every model scores every row, training sets, the "
        "averaged scores exactly, integer or quarter-valued features); float-valued features without ensemble and the real "
        "learner are checked against the baseline only. "
        "A probe on the readers records the chunk sizes in use: a variant whose setting never reached the code is a failure "
        "of the check. distinct = (dataset, variant) pairs; non-trivial = the baseline and the variant ran to the end and "
        "the variant really changed the execution: some configured stream was delivered in >= 2 chunks, or > 1 worker, or "
        "another file format / suffix / interpreter")
ASSUMPTIONS = [
    "floating-point summation order inside numpy / liblinear is runtime: real-learner scores are compared to 1e-9 relative "
    "(result files exactly whenever the scores are bit-identical, which they are on the pinned tree)",
    "PEP estimation replaced by a constant (C06)",
    "among PSMs with equal scores any order, and among equally scored top PSMs of one spectrum / peptide any winner, is "
    "accepted (pandas sort and merge order; C03 assumption)",
    "feature values are integers or multiples of 1/4 so that text and Parquet carry the identical table",
    "column names that collide with mokapot's internal names (fold, score) are outside this property: they fail "
    "identically under every configuration",
    "the brew scores are passed to assign_confidence as they are, non-finite values included (a fold whose lowest accepted "
    "target score equals its median decoy score calibrates to inf / NaN under every configuration alike)",
]
TRUSTED_EXTRA = c02.TRUSTED_EXTRA + ["pyarrow iter_batches batch lengths (oracle; contract in C13)",
                                     "the probe wraps CSVFileReader / ParquetFileReader.get_chunked_data_iterator and "
                                     "pyarrow.parquet.ParquetFile.iter_batches (records sizes, passes data through)"]

LEVEL_COLS = list(c03.LEVEL_COLS)
SPEC_COLS = ("filename", "ScanNr", "ret_time", "ExpMass")
STREAMS = ("confidence", "mergesort", "predict", "trainread", "colscan", "rowscan")
ENV_NAMES = {
    "confidence": "MOKAPOT_CONFIDENCE_CHUNK_SIZE",
    "trainread": "MOKAPOT_CHUNK_SIZE_READ_ALL_DATA",
    "predict": "MOKAPOT_CHUNK_SIZE_ROWS_PREDICTION",
    "colscan": "MOKAPOT_CHUNK_SIZE_COLUMNS_FOR_DROP_COLUMNS",
    "rowscan": "MOKAPOT_CHUNK_SIZE_ROWS_FOR_DROP_COLUMNS",
    "mergesort": "MOKAPOT_MERGE_SORT_CHUNK_SIZE",
}

# ----------------------------------------------------------------------------- dataset profiles
# every profile forces the dimensions named in it; everything else is drawn at random per dataset
PROFILES = [
    {"name": "classic", "nfiles": 1, "learner": "transparent"},
    {"name": "multi-file", "nfiles": (2, 3), "learner": "percolator", "prefixes": True, "nfeat": (3, 6, 17)},
    {"name": "nan-features", "nan": True, "nfeat": (15, 16, 17, 18, 34, 36), "shuffle_cols": True, "learner": "transparent"},
    {"name": "ensemble", "ensemble": True, "learner": "transparent", "nfiles": (1, 2)},
    {"name": "nodedup-levels-shared", "dedup": False, "levels": True, "nfiles": (2, 2, 3), "prefixes": False, "learner": "transparent"},
    {"name": "ties", "ties": True, "learner": "transparent"},
    {"name": "proba-capped", "est_mode": "proba", "cap": True, "folds": (5, 6), "learner": "transparent"},
    {"name": "float-nan-percolator", "floats": True, "nan": True, "learner": "percolator", "label_enc": "01", "shuffle_cols": True,
     "nfeat": (3, 6, 16)},
    {"name": "single-object", "single": True, "nfiles": 1, "rollup": False, "label_enc": "bool", "nfeat": (1, 2), "learner": "transparent"},
    {"name": "percolator-ensemble", "ensemble": True, "learner": "percolator", "nfiles": (2, 2, 1), "nan": True, "nfeat": (3, 6, 18)},
]


def _pick(rng, v):
    return rng.choice(list(v)) if isinstance(v, (tuple, list)) else v


def _is_feature(col):
    return col == "rid" or col.startswith("feat") or col.startswith("nanf")


def _gen_dataset(rng, prof, thorough):
    nfiles = _pick(rng, prof.get("nfiles", (1, 1, 2)))
    nkey = _pick(rng, prof.get("nkey", [1, 2, 3, 4]))
    nfeat = _pick(rng, prof.get("nfeat", (3, 3, 3, 6, 1, 17)))
    ties = bool(prof.get("ties"))
    levels = [lv for lv in LEVEL_COLS if rng.random() < (0.6 if prof.get("levels") else 0.12)]
    if prof.get("levels") and not levels:
        levels = [rng.choice(LEVEL_COLS)]
    label_enc = prof.get("label_enc") or rng.choice(["pm1", "pm1", "01", "bool"])
    nmaxrows = 170 if thorough else 90
    sizes = [rng.randint(40, nmaxrows)] + [rng.randint(30, nmaxrows) for _ in range(nfiles - 1)]
    rng.shuffle(sizes)
    files = [brewlib.gen_file(rng, sizes[j], nkey, nfeat=nfeat, file_idx=j, mult=(1, 4), label_enc=label_enc, quality=0.95,
                              levels=levels, distinct=not ties) for j in range(nfiles)]
    feats = ["feat%d" % j for j in range(nfeat)]
    if ties:
        # tied values ACROSS spectra (order among equal scores), not inside one spectrum (the winner would be arbitrary)
        fresh = [1000]
        for f in files:
            cols = [x for x in SPEC_COLS if x in f["data"]]
            for name in feats:
                seen = set()
                for r in range(len(f["targets"])):
                    spec = tuple(f["data"][x][r] for x in cols)
                    if (spec, f["data"][name][r]) in seen:
                        fresh[0] += 1
                        f["data"][name][r] = fresh[0]
                    seen.add((spec, f["data"][name][r]))
    if prof.get("floats") or (not prof.get("ties") and rng.random() < 0.1):
        for f in files:
            for name in feats:
                f["data"][name] = [v / 4.0 for v in f["data"][name]]
        floats = True
    else:
        floats = False
    # features with missing values: the same columns in every file (brew requires equal feature sets), other rows
    nanf = []
    if prof.get("nan") or rng.random() < 0.15:
        nn = rng.choice([1, 2, 2, 3])
        kinds = rng.sample(["first", "last", "middle", "two"], nn)
        for t, kind in enumerate(kinds):
            name = "nanf%d" % t
            nanf.append(name)
            for f in files:
                n = len(f["targets"])
                vals = [rng.randint(0, 90) for _ in range(n)]
                rows = {"first": [0], "last": [n - 1], "middle": [rng.randint(1, n - 2)],
                        "two": sorted(rng.sample(range(n), 2))}[kind]
                for r in rows:
                    vals[r] = None
                f["data"][name] = vals
    # column order: rid stays the first FEATURE column (the recording scaler reads the row id from feature 0)
    base_cols = list(files[0]["columns"]) + nanf
    if prof.get("shuffle_cols") or rng.random() < 0.35:
        rest = [c for c in base_cols if c != "rid"]
        rng.shuffle(rest)
        first_feat = min(i for i, c in enumerate(rest) if _is_feature(c)) if any(_is_feature(c) for c in rest) else len(rest)
        rest.insert(rng.randint(0, first_feat), "rid")
        order = rest
        shuffled = True
    else:
        # NaN features placed among the features
        order = [c for c in base_cols if c not in nanf]
        for name in nanf:
            order.insert(order.index("rid") + 1 + rng.randint(0, nfeat), name)
        shuffled = False
    for f in files:
        f["columns"] = list(order)
    learner = prof["learner"]
    est_mode = prof.get("est_mode") or rng.choice(["decision", "decision", "decision", "proba"])
    folds = _pick(rng, prof.get("folds", (2, 3, 3, 4, 5)))
    if learner == "percolator" or est_mode == "decision":
        # every fold of every file needs a few targets above its decoys, or the calibration inside brew refuses (C11) and
        # the dataset exercises nothing: at least ~15 PSMs per fold and file (predict_proba scores are not calibrated)
        folds = min(folds, max(2, min(sizes) // 15))
    cap = None
    if prof.get("cap") or rng.random() < 0.15:
        # brew splits the cap evenly over the files and draws without replacement: stay below the training rows of the
        # smallest file (about nmin * (1 - 1/folds) >= nmin / 2), or rng.choice raises for every configuration alike
        cap = nfiles * max(4, min(sizes) // rng.choice([3, 4]))
    multi = nfiles > 1
    base = {"fn": "pipeline", "files": files, "folds": folds, "seed": rng.randint(0, 10 ** 6),
            "test_fdr": "0.5", "train_fdr": 0.5 if learner == "percolator" else 1.0, "learner": learner,
            "subset_max_train": cap, "est_mode": est_mode,
            "est_order": True, "ensemble": bool(prof.get("ensemble")),
            "confidence": True, "tiebreak": not ties,
            "dedup": prof.get("dedup", rng.random() < 0.8), "rollup": prof.get("rollup", rng.random() < 0.85),
            "prefixes": prof.get("prefixes", rng.random() < 0.6) if multi else rng.random() < 0.3,
            "single": bool(prof.get("single")) and not multi, "levels": levels, "nkey": nkey,
            "profile": prof["name"]}
    info = {"nfiles": nfiles, "nfeat": nfeat, "nan": len(nanf), "floats": floats, "shuffled": shuffled, "ties": ties,
            "levels": len(levels), "label_enc": label_enc, "cap": cap is not None}
    return base, info


def _distinct(f, cols):
    return len(set(tuple(f["data"][x][r] for x in cols) for r in range(len(f["targets"]))))


def _gen_variants(rng, base, thorough, ds_index=0):
    files = base["files"]
    ns = [len(f["targets"]) for f in files]
    nmax, nmin = max(ns), min(ns)
    f0 = files[0]
    nspec = _distinct(f0, [x for x in SPEC_COLS if x in f0["data"]])
    npep = _distinct(f0, ["Peptide"])
    nid = 2 + len(brewlib.KEYSETS[base["nkey"]])
    nfeatcols = sum(1 for c in f0["columns"] if _is_feature(c))
    ncols = nfeatcols + nid

    def clean(vs):
        return sorted(set(max(1, int(v)) for v in vs))
    rows = clean([1, 2, 3, 7, nmax // 3 + 1, nmax // 2, nmax // 2 + 1, nmax - 1, nmax, nmax + 1, nmin - 1, nmin, nmin + 1])
    conf = clean(rows + [nspec - 1, nspec, nspec + 1, npep - 1, npep, npep + 1])
    colsz = clean([1, 2, 3, nid, nid + 1, nfeatcols, ncols - 1, ncols, ncols + 1, 19])
    per = 2 if thorough else 1
    variants = []
    for name in STREAMS:
        pool = conf if name == "confidence" else colsz if name == "colscan" else rows
        k = per + (1 if name in ("confidence", "colscan") or (thorough and name == "rowscan") else 0)
        for v in rng.sample(pool, min(k, len(pool))):
            variants.append({"name": f"{name}={v}", "chunks": {name: v}})
    # (confidence, merge-sort) pairs: the merge-sort chunk relative to the size of the sorted chunk files
    for _ in range(2 if thorough else 1):
        c = rng.choice([2, 3, 7, nmax // 2 + 1])
        m = max(1, rng.choice([1, 2, c - 1, c, c + 1]))
        variants.append({"name": f"confidence+mergesort={c},{m}", "chunks": {"confidence": c, "mergesort": m}})
    variants.append({"name": "all-small", "chunks": dict({n: rng.choice([1, 2, 3]) for n in STREAMS if n != "colscan"},
                                                         colscan=rng.choice([1, 2, 3, nid]))})
    # workers alone (few tasks per pool) and with small chunks (many tasks per pool: completion order matters)
    ws = rng.sample([2, 3, 4, 8, 16], 3)
    variants.append({"name": f"workers={ws[0]}+sleeps", "workers": ws[0], "read_workers": ws[0], "sleep_seed": rng.randint(1, 10 ** 6)})
    variants.append({"name": f"workers={ws[1]}+sleeps+chunks", "workers": ws[1], "read_workers": rng.choice([1, ws[1], 5]),
                     "sleep_seed": rng.randint(1, 10 ** 6),
                     "chunks": {"trainread": rng.choice([1, 2, 3, 5]), "predict": rng.choice([2, 3, 7]),
                                "confidence": rng.choice([2, 3, 5]), "colscan": rng.choice([1, 2, 3]),
                                "rowscan": rng.choice([1, 3, 7])}})
    if thorough:
        variants.append({"name": f"workers={ws[2]}+sleeps+chunks", "workers": ws[2], "read_workers": ws[2],
                         "sleep_seed": rng.randint(1, 10 ** 6),
                         "chunks": {"trainread": rng.choice([1, 2, 7]), "confidence": rng.choice([1, 2, 7]),
                                    "mergesort": rng.choice([1, 2, 3])}})
    # Parquet: row groups x random chunk settings (every stream, merge-sort included, meets the Parquet readers)
    rgs = clean([1, 2, 3, 7, nmax // 2 + 1, nmax - 1, nmax])
    for rg in rng.sample(rgs, 3 if thorough else 2):
        ch = {n: rng.choice(rows[:6]) for n in rng.sample([s for s in STREAMS if s != "colscan"], rng.randint(0, 3))}
        nm = f"parquet-rg={rg}" + ("+chunks" if ch else "")
        variants.append({"name": nm, "fmt": "parquet", "row_group": rg, "chunks": ch})
    variants.append({"name": "parquet+chunks+workers", "fmt": "parquet", "row_group": rng.choice([2, 3, 5]), "workers": 4,
                     "read_workers": rng.choice([1, 4]), "sleep_seed": rng.randint(1, 10 ** 6),
                     "chunks": {"predict": 3, "confidence": 2, "trainread": 5, "mergesort": rng.choice([1, 2, 3]),
                                "rowscan": rng.choice([2, 4])}})
    # dictionary-typed string columns: one row group per file, except every fifth dataset (short row groups: known finding)
    variants.append({"name": "parquet-dict", "fmt": "parquet", "row_group": rng.choice([3, 7]) if ds_index % 5 == 0 else nmax,
                     "dict_strings": True, "chunks": {"predict": rng.choice([2, 7]), "confidence": rng.choice([3, 7])}})
    variants.append({"name": "suffix=.tab", "suffix": ".tab", "chunks": {} if rng.random() < 0.5 else {"confidence": rng.choice([2, 7]), "trainread": 3}})
    # text that writes integer-valued floats without a fraction ("500" for 500.0: still the identical table); pandas then
    # infers the column type per chunk.  With a small confidence chunk this is a known finding (KEY_INTLIKE)
    variants.append({"name": "text-%g+chunks", "float_format": "%g",
                     "chunks": {"rowscan": rng.choice([2, 3, 7]), "trainread": rng.choice([2, 3, 7]), "predict": rng.choice([2, 3, 7]),
                                "mergesort": rng.choice([1, 2])}})
    if thorough or ds_index % 2 == 1:
        variants.append({"name": "text-%g+confidence", "float_format": "%g", "chunks": {"confidence": rng.choice([2, 3, 5, 7])}})
    # the settings given the way a user gives them: MOKAPOT_* environment variables of a fresh interpreter
    # (a fresh interpreter costs several seconds: every second dataset; the second round of profiles takes the other half)
    env = {"name": "env", "env": True, "hashseed": rng.randint(1, 10 ** 6),
           "chunks": dict({n: rng.choice([2, 3, 7]) for n in STREAMS if n != "colscan"}, colscan=rng.choice([2, 3, nid, 19])),
           "workers": rng.choice([1, 2]), "read_workers": 1}
    if (ds_index + ds_index // len(PROFILES)) % 2 == 0:
        variants.append(env)
    for v in variants:
        v["np_seed"] = rng.randint(1, 2 ** 31 - 1)
    return variants


# ----------------------------------------------------------------------------- missing values in spectrum-key columns
# A spectrum whose retention time / mass / file name / scan number was not recorded has an EMPTY cell in a column that
# identifies the spectrum.  The table is still one table: PSMs with equal key cells, the empty ones included, are one
# spectrum (pandas drop_duplicates inside a chunk, the Python tuple of the generated table in the model), whatever the
# confidence chunks, and whether the cell is a NaN (text) or a null (Parquet).
MK_PROFILES = [
    {"name": "missing-key-float", "mk": "float", "nkey": (2, 3, 4), "dedup": True, "learner": "transparent", "nfiles": 1},
    {"name": "missing-key-filename", "mk": "filename", "nkey": (3, 4), "dedup": True, "learner": "transparent", "nfiles": (1, 2)},
    {"name": "missing-key-all", "mk": "all", "nkey": (2, 3, 4), "dedup": True, "learner": "transparent", "nfiles": (1, 2)},
    {"name": "missing-key-scan", "mk": "ScanNr", "nkey": (1, 2, 4), "dedup": True, "learner": "transparent", "nfiles": 1},
    {"name": "missing-key-mixed-nodedup", "mk": "mixed", "nkey": (3, 4), "dedup": False, "learner": "transparent", "nfiles": (1, 2)},
    {"name": "missing-key-mixed-percolator", "mk": "mixed", "nkey": (3, 4), "dedup": True, "learner": "percolator", "nfiles": 1,
     "nfeat": (3, 6)},
]


def _punch_keys(rng, files, mode):
    """empty cells in spectrum-key columns; -> what the tables now contain.  Whole spectra lose a value (all their PSMs: the
    several PSMs of such a spectrum must still be recognised as one spectrum), some spectra lose it in a part of their PSMs
    only (two spectra then), and spectra that differed in the lost column only become one"""
    info = {"cols": set(), "multi": False, "partial": False, "allcols": False, "merged": False, "rows": 0}
    for f in files:
        cols = [x for x in SPEC_COLS if x in f["data"]]
        n = len(f["targets"])
        before = {}
        for r in range(n):
            before.setdefault(tuple(f["data"][x][r] for x in cols), []).append(r)
        specs = sorted(before.values())
        multi = [g for g in specs if len(g) >= 2]
        single = [g for g in specs if len(g) == 1]
        chosen = rng.sample(multi, min(len(multi), max(3, len(multi) // 3))) + rng.sample(single, min(len(single), 2))
        if mode == "float":
            fixed = [rng.choice([x for x in cols if x in ("ret_time", "ExpMass")])]
        elif mode in ("filename", "ScanNr"):
            fixed = [mode]
        else:
            fixed = None
        for gi, g in enumerate(chosen):
            if mode == "all" and gi % 2 == 0:
                which = list(cols)
                info["allcols"] = True
            elif fixed is not None:
                which = fixed
            else:
                which = rng.sample(cols, rng.randint(1, len(cols)))
            rows = list(g)
            if len(g) >= 2 and gi % 4 == 3:
                rows = rng.sample(g, rng.randint(1, len(g) - 1))
                info["partial"] = True
            elif len(g) >= 2:
                info["multi"] = True
            for x in which:
                info["cols"].add(x)
                for r in rows:
                    f["data"][x][r] = None
            info["rows"] += len(rows)
        # spectra that differed in the lost cells only are one spectrum now
        origin = {r: gi for gi, g in enumerate(specs) for r in g}
        after = {}
        for r in range(n):
            after.setdefault(tuple(f["data"][x][r] for x in cols), set()).add(origin[r])
        info["merged"] = info["merged"] or any(len(v) > 1 for v in after.values())
    return info


def _gen_mk_variants(rng, base, thorough, ds_index, mk):
    files = base["files"]
    ns = [len(f["targets"]) for f in files]
    nmax = max(ns)
    f0 = files[0]
    nspec = _distinct(f0, [x for x in SPEC_COLS if x in f0["data"]])

    def clean(vs):
        return sorted(set(max(1, int(v)) for v in vs))
    conf = clean([1, 2, 3, 5, 7, nmax // 3 + 1, nmax // 2 + 1, nspec - 1, nspec, nspec + 1, max(2, mk["rows"])])
    variants = []
    small = rng.choice([1, 2, 3, 5, 7])       # the PSMs of nearly every spectrum fall into different chunks
    for v in [small] + rng.sample([x for x in conf if x != small], 2 if thorough else 1):
        variants.append({"name": f"confidence={v}", "chunks": {"confidence": v}})
    c = rng.choice([2, 3, 7, nmax // 2 + 1])
    m = max(1, rng.choice([1, 2, c - 1, c, c + 1]))
    variants.append({"name": f"confidence+mergesort={c},{m}", "chunks": {"confidence": c, "mergesort": m}})
    variants.append({"name": "all-small", "chunks": dict({n: rng.choice([1, 2, 3]) for n in STREAMS if n != "colscan"},
                                                         colscan=rng.choice([1, 2, 3]))})
    # Parquet carries the empty cell as a null (None), text as NaN: the same table
    rg = rng.choice(clean([1, 2, 3, 7, nmax // 2 + 1, nmax]))
    variants.append({"name": f"parquet-rg={rg}+confidence", "fmt": "parquet", "row_group": rg,
                     "chunks": {"confidence": rng.choice([1, 2, 3, 7]), "mergesort": rng.choice([1, 2, 3])}})
    if thorough:
        variants.append({"name": f"parquet-rg={nmax}", "fmt": "parquet", "row_group": nmax, "chunks": {}})
        variants.append({"name": "suffix=.tab", "suffix": ".tab", "chunks": {"confidence": rng.choice([2, 7]), "rowscan": rng.choice([1, 2, 5])}})
        w = rng.choice([2, 3, 4, 8])
        variants.append({"name": f"workers={w}+sleeps+chunks", "workers": w, "read_workers": rng.choice([1, w]),
                         "sleep_seed": rng.randint(1, 10 ** 6),
                         "chunks": {"trainread": rng.choice([1, 2, 3, 5]), "predict": rng.choice([2, 3, 7]),
                                    "confidence": rng.choice([2, 3, 5]), "rowscan": rng.choice([1, 3, 7])}})
    if ds_index % 3 == 0:
        variants.append({"name": "env", "env": True, "hashseed": rng.randint(1, 10 ** 6),
                         "chunks": {"confidence": rng.choice([2, 3, 7]), "mergesort": rng.choice([1, 2, 3]), "rowscan": rng.choice([2, 3, 7])},
                         "workers": 1, "read_workers": 1})
    for v in variants:
        v["np_seed"] = rng.randint(1, 2 ** 31 - 1)
    return variants


def gen(ctx):
    cases = []
    rng = ctx.sub("c05")
    nds = 20 if ctx.thorough else 10
    for k in range(nds):
        prof = PROFILES[k % len(PROFILES)]
        base, info = _gen_dataset(rng, prof, ctx.thorough)
        variants = _gen_variants(rng, base, ctx.thorough, k)
        dtags = ["profile=" + prof["name"], base["learner"], f"files={info['nfiles']}", f"folds={base['folds']}"]
        dtags += [t for t, on in (("nan-features", info["nan"]), ("float-features", info["floats"]), ("shuffled-columns", info["shuffled"]),
                                  ("tied-scores", info["ties"]), ("level-columns", info["levels"]), ("capped-training", info["cap"]),
                                  ("ensemble", base["ensemble"]), ("nodedup", not base["dedup"]), ("norollup", not base["rollup"]),
                                  ("shared-result-files", info["nfiles"] > 1 and not base["prefixes"]), ("single-object", base["single"]),
                                  ("proba", base["est_mode"] == "proba"), ("features>=15", info["nfeat"] >= 15)) if on]
        dtags.append("labels=" + info["label_enc"])
        for v in variants:
            c = dict(base)
            c["variant"] = v
            c["tags"] = ["pipeline", "variant:" + v["name"].split("=")[0]] + dtags
            cases.append(c)
    # round 5: missing values in SPECTRUM-KEY columns (own stream, after the existing ones: their cases keep their seeds)
    rng = ctx.sub("c05-missing-key")
    for k in range(6 if ctx.thorough else 3):
        prof = MK_PROFILES[k % len(MK_PROFILES)]
        base, info = _gen_dataset(rng, prof, ctx.thorough)
        mk = _punch_keys(rng, base["files"], prof["mk"])
        base["profile"] = prof["name"]
        variants = _gen_mk_variants(rng, base, ctx.thorough, k, mk)
        dtags = ["profile=" + prof["name"], "missing-key", base["learner"], f"files={info['nfiles']}", f"folds={base['folds']}",
                 f"keycols={base['nkey']}", "labels=" + info["label_enc"]]
        dtags += ["missing:" + c for c in sorted(mk["cols"])]
        dtags += [t for t, on in (("missing-key:whole-spectrum-several-psms", mk["multi"]), ("missing-key:part-of-a-spectrum", mk["partial"]),
                                  ("missing-key:all-key-columns", mk["allcols"]), ("missing-key:spectra-merged-by-the-gap", mk["merged"]),
                                  ("nodedup", not base["dedup"]), ("norollup", not base["rollup"])) if on]
        for v in variants:
            c = dict(base)
            c["variant"] = v
            c["tags"] = ["pipeline", "variant:" + v["name"].split("=")[0]] + dtags
            cases.append(c)
    return cases


# ----------------------------------------------------------------------------- running the real code
_CLS = []


def _classes():
    """recording scaler of brewlib + a transparent estimator whose learned column depends on the ORDER of the rows it is
    fitted on (brewlib's depends on their sum only): a training set delivered in another order is visible in the scores"""
    if _CLS:
        return _CLS[0]
    import numpy as np
    RecScaler, Transparent = brewlib.make_classes()

    class OrderTransparent(Transparent):
        def __init__(self, mode="decision", learn=True, kind="col", ordered=True):
            super().__init__(mode=mode, learn=learn, kind=kind)
            self.ordered = ordered

        def fit(self, X, y):
            ids = [int(v) for v in X[:, 0]]
            h = sum((i + 1) * v for i, v in enumerate(ids)) if self.ordered else sum(ids)
            self.col_ = 1 + (h % (X.shape[1] - 1)) if X.shape[1] > 1 else 0
            self.classes_ = np.array([0, 1])
            with brewlib._LOCK:
                brewlib.LOG["est_fit"].append((ids, [int(v) for v in y], int(self.col_)))
            return self

    _CLS.append((RecScaler, OrderTransparent))
    return _CLS[0]


class _Probe:
    """records which chunk sizes the readers were asked for (and how many chunks they delivered), per phase"""

    def __init__(self):
        self.log = []
        self.phase = "init"
        self.old = []
        self.lock = threading.Lock()

    def __enter__(self):
        import mokapot.tabular_data as td
        import pyarrow.parquet as pq
        probe = self

        def wrap_reader(cls):
            orig = cls.get_chunked_data_iterator

            def g(self_, chunk_size, columns=None):
                rec = {"phase": probe.phase, "kind": cls.__name__, "size": int(chunk_size),
                       "ncols": None if columns is None else len(columns), "chunks": 0}
                with probe.lock:
                    probe.log.append(rec)
                for ch in orig(self_, chunk_size, columns):
                    rec["chunks"] += 1
                    yield ch
            cls.get_chunked_data_iterator = g
            probe.old.append((cls, "get_chunked_data_iterator", orig))
        wrap_reader(td.CSVFileReader)
        wrap_reader(td.ParquetFileReader)
        orig_ib = pq.ParquetFile.iter_batches

        def ib(self_, batch_size=65536, *a, **k):
            rec = {"phase": probe.phase, "kind": "iter_batches", "size": int(batch_size), "ncols": None, "chunks": 0}
            with probe.lock:
                probe.log.append(rec)
            for b in orig_ib(self_, batch_size, *a, **k):
                rec["chunks"] += 1
                yield b
        pq.ParquetFile.iter_batches = ib
        probe.old.append((pq.ParquetFile, "iter_batches", orig_ib))
        return self

    def __exit__(self, *a):
        for obj, name, f in self.old:
            setattr(obj, name, f)
        self.old = []


def _effect(cfg, log, failed_in, all_trained=True):
    """-> (names of configured streams whose setting never reached the code, {stream: max chunks delivered})"""
    phases = {"rowscan": "read", "colscan": "read", "trainread": "brew", "predict": "brew", "confidence": "conf", "mergesort": "conf"}
    order = ["read", "brew", "conf"]
    reached = order if failed_in is None else order[:order.index(failed_in)]
    bad, nch = [], {}
    nid = 2 + len(brewlib.KEYSETS[cfg["nkey"]])
    for name, v in (cfg.get("chunks") or {}).items():
        ph = phases[name]
        if ph not in reached or (name == "predict" and not all_trained):
            continue          # brew does not read the prediction stream when some fold model could not be trained
        recs = [r for r in log if r["phase"] == ph]
        if name == "colscan":
            widths = [r["ncols"] for r in recs if r["ncols"] is not None and r["kind"] != "iter_batches"]
            total = sum(1 for c in cfg["files"][0]["columns"] if _is_feature(c)) + nid
            ncalls = len(widths) // max(1, len(cfg["files"]))
            if not widths or max(widths) > max(v, nid) or (total > max(v, nid) and ncalls < 2):
                bad.append(name)
            nch[name] = ncalls
            continue
        mine = [r for r in recs if r["size"] == int(v)]
        if not mine:
            bad.append(name)
        nch[name] = max([r["chunks"] for r in mine] or [0])
    return bad, nch


def _write_file(f, d, name, fmt="tsv", row_group=None, suffix=None, dict_strings=False, float_format=None):
    import pandas as pd
    df = pd.DataFrame(f["data"], columns=f["columns"])
    if fmt == "parquet":
        p = Path(d) / (name + ".parquet")
        if dict_strings:
            for c in df.columns:
                if df[c].dtype == object or str(df[c].dtype).startswith(("str", "string")):
                    df[c] = df[c].astype("category")
        df.to_parquet(p, index=False, row_group_size=row_group or max(1, len(df)))
    else:
        p = Path(d) / (name + (suffix or ".pin"))
        df.to_csv(p, sep="\t", index=False, float_format=float_format)
    return p


def _reference_keys(paths, files):
    """the hashes _split must work on, from pandas' own reading of the whole file (no mokapot code involved); None when
    pandas cannot say (the comparison with the implementation's keys is then left out, nothing else)"""
    import pandas as pd
    try:
        out = []
        for p, f in zip(paths, files):
            df = pd.read_parquet(p) if p.suffix == ".parquet" else pd.read_csv(p, sep="\t")
            vals = df[[x for x in SPEC_COLS if x in f["data"]]].values
            out.append([zlib.crc32(str(tuple(x[:2])).encode()) for x in vals])
        return out
    except Exception:
        return None


def _parse_result(path):
    """header and rows of a result file: numbers as floats, everything else as text"""
    import pandas as pd
    if path.suffix == ".parquet":
        df = pd.read_parquet(path)
    else:
        df = pd.read_csv(path, sep="\t", float_precision="round_trip")
    cols = [str(c) for c in df.columns]
    rows = []
    for rec in df.itertuples(index=False, name=None):
        row = []
        for v in rec:
            if isinstance(v, bool) or v is None:
                row.append(str(v))
            elif isinstance(v, (int, float)) or hasattr(v, "dtype") and v.dtype.kind in "iuf":
                row.append(float(v))
            else:
                row.append(str(v))
        rows.append(row)
    return {"cols": cols, "rows": rows}


def _run(cfg):
    """run the real read_pin + brew + assign_confidence under one configuration; JSON-able observation"""
    import numpy as np
    import mokapot
    import mokapot.confidence as conf
    from mokapot.model import Model
    RecScaler, Transparent = _classes()
    d = tempfile.mkdtemp(prefix="c05_", dir=os.environ.get("VERIF_TMP", "/tmp"))
    probe = _Probe()
    failed_in = None
    obs = {"error": None}
    chunks = cfg.get("chunks") or {}
    try:
        paths = [_write_file(f, d, "file%d" % i, cfg.get("fmt", "tsv"), cfg.get("row_group"), cfg.get("suffix"),
                             cfg.get("dict_strings", False), cfg.get("float_format")) for i, f in enumerate(cfg["files"])]
        if cfg.get("np_seed") is not None:       # global generator state: nothing may depend on it
            np.random.seed(cfg["np_seed"] % (2 ** 32))
            _random.seed(cfg["np_seed"])
        if cfg.get("env"):
            import importlib
            # the constants were read from the environment when mokapot was imported by this (fresh) interpreter
            stale = [n for n, v in chunks.items()
                     if getattr(importlib.import_module(brewlib.Chunking.NAMES[n][0]), brewlib.Chunking.NAMES[n][1]) != int(v)]
            obs["env_not_applied"] = stale
            chunking = brewlib.Chunking()
        else:
            chunking = brewlib.Chunking(**chunks)
        with chunking, brewlib.Sleeps(cfg.get("sleep_seed")), probe:
            try:
                failed_in = "read"
                probe.phase = "read"
                dss = mokapot.read_pin(paths, max_workers=cfg.get("read_workers", 1))
                obs["features"] = [list(ds.feature_columns) for ds in dss]
                obs["keys"] = [brewlib.spectrum_keys(ds) for ds in dss]
                obs["spectrum_columns"] = [list(ds.spectrum_columns) for ds in dss]
                ref = _reference_keys(paths, cfg["files"])
                if ref is not None:
                    obs["ref_keys"] = ref
                brewlib.reset_log()
                if cfg.get("learner") == "percolator":
                    model = mokapot.PercolatorModel(train_fdr=cfg.get("train_fdr", 0.2), max_iter=3, rng=cfg["seed"])
                else:
                    est = Transparent(mode=cfg.get("est_mode", "decision"), ordered=bool(cfg.get("est_order", True)))
                    model = Model(est, scaler=RecScaler(), train_fdr=cfg.get("train_fdr", 1.0), max_iter=1, override=True,
                                  rng=cfg["seed"])
                failed_in = "brew"
                probe.phase = "brew"
                psms = dss[0] if cfg.get("single") and len(dss) == 1 else dss
                _, models, scores, descs = mokapot.brew(
                    psms, model, test_fdr=float(cfg["test_fdr"]), folds=cfg["folds"], max_workers=cfg.get("workers", 1),
                    rng=cfg["seed"], subset_max_train=cfg.get("subset_max_train"), ensemble=bool(cfg.get("ensemble")))
                scores = [np.asarray(s, dtype=float).ravel() for s in scores]
                failed_in = "conf"
                probe.phase = "conf"
                out = Path(d) / "out"
                out.mkdir(exist_ok=True)
                oldp = conf.peps_from_scores
                conf.peps_from_scores = brewlib._const_peps
                try:
                    prefixes = ["coll%d" % i for i in range(len(paths))] if cfg.get("prefixes") else [None] * len(paths)
                    conf_scores = [np.array(sc, dtype=float) for sc in scores]
                    if cfg.get("tiebreak"):
                        # break ties between folds deterministically (row index * 2^-20) so that the result
                        # files are a function of the scores alone, whatever the sort / file order
                        conf_scores = [sc + np.arange(len(sc)) * 2.0 ** -20 for sc in conf_scores]
                    mokapot.assign_confidence(dss, max_workers=cfg.get("workers", 1), scores=conf_scores,
                                              descs=[bool(x) for x in descs], eval_fdr=0.5, dest_dir=out, prefixes=prefixes,
                                              decoys=True, deduplication=bool(cfg.get("dedup", True)),
                                              do_rollup=bool(cfg.get("rollup", True)))
                finally:
                    conf.peps_from_scores = oldp
                failed_in = None
            except BaseException as e:   # noqa
                if isinstance(e, (KeyboardInterrupt, SystemExit, MemoryError)):
                    raise
                obs["error"] = lib.err_kind(e)
                obs["message"] = str(e)[:200]
                obs["failed_in"] = failed_in
                obs["est_fits"] = [(sorted(x[0]), x[2]) for x in brewlib.LOG["est_fit"] if len(x) > 2]
        obs["ineffective"], obs["nchunks"] = _effect(cfg, probe.log, failed_in,
                                                     obs["error"] is not None or all(bool(m.is_trained) for m in models))
        if obs["error"]:
            return obs
        conf_files, leftovers = {}, []
        for fn in sorted(os.listdir(out)):
            parts = fn.split(".")
            if "targets" in parts or "decoys" in parts:
                conf_files[fn] = _parse_result(out / fn)
            else:
                leftovers.append(fn)
        LOG = brewlib.LOG
        fit_by_token = dict(LOG["fit"])
        tr = {}
        for tok, ids in LOG["transform"]:
            tr.setdefault(tok, []).extend(ids)
        obs.update({
            "model_folds": [m.fold for m in models],
            "trained": [bool(m.is_trained) for m in models],
            "cols": [getattr(m.estimator, "col_", None) for m in models],
            "train_ids": [sorted(fit_by_token.get(getattr(m.scaler, "token_", None), [])) for m in models],
            "scored_ids": [sorted(tr.get(getattr(m.scaler, "token_", None), [])) for m in models],
            "scores": [[float(v) for v in s] for s in scores],
            "descs": [bool(x) for x in descs],
            "conf": conf_files, "leftovers": leftovers,
            "conf_scores": [[float(v) for v in sc] for sc in conf_scores],
            "seen": [{} for _ in models],
        })
        return obs
    finally:
        shutil.rmtree(d, ignore_errors=True)


def _run_env(cfg):
    """the same run in a fresh interpreter that gets the chunk sizes through the MOKAPOT_* environment variables"""
    d = tempfile.mkdtemp(prefix="c05env_", dir=os.environ.get("VERIF_TMP", "/tmp"))
    try:
        p = Path(d) / "cfg.json"
        p.write_text(json.dumps(lib.jsonable(cfg)))
        env = dict(os.environ)
        for n in ENV_NAMES.values():
            env.pop(n, None)
        for n, v in (cfg.get("chunks") or {}).items():
            env[ENV_NAMES[n]] = str(int(v))
        env["PYTHONHASHSEED"] = str(cfg.get("hashseed", 0) % 4294967295)
        r = subprocess.run([sys.executable, "-W", "ignore", "-m", "harness.c05_worker", str(p)], env=env, cwd=str(lib.VERIF),
                           stdout=subprocess.PIPE, stderr=subprocess.PIPE, timeout=900)
        lines = [ln for ln in r.stdout.decode(errors="replace").split("\n") if ln.startswith("C05OBS ")]
        if r.returncode != 0 or not lines:
            raise RuntimeError("worker failed: rc=%s %s" % (r.returncode, r.stderr.decode(errors="replace")[-300:]))
        return json.loads(lines[-1][len("C05OBS "):])
    finally:
        shutil.rmtree(d, ignore_errors=True)


def _cfg(case, variant):
    c = dict(case)
    c.pop("variant", None)
    c.pop("tags", None)
    c.update({"chunks": {}, "workers": 1, "read_workers": 1, "fmt": "tsv", "row_group": None, "np_seed": 12345})
    if variant:
        c.update({k: v for k, v in variant.items() if k != "name"})
    return c


_BASE = {}
_BVM = {}
_INFO = {}


def _case_key(case):
    return lib.stable_hash({k: v for k, v in case.items() if k != "tags"})


def _baseline(case):
    key = lib.stable_hash({k: v for k, v in case.items() if k not in ("tags", "variant")})
    if key not in _BASE:
        cfg = _cfg(case, None)
        _BASE[key] = (cfg, call_impl(_run, cfg))
    return _BASE[key]


# ----------------------------------------------------------------------------- comparison
def _close(a, b, exact):
    if a is None or b is None:
        return a == b
    if a != a or b != b:
        return a != a and b != b
    if exact:
        return a == b
    return abs(a - b) <= 1e-9 * max(1.0, abs(a), abs(b))


def _eff_scores(case, obs):
    return [[v if d else -v for v in sc] for sc, d in zip(obs["conf_scores"], obs["descs"])]


def _tie_info(case, obs):
    """(some scores are equal, some entity has two equally scored top PSMs so that its winner is arbitrary)"""
    cs = _eff_scores(case, obs)
    if not any(len(set(s)) < len(s) for s in cs):
        return False, False
    for j, f in enumerate(case["files"]):
        sc = cs[j]
        n = len(sc)
        cols = [x for x in SPEC_COLS if x in f["data"]]
        if case.get("dedup", True):
            groups = {}
            for r in range(n):
                groups.setdefault(tuple(f["data"][x][r] for x in cols), []).append(r)
            retained = []
            for g in groups.values():
                m = max(sc[r] for r in g)
                top = [r for r in g if sc[r] == m]
                if len(top) > 1:
                    return True, True
                retained.append(top[0])
        else:
            retained = list(range(n))
        if case.get("rollup", True):
            for lv in ["Peptide"] + list(case.get("levels") or []):
                groups = {}
                for r in retained:
                    groups.setdefault(f["data"][lv][r], []).append(r)
                for g in groups.values():
                    m = max(sc[r] for r in g)
                    if sum(1 for r in g if sc[r] == m) > 1:
                        return True, True
    return True, False


def _locate(pid):
    j, r = pid[1:].split("_psm")
    return int(j), int(r)


def _cell_rule(col):
    c = col.lower()
    if c == "score":
        return "score"
    if c in ("q-value", "q_value", "posterior_error_prob"):
        return "stat"
    return "text"


def _equal_file(fa, fb, exact, ties):
    if fa["cols"] != fb["cols"]:
        return "header"
    ra, rb = fa["rows"], fb["rows"]
    if len(ra) != len(rb):
        return "number of rows"
    cols = fa["cols"]
    rules = [_cell_rule(c) for c in cols]
    idc = cols.index("PSMId") if "PSMId" in cols else 0
    if not ties:
        pairs = list(zip(ra, rb))
    else:
        # rows may be permuted among equal scores only: same score sequence, same row per id
        if "score" in cols:
            sc = cols.index("score")
            if not all(_close(x[sc], y[sc], False) for x, y in zip(ra, rb)):
                return "score order"
        da, db = {x[idc]: x for x in ra}, {y[idc]: y for y in rb}
        if len(da) != len(ra) or set(da) != set(db):
            return "set of rows"
        pairs = [(da[k], db[k]) for k in da]
    for x, y in pairs:
        for col, rule, u, v in zip(cols, rules, x, y):
            if rule == "text" or isinstance(u, str) or isinstance(v, str):
                if u != v and not (u != u and v != v):
                    return "column " + col + (" (row order)" if col == cols[idc] else "")
            elif rule == "score":
                # the score column passes through text intermediates (inexact float parsing: 1 ulp): tolerance
                if not _close(u, v, False):
                    return "column " + col
            elif not _close(u, v, exact):
                return "column " + col
    return None


def _psm_multiset(case, obs):
    """PSM level, targets and decoys together: multiset of (collection, spectrum, score)"""
    out = []
    for fn, tab in obs["conf"].items():
        if not fn.endswith(".psms"):
            continue
        idc, sc = tab["cols"].index("PSMId"), tab["cols"].index("score")
        for row in tab["rows"]:
            j, r = _locate(row[idc])
            f = case["files"][j]
            cols = [x for x in SPEC_COLS if x in f["data"]]
            ent = (tuple(f["data"][x][r] for x in cols) if case.get("dedup", True) else r)
            v = float(row[sc])
            # a non-finite score (degenerate calibration) must compare equal to itself: nan != nan as floats
            key = (0, round(v, 6)) if v == v and abs(v) != float("inf") else (1, repr(v))
            out.append((fn.replace("targets", "*").replace("decoys", "*"), j, str(ent), key))
    return sorted(out)


def _equal(case, x, y, exact):
    """compare two observations; returns None or the name of the first differing artifact"""
    if bool(x.get("error")) != bool(y.get("error")):
        return "error"
    if x.get("features") != y.get("features"):
        return "dataset (feature columns)"
    if x.get("error"):
        return None if (x["error"], x.get("failed_in")) == (y["error"], y.get("failed_in")) else "error"
    if x["descs"] != y["descs"] or len(x["scores"]) != len(y["scores"]):
        return "descs"
    identical = True
    for a, b in zip(x["scores"], y["scores"]):
        if len(a) != len(b) or not all(_close(u, v, exact) for u, v in zip(a, b)):
            return "scores"
        identical = identical and all(_close(u, v, True) for u, v in zip(a, b))
    if exact and x["scored_ids"] != y["scored_ids"]:
        return "folds"
    if sorted(x["conf"]) != sorted(y["conf"]):
        return "result-files"
    ties, ambiguous = _tie_info(case, x)
    if ambiguous or not identical:
        # (a) an entity with equally scored top PSMs: any of them may win, and the winner's peptide decides the higher
        # levels; (b) real-learner scores that differ in the last bits: near-ties may swap.  PSM level: the multiset of
        # (spectrum, score) is still determined
        if not identical:
            flat = sorted(v for s in x["conf_scores"] for v in s)
            if not any(abs(a - b) <= 1e-6 * max(1.0, abs(a)) for a, b in zip(flat, flat[1:])):
                for fn in x["conf"]:
                    ida, idb = x["conf"][fn]["cols"].index("PSMId"), y["conf"][fn]["cols"].index("PSMId")
                    if [r[ida] for r in x["conf"][fn]["rows"]] != [r[idb] for r in y["conf"][fn]["rows"]]:
                        return fn
        if _psm_multiset(case, x) != _psm_multiset(case, y):
            return "PSM-level (spectrum, score) multiset"
        return None if x["leftovers"] == y["leftovers"] else "leftovers"
    for fn in x["conf"]:
        d = _equal_file(x["conf"][fn], y["conf"][fn], exact or identical, ties)
        if d:
            return f"{fn}: {d}"
    if x["leftovers"] != y["leftovers"]:
        return "leftovers"
    return None


# ----------------------------------------------------------------------------- chunk-free predictions for the baseline
def _expected_features(f):
    return [c for c in f["columns"] if _is_feature(c) and not any(v is None for v in f["data"][c])]


def _int_features(case):
    return all(isinstance(v, int) for f in case["files"] for c in f["columns"] if c.startswith("feat") for v in f["data"][c])


def _fr_obs(obs):
    """the observation as harness/props/c02.py: compare wants it: exact rationals for the scores; c02 resolves the column a
    fold model learned through obs["features"] (the feature columns read_pin kept, in file order), checks
    obs["spectrum_columns"] against the canonical key order and obs["keys"] against obs["ref_keys"] (pandas' own reading)"""
    o = dict(obs)
    o["scores"] = [[Fraction(v) if v == v and abs(v) != float("inf") else None for v in s] for s in obs["scores"]]
    o.setdefault("rescore", None)
    return o


def _baseline_vs_model(case, cfg0, got0):
    """None or the name of the artifact on which the baseline run contradicts the chunk-free prediction"""
    obs = got0[1]
    exp = [_expected_features(f) for f in case["files"]]
    if obs.get("features") is not None and obs["features"] != exp:
        return "feature columns (chunk-free specification: the columns without missing value, in file order)"
    if case["learner"] != "transparent":
        return None
    if obs.get("error"):
        return None
    if case.get("ensemble"):
        # property oracle alone: ensemble score = mean over the fold models of the column each learned
        for j, (f, feats) in enumerate(zip(case["files"], obs["features"])):
            n = len(f["targets"])
            for r in range(n):
                vals = [float(f["data"][feats[c]][r]) for c in obs["cols"]]
                e = sum(vals) / len(vals)
                if abs(obs["scores"][j][r] - e) > 1e-9 * max(1.0, abs(e)):
                    return "ensemble scores (mean of the fold models)"
        # R2.22: the ensemble branch is in the extracted model (Model/Brew.v bw_brew_scores_ens): fold numbers of the returned
        # models, every fold model scores every row, training sets, and the averaged scores EXACTLY (integer or quarter-valued
        # features through the transparent estimator: the float64 sum is exact, np.mean is one rounded division)
        if obs["features"] and all(ft and ft[0] == "rid" for ft in obs["features"]) and not any(
                v != v or abs(v) == float("inf") for sc in obs["scores"] for v in sc):
            cm = dict(cfg0)
            m, i = c02.compare(cm, ("ok", _fr_obs(obs)))
            if not c02.same_ens(cm, m, i):
                bad = "?" if m[0] != "ok" or i[0] != "ok" or "scored" not in m[1] else \
                    ", ".join(k for k in c02.ENS_KEYS if m[1].get(k) != i[1].get(k))
                return "brew, ensemble=True (Model/Brew.v bw_brew_scores_ens: fold partition / training sets / models in fold order / exact mean): " + bad
    elif _int_features(case) and obs["features"] and all(ft and ft[0] == "rid" for ft in obs["features"]):
        cm = dict(cfg0)
        m, i = c02.compare(cm, ("ok", _fr_obs(obs)))
        if not c02.same(cm, m, i):
            return "brew (fold partition / training sets / routing / scores of Model/Brew.v)"
    ties, _ = _tie_info(case, obs)
    if not ties and all(obs["descs"]):
        c3 = {"files": case["files"], "scores": obs["conf_scores"], "dedup": bool(case.get("dedup", True)),
              "rollup": bool(case.get("rollup", True)), "decoys": True, "prefixes": bool(case.get("prefixes")),
              "chunks": {}, "levels": list(case.get("levels") or []), "descs": True}
        mf = c03._model(c3)
        obs_files = {}
        for fn, tab in obs["conf"].items():
            idc, qc = tab["cols"].index("PSMId"), tab["cols"].index("q-value")
            obs_files[fn] = [(row[idc], Fraction(row[qc])) for row in tab["rows"]]
        if lib.jsonable(mf) != lib.jsonable(obs_files):
            return "confidence (result files of Model/Confidence.v)"
    return None


# ----------------------------------------------------------------------------- one case
def run_case(case):
    cfg0, got0 = _baseline(case)
    key = _case_key(case)
    _INFO[key] = {"nontrivial": False}
    if got0[0] == "err":
        return ("unknown", ""), ("err", "baseline: " + str(got0[1]))
    exact = case["learner"] == "transparent"
    base = got0[1]
    cfg = _cfg(case, case["variant"])
    got = call_impl(_run_env if cfg.get("env") else _run, cfg)
    model = {"differs": None, "baseline_vs_model": None, "ineffective": None}
    if got[0] == "err":
        return ("ok", model), ("err", got[1])
    var = got[1]
    impl = {"differs": _equal(case, base, var, exact), "baseline_vs_model": None, "ineffective": None}
    bad = list(var.get("ineffective") or []) + ["env:" + n for n in (var.get("env_not_applied") or [])]
    if bad:
        impl["ineffective"] = bad
    bkey = id(got0)
    if bkey not in _BVM:
        _BVM[bkey] = _baseline_vs_model(case, cfg0, got0)       # once per dataset
    impl["baseline_vs_model"] = _BVM[bkey]
    if base.get("error"):
        impl["note"] = "baseline raises %s in %s: %s" % (base["error"], base.get("failed_in"), base.get("message"))
    if any(v != v or abs(v) == float("inf") for sc in (base.get("scores") or []) for v in sc):
        impl["baseline_nonfinite"] = True
    if impl["differs"]:
        impl["variant"] = {"error": var.get("error"), "message": var.get("message"), "features": var.get("features"),
                           "scores0": (var.get("scores") or [[]])[0][:8]}
        impl["baseline"] = {"error": base.get("error"), "message": base.get("message"), "features": base.get("features"),
                            "scores0": (base.get("scores") or [[]])[0][:8]}
    v = case["variant"]
    changed = (any(n >= 2 for n in (var.get("nchunks") or {}).values()) or v.get("workers", 1) > 1 or v.get("read_workers", 1) > 1
               or v.get("fmt") == "parquet" or bool(v.get("suffix")) or bool(v.get("env")) or bool(v.get("float_format")))
    _INFO[key]["nontrivial"] = bool(changed and not base.get("error") and not var.get("error"))
    return ("ok", model), ("ok", impl)


def same(c, m, i):
    if i[0] != "ok":
        return False
    return i[1]["differs"] is None and i[1]["baseline_vs_model"] is None and not i[1].get("ineffective")


def nontrivial(c):
    info = _INFO.get(_case_key(c))
    return bool(info and info["nontrivial"])


def oracle(c, i):
    """the property itself: a variant run must equal the baseline run"""
    if i[0] != "ok":
        return f"run under configuration {c['variant']['name']} failed: {i[1]}"
    if i[1]["differs"]:
        return f"configuration {c['variant']['name']} changes {i[1]['differs']} relative to the default configuration"
    return None


KEY_PQ_DICT = "parquet:dictionary-columns-short-batches"
KEY_INTLIKE = "text:integer-looking-float-key-chunk-dedup"
KEY_PQ_NAN = "parquet:nan-score-null"


def finding_key(c, m, i):
    """Parquet whose string columns are dictionary-typed (pandas categoricals, many writers): pyarrow's iter_batches does
    not re-chunk such columns across row groups, so the file chunks are shorter than the score / fold-index slices they
    are zipped with and the run fails — only for row-group layouts with a group shorter than the file"""
    v = c.get("variant") or {}
    if v.get("dict_strings") and v.get("fmt") == "parquet" and any((v.get("row_group") or 10 ** 9) < len(f["targets"]) for f in c["files"]):
        if i is not None and i[0] == "ok" and i[1].get("differs") == "error" and (i[1].get("variant") or {}).get("error") == "ValueError" \
                and any(t in ((i[1].get("variant") or {}).get("message") or "") for t in ("Length of values", "Item wrong length")) \
                and not i[1].get("baseline_vs_model") and not i[1].get("ineffective"):
            return KEY_PQ_DICT
    # text input writing integer-valued entries of a float spectrum-key column (ret_time, ExpMass) without a fraction: pandas
    # infers int64 for a confidence chunk holding only such entries and float64 otherwise, the chunk files spell the value
    # "1" / "1.0", and the cross-chunk de-duplication compares the spelling: duplicates survive once per inferred type
    if v.get("float_format") and c.get("dedup", True) and c.get("nkey", 1) >= 2 \
            and (v.get("chunks") or {}).get("confidence", 10 ** 9) < max(len(f["targets"]) for f in c["files"]):
        if i is not None and i[0] == "ok" and i[1].get("differs") and not i[1].get("baseline_vs_model") and not i[1].get("ineffective") \
                and any(t in i[1]["differs"] for t in ("targets.", "decoys.", "PSM-level")):
            return KEY_INTLIKE
    # brew returned NaN for some PSM (degenerate calibration 0/0 in a small fold, under every configuration alike): the text
    # pipeline carries NaN through its chunk files, the Parquet pipeline reads it back as None and float(None) raises
    if v.get("fmt") == "parquet" and i is not None and i[0] == "ok" and i[1].get("baseline_nonfinite") and i[1].get("differs") == "error" \
            and (i[1].get("variant") or {}).get("error") == "TypeError" and "NoneType" in ((i[1].get("variant") or {}).get("message") or "") \
            and not i[1].get("baseline_vs_model") and not i[1].get("ineffective"):
        return KEY_PQ_NAN
    return None
