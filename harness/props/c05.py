"""C05 — independence of chunk sizes, workers, thread timing and file format: the real pipeline
read_pin -> brew -> assign_confidence under a lattice of configurations; every run is compared with the
baseline run, and the baseline with the chunk-free model prediction (Model/Brew.v, Model/Confidence.v)."""
from fractions import Fraction

from .. import lib, brewlib
from ..lib import call_impl
from . import c02, c03

PROP = "C05"
RULE = ("per dataset (1-2 files, 40-200 PSMs, spectra with several PSMs) one baseline run (default chunk sizes, 1 worker, "
        "text) and 6-12 variant runs: each chunk constant (confidence, merge-sort, prediction, training read, column scan, "
        "row scan) in {1, 2, 3, 7, n-1, n, n+1}, max_workers in {2, 4, 8, 16} with randomly perturbed task durations, "
        "Parquet with row groups {1, 3, n}; transparent estimator (scores exact) and the real PercolatorModel (scores "
        "compared to 1e-9). Compared: parsed dataset, brew scores and descs, every result file (rows, order, q-values). "
        "The baseline is compared with the extracted model. distinct = (dataset, variant) pairs; non-trivial = variant "
        "leaves a 1-row last chunk, or a chunk lacking some fold, or uses > 1 worker with sleeps, or Parquet")
ASSUMPTIONS = [
    "floating-point summation order inside numpy / liblinear is runtime: real-learner scores are compared to 1e-9 relative",
    "PEP estimation replaced by a constant (C06)",
]
TRUSTED_EXTRA = c02.TRUSTED_EXTRA + ["pyarrow iter_batches batch lengths (oracle; contract in C13)"]


def gen(ctx):
    cases = []
    rng = ctx.sub("c05")
    nds = 14 if ctx.thorough else 5
    for k in range(nds):
        nfiles = rng.choice([1, 1, 2])
        nkey = rng.choice([1, 2, 4])
        files = [brewlib.gen_file(rng, rng.randint(40, 200 if ctx.thorough else 90), nkey, file_idx=j,
                                  mult=(1, 4), label_enc=rng.choice(["pm1", "bool"]), quality=0.85, distinct=True) for j in range(nfiles)]
        nmax = max(len(f["targets"]) for f in files)
        learner = "percolator" if k % 3 == 2 else "transparent"
        base = {"fn": "pipeline", "files": files, "folds": rng.choice([2, 3, 4]), "seed": rng.randint(0, 10 ** 6),
                "test_fdr": "0.5", "train_fdr": 0.5 if learner == "percolator" else 1.0, "learner": learner,
                "subset_max_train": None, "est_mode": "decision", "confidence": True, "tiebreak": True}
        variants = []
        sizes = [1, 2, 3, 7, nmax - 1, nmax, nmax + 1]
        for name in ("confidence", "mergesort", "predict", "trainread", "colscan", "rowscan"):
            for v in rng.sample(sizes, 2 if ctx.thorough else 1):
                v = max(1, v)
                if name == "colscan":
                    v = max(2, min(v, 25))
                variants.append({"name": f"{name}={v}", "chunks": {name: v}})
        variants.append({"name": "all-small", "chunks": {n: rng.choice([1, 2, 3]) for n in ("confidence", "mergesort", "predict", "trainread", "rowscan")}})
        for w in rng.sample([2, 4, 8, 16], 2):
            variants.append({"name": f"workers={w}+sleeps", "workers": w, "read_workers": w, "sleep_seed": rng.randint(1, 10 ** 6)})
        for rg in rng.sample([1, 3, nmax], 2):
            variants.append({"name": f"parquet-rg={rg}", "fmt": "parquet", "row_group": rg})
        variants.append({"name": "parquet+chunks+workers", "fmt": "parquet", "row_group": 2, "workers": 4, "sleep_seed": 7,
                         "chunks": {"predict": 3, "confidence": 2, "trainread": 5}})
        for v in variants:
            c = dict(base)
            c["variant"] = v
            c["tags"] = ["pipeline", learner, v["name"].split("=")[0], f"files={nfiles}"]
            cases.append(c)
    return cases


def _cfg(case, variant):
    c = dict(case)
    c.pop("variant", None)
    c.pop("tags", None)
    c.update({"chunks": {}, "workers": 1, "read_workers": 1, "fmt": "tsv", "row_group": None})
    if variant:
        c.update({k: v for k, v in variant.items() if k != "name"})
    return c


_BASE = {}


def _baseline(case):
    key = lib.stable_hash({"files": case["files"], "folds": case["folds"], "seed": case["seed"], "learner": case["learner"]})
    if key not in _BASE:
        cfg = _cfg(case, None)
        got = call_impl(brewlib.run_brew, cfg)
        _BASE[key] = (cfg, got)
    return _BASE[key]


def _canon(obs, learner):
    if obs.get("error"):
        return {"error": obs["error"]}
    return {"features": obs["features"], "scores": obs["scores"], "descs": obs["descs"], "conf": obs["conf"],
            "conf_scores": obs.get("conf_scores"),
            "leftovers": obs["leftovers"], "folds": obs["scored_ids"] if learner == "transparent" else None}


def _close(a, b, exact):
    if exact:
        return a == b
    if a is None or b is None:
        return a == b
    return abs(a - b) <= Fraction(1, 10 ** 9) * max(1, abs(a), abs(b))


def _has_ties(scores):
    return any(len(set(s)) < len(s) for s in scores)


def _equal(x, y, exact):
    """compare two canonical observations; returns None or the name of the first differing artifact"""
    if ("error" in x) != ("error" in y):
        return "error"
    if "error" in x:
        return None if x["error"] == y["error"] else "error"
    if x["features"] != y["features"]:
        return "dataset"
    if x["descs"] != y["descs"] or len(x["scores"]) != len(y["scores"]):
        return "descs"
    for a, b in zip(x["scores"], y["scores"]):
        if len(a) != len(b) or not all(_close(u, v, exact) for u, v in zip(a, b)):
            return "scores"
    if exact and x["folds"] != y["folds"]:
        return "folds"
    if sorted(x["conf"]) != sorted(y["conf"]):
        return "result-files"
    if _has_ties(x.get("conf_scores") or x["scores"]) or not exact:
        # with tied scores any tied winner is accepted (the winner depends on sort / file order):
        # compare the number of PSM-level rows only
        for fn in x["conf"]:
            if fn.endswith("psms") and "targets" in fn:
                dn = fn.replace("targets", "decoys")
                if len(x["conf"][fn]) + len(x["conf"].get(dn, [])) != len(y["conf"][fn]) + len(y["conf"].get(dn, [])):
                    return fn
        return None if x["leftovers"] == y["leftovers"] else "leftovers"
    for fn in x["conf"]:
        ra, rb = x["conf"][fn], y["conf"][fn]
        if len(ra) != len(rb):
            return fn
        for (i1, s1, q1), (i2, s2, q2) in zip(ra, rb):
            # the score column passes through text intermediates (inexact float parsing: 1 ulp): tolerance;
            # ids, order and q-values exactly
            if i1 != i2 or not _close(Fraction(s1), Fraction(s2), False) or not _close(q1, q2, exact):
                return fn
    if x["leftovers"] != y["leftovers"]:
        return "leftovers"
    return None


def run_case(case):
    cfg0, got0 = _baseline(case)
    if got0[0] == "err":
        return ("unknown", ""), ("err", "baseline: " + str(got0[1]))
    exact = case["learner"] == "transparent"
    base = _canon(got0[1], case["learner"])
    got = call_impl(brewlib.run_brew, _cfg(case, case["variant"]))
    if got[0] == "err":
        return ("ok", {"differs": None}), ("err", got[1])
    var = _canon(got[1], case["learner"])
    impl = {"differs": _equal(base, var, exact), "baseline_vs_model": None}
    model = {"differs": None, "baseline_vs_model": None}
    # baseline against the model (transparent estimator only), once per dataset is enough but cheap
    if exact and "error" not in base:
        m, i = c02.compare(cfg0, got0)
        if not c02.same(cfg0, m, i):
            impl["baseline_vs_model"] = "brew"
        elif not _has_ties(got0[1]["conf_scores"]):
            c3 = {"files": case["files"], "scores": got0[1]["conf_scores"], "dedup": True, "rollup": True, "decoys": True,
                  "prefixes": len(case["files"]) > 1, "chunks": {}, "levels": [], "descs": True}
            mf = c03._model(c3)
            obs_files = {k: [(i1, q1) for i1, s1, q1 in v] for k, v in got0[1]["conf"].items()}
            if lib.jsonable(mf) != lib.jsonable(obs_files):
                impl["baseline_vs_model"] = "confidence"
    if impl["differs"]:
        impl["variant"] = var if "error" in var else {"scores0": var["scores"][0][:8]}
        impl["baseline"] = base if "error" in base else {"scores0": base["scores"][0][:8]}
    return ("ok", model), ("ok", impl)


def same(c, m, i):
    if i[0] != "ok":
        return False
    return i[1]["differs"] is None and i[1]["baseline_vs_model"] is None


def nontrivial(c):
    v = c["variant"]
    return bool(v.get("chunks")) or v.get("workers", 1) > 1 or v.get("fmt") == "parquet"


def oracle(c, i):
    """the property itself: a variant run must equal the baseline run"""
    if i[0] != "ok":
        return f"run under configuration {c['variant']['name']} failed: {i[1]}"
    if i[1]["differs"]:
        return f"configuration {c['variant']['name']} changes {i[1]['differs']} relative to the default configuration"
    return None


def finding_key(c, m, i):
    return None
