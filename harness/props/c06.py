"""C06 — PEPs and the alternative q-value estimators: correspondence of Model/Peps.v with
mokapot.peps.peps_from_scores (qvality, kde_nnls, hist_nnls) and mokapot.qvalues.qvalues_from_scores
(from_counts, from_peps).

The numerical fits are oracles: while the REAL public function runs, wrappers record what the libraries
returned (triqler's spline values, scipy's nnls solution, the interpolation grid handed to np.interp,
np.polyfit's pi0, the order np.argsort produced, the PEPs handed to qvalues_from_peps) as exact
rationals (Fraction(float)).  The extracted model recomputes one value per PSM from the recorded data and
is compared with the implementation's floats under a 1e-9 relative/absolute tolerance.  The oracle
contracts that the theorems assume are evaluated exactly on the recorded values."""
import contextlib
import itertools
import math
from fractions import Fraction

from .. import lib

PROP = "C06"
RULE = ("(1) small scope: monotonize_simple on every weak ordering of <=5 values x both directions; np.interp on "
        "non-decreasing grids with duplicates, queries on / between / outside grid points; (2) target/decoy score "
        "vectors with 50..2000 PSMs: normal mixtures (well separated, overlapping, weak), rounded scores (ties), "
        "integer-valued scores, few-level scores; input order shuffled / sorted descending / sorted ascending / "
        "targets-first / each class sorted / one swap; x every selectable estimator (qvality, kde_nnls, hist_nnls, "
        "from_counts, from_peps); (2b, 'forms') the same estimators on further value domains - heavy tails, two clusters "
        "with empty bins between them, one-sided families (exponential, lognormal, classifier probabilities in [0,1]), "
        "single far outliers; scores rescaled by 2^10 / 2^-10, shifted by +10000, all negative, mapped onto [0,1]; 20..80 % "
        "targets; sizes 60..1000 (thorough ..5000) including 499/500/501 (the 500 bins of triqler and the 500 KDE points) - "
        "handed over as float64 / float32 / int64 / int32 arrays, contiguous / strided / read-only / negative-stride / "
        "column-of-a-2-D-array views, with the algorithm passed by position / by its documented keyword / left to the "
        "default, after setting numpy's global RNG seed and triqler's VERB to different values, and (every 4th data set) "
        "called a second time after another estimator ran on other data (results must be bit-identical); "
        "(3) length-mismatch inputs; (4) result files: assign_confidence on 200..500 PSMs for every PEP estimator x both "
        "score directions, and ('pipeline options') x CONFIDENCE_CHUNK_SIZE default / 37 / 64 / 100 x decoys True / False / "
        "default x qvalue_algorithm tdc / from_peps / from_counts x max_workers 1..3 x peps_error x scores=None / explicit "
        "x 1 or 2 collections (also ranked in opposite directions) x a directory that still holds the result files of an "
        "earlier run: every row of every targets.* / decoys.* file is traced back to its input PSM by PSMId and must carry "
        "that PSM's score and the model's PEP (and q-value for from_peps / from_counts) for it.  The Coq model works on the "
        "numbers only: dtype, layout, call style and global state reach it only through the values and recorded oracle "
        "outputs, so for these dimensions the check is 'the implementation still agrees with the model of the plain call'.  "
        "distinct = distinct (estimator, input, form); non-trivial = estimator case on a valid input (>= 50 PSMs, >= 12 of "
        "each class) that is not already in descending order or has tied scores, or a malformed input")
ASSUMPTIONS = [
    "scores and interpolation grid points reach the model as exact integers (floats scaled by one power of two per case)",
    "oracle outputs reach the model as exact rationals Fraction(float); contracts (f>=0 and equal at equal scores, d>=0, "
    "grid strictly increasing, pi0>0, argsort output a descending permutation of the rows, 0<=pep<=1) are checked on them",
    "comparison: |impl - model| <= 1e-9 * max(1, |model|) (chains of float operations: cumsum, division, interpolation)",
    "hist_nnls with pep_est[0] == 0 (0/0 -> NaN in the implementation) is Err EValue in the model and NaN on the other side",
    "qvalues_from_counts with a best-scoring decoy returns +inf for every PSM (x/0); the model reports PepAllInf",
    "known finding pi0-by-slope:decoy-mode-at-low-end: when the decoy density the estimator looks at (recomputed by the harness "
    "with numpy/scipy alone from the input) is within 90 % of its maximum in its first bin and the implementation fails with "
    "np.polyfit's 'expected non-empty vector', the case is reported as that finding, not as a fit failure",
    "float32 scores: the interpolation grid is computed in float32 by the implementation; the grid contracts (equally spaced, "
    "bin centres) are checked to 1e-6 relative there, 1e-12 otherwise",
    "targets are always a numpy bool array and scores a numpy array (the documented types); pandas Series input is probed and "
    "reported as an observation only",
    "an exception raised INSIDE a fitting library (np.polyfit on an empty prefix, ...) means there is nothing to "
    "post-process: such cases are counted (library_fit_failures) and must stay below 15 % per estimator; an exception "
    "raised by mokapot's own code or at the call of a library function is a disagreement",
]
TRUSTED_EXTRA = [
    "oracles (recorded, contracts checked at run time): triqler.qvality spline (input of qvality.monotonize), "
    "scipy.optimize.nnls, scipy.stats.gaussian_kde, np.polyfit (estimate_pi0_by_slope), np.histogram*, np.argsort",
    "np.interp is modelled (Model/Peps.v pep_interp_all) and validated directly against numpy in the small-scope stream",
]

TOL = Fraction(1, 10 ** 9)
PEP_ALGS = ("qvality", "kde_nnls", "hist_nnls")
Q_ALGS = ("from_counts", "from_peps")

_CACHE = {}
FIT_FAILURES = {}
ESTIMATOR_CASES = {}
NONFINITE_RESULTS = {}
STATS = {"contracts_checked": 0, "contract_failures": 0, "oracle_values_recorded": 0}


# ----------------------------------------------------------------------------- exact numbers
def fr(x):
    """exact rational of a finite float (raises on nan/inf)"""
    return Fraction(float(x))


def common_scale(*lists):
    den = 1
    for l in lists:
        for f in l:
            if f.denominator > den:
                den = f.denominator
    return den


def scaled(l, den):
    return [f.numerator * (den // f.denominator) for f in l]


# ----------------------------------------------------------------------------- recording the oracles
class Recorder:
    def __init__(self):
        self.nnls = []          # solution vectors
        self.interp = []        # (x, xp, fp)
        self.argsort = []       # (input array, result)
        self.pi0 = []
        self.mono = []          # inputs of triqler.qvality.monotonize
        self.hist_peps = []     # PEPs used by qvalues_from_peps
        self.qv_args = []       # (target scores, decoy scores, kwargs) handed to triqler
        self.bin_edges = []     # np.histogram_bin_edges results


@contextlib.contextmanager
def recording():
    """Wrap the library entry points for the duration of one call of the public API."""
    import numpy as np
    import scipy.optimize
    import triqler.qvality
    import mokapot.peps
    import mokapot.qvalues
    rec = Recorder()
    saved = []

    def patch(obj, name, new):
        if hasattr(obj, name):
            saved.append((obj, name, getattr(obj, name)))
            setattr(obj, name, new)

    real_nnls = scipy.optimize.nnls

    def nnls(*a, **k):
        r = real_nnls(*a, **k)
        rec.nnls.append(np.array(r[0], dtype=float, copy=True))
        return r

    real_interp = np.interp

    def interp(x, xp, fp, *a, **k):
        rec.interp.append((np.array(x, copy=True), np.array(xp, copy=True), np.array(fp, copy=True)))
        return real_interp(x, xp, fp, *a, **k)

    real_argsort = np.argsort

    def argsort(a, *args, **k):
        r = real_argsort(a, *args, **k)
        if getattr(a, "ndim", 0) == 1:
            rec.argsort.append((np.array(a, copy=True), np.array(r, copy=True)))
        return r

    real_pi0 = mokapot.peps.estimate_pi0_by_slope

    def pi0(*a, **k):
        r = real_pi0(*a, **k)
        rec.pi0.append(float(r))
        return r

    real_mono = triqler.qvality.monotonize

    def mono(p):
        rec.mono.append(np.array(p, dtype=float, copy=True))
        return real_mono(p)

    real_gq = triqler.qvality.getQvaluesFromScores

    def gq(t, d, *a, **k):
        rec.qv_args.append((np.array(t, dtype=float, copy=True), np.array(d, dtype=float, copy=True), dict(k), a))
        return real_gq(t, d, *a, **k)

    real_edges = np.histogram_bin_edges

    def edges(*a, **k):
        r = real_edges(*a, **k)
        rec.bin_edges.append(np.array(r, dtype=float, copy=True))
        return r

    real_hist = mokapot.peps.peps_from_scores_hist_nnls

    def hist(*a, **k):
        r = real_hist(*a, **k)
        rec.hist_peps.append(np.array(r, dtype=float, copy=True))
        return r

    try:
        patch(mokapot.peps, "nnls", nnls)
        patch(scipy.optimize, "nnls", nnls)
        patch(np, "interp", interp)
        patch(np, "argsort", argsort)
        patch(mokapot.peps, "estimate_pi0_by_slope", pi0)
        patch(mokapot.qvalues, "estimate_pi0_by_slope", pi0)
        patch(triqler.qvality, "monotonize", mono)
        patch(triqler.qvality, "getQvaluesFromScores", gq)
        patch(np, "histogram_bin_edges", edges)
        patch(mokapot.qvalues, "peps_from_scores_hist_nnls", hist)
        yield rec
    finally:
        for obj, name, old in reversed(saved):
            setattr(obj, name, old)


def _raised_in(exc):
    """'library:<file>:<function>' when the innermost frame of the traceback is library code (numpy, scipy,
    triqler: a fit that failed), 'mokapot:...' / 'call:...' when mokapot itself or the call of a library
    function raised"""
    import traceback
    tb = traceback.extract_tb(exc.__traceback__)
    if not tb:
        return "unknown"
    fr_ = tb[-1]
    fn = fr_.filename.replace("\\", "/")
    short = "/".join(fn.split("/")[-2:])
    if fn == __file__.replace("\\", "/") or fn.endswith("harness/props/c06.py"):
        return f"call:{fr_.name}"
    if "/mokapot/" in fn:
        return f"mokapot:{short}:{fr_.name}"
    if fr_.name in ("interp", "argsort", "clip", "cumsum", "flip"):
        return f"call:{short}:{fr_.name}"          # numpy bookkeeping that the model covers, not a fit
    return f"library:{short}:{fr_.name}"


# ----------------------------------------------------------------------------- the FORM in which a case reaches the real code
# c["form"] (absent = all defaults) says how the very same numbers are handed to the public function:
#   sd   dtype of the score array        f8 | f4 | i8 | i4      (the generator only stores values the dtype holds exactly)
#   lay  memory layout of both arrays    contig | strided | readonly | negstride | col2d
#   call call style                      pos | kw | default     (default: algorithm argument left out, qvality only)
#   pre  global state set before the call {"seed": numpy global RNG seed or None, "verb": triqler.qvality.VERB}
#   rep  name of ANOTHER estimator: after the recorded call that estimator is run on the reversed data, then the
#        recorded call is repeated on fresh arrays; both results must be bit-identical (no leftover state)
_DT = {"f8": "float64", "f4": "float32", "i8": "int64", "i4": "int32", "u1": "uint8", "u2": "uint16", "u8": "uint64"}
_DT_EPS = {"f8": Fraction(1, 10 ** 12), "f4": Fraction(1, 10 ** 6), "i8": Fraction(1, 10 ** 12), "i4": Fraction(1, 10 ** 12),
           "u1": Fraction(1, 10 ** 12), "u2": Fraction(1, 10 ** 12), "u8": Fraction(1, 10 ** 12)}
_DT_TOP = {"u1": 2 ** 8, "u2": 2 ** 16, "u8": 2 ** 53}


def _form(c):
    return c.get("form") or {}


def _lay(a, lay, fill):
    """the same values behind a different memory layout; -> (array handed to the code, buffer that owns the memory)"""
    import numpy as np
    n = len(a)
    if lay == "strided":
        big = np.full(2 * n, fill, dtype=a.dtype)
        big[::2] = a
        return big[::2], big
    if lay == "negstride":
        big = a[::-1].copy()
        return big[::-1], big
    if lay == "col2d":
        big = np.full((n, 3), fill, dtype=a.dtype)
        big[:, 1] = a
        return big[:, 1], big
    if lay == "readonly":
        b = a.copy()
        b.setflags(write=False)
        return b, b
    return a, a


def _arrays2(c):
    """-> (scores, targets, owning buffers) exactly as they are handed to the implementation"""
    import numpy as np
    f = _form(c)
    sc = np.array(c["scores"], dtype=np.dtype(_DT[f.get("sd", "f8")]))
    tg = np.array([bool(v) for v in c["targets"]], dtype=bool)
    lay = f.get("lay", "contig")
    if sc.dtype.kind == "u":
        fill = np.iinfo(sc.dtype).max            # a filler the unsigned type holds (numpy 2 refuses uint8 + 1000)
    else:
        fill = (sc.max() + 1000) if len(sc) else 0
    sc, scb = _lay(sc, lay, fill)
    tg, tgb = _lay(tg, lay, True)
    return sc, tg, (scb, tgb)


def _arrays(c):
    sc, tg, _ = _arrays2(c)
    return sc, tg


def _call_api(c, sc, tg):
    from mokapot import peps as mpeps, qvalues as mq
    alg = c["alg"]
    call = _form(c).get("call", "pos")
    if c["fn"] == "peps":
        if call == "kw":
            return mpeps.peps_from_scores(scores=sc, targets=tg, pep_algorithm=alg)
        if call == "default" and alg == "qvality":
            return mpeps.peps_from_scores(sc, tg)
        return mpeps.peps_from_scores(sc, tg, alg)
    if call == "kw":
        return mq.qvalues_from_scores(scores=sc, targets=tg, qvalue_algorithm=alg)
    return mq.qvalues_from_scores(sc, tg, alg)


def _run(c):
    """Run the real public API once with recording; cached per case."""
    key = lib.stable_hash({k: v for k, v in c.items() if k != "tags"})
    if key in _CACHE:
        return _CACHE[key]
    import numpy as np
    import triqler.qvality
    f = _form(c)
    sc, tg, bufs = _arrays2(c)
    snap = [b.copy() for b in bufs]
    res = {"out": None, "err": None, "rec": None, "mutated": False}
    import warnings
    verb0 = triqler.qvality.VERB
    pre = f.get("pre") or {}
    try:
        if pre.get("seed") is not None:
            np.random.seed(int(pre["seed"]))
        if "verb" in pre:
            triqler.qvality.VERB = int(pre["verb"])
        with recording() as rec, np.errstate(all="ignore"), warnings.catch_warnings():
            warnings.simplefilter("ignore")
            try:
                out = _call_api(c, sc, tg)
                res["out"] = [float(v) for v in np.asarray(out, dtype=float).ravel()]
                res["out_shape"] = list(np.shape(out))
            except BaseException as e:   # noqa: triqler calls sys.exit on empty classes
                if isinstance(e, (KeyboardInterrupt, MemoryError)):
                    raise
                res["err"] = "SystemExit" if isinstance(e, SystemExit) else lib.err_kind(e)
                res["msg"] = f"{type(e).__name__}: {e}"[:200]
                res["where"] = _raised_in(e)
        res["rec"] = rec
        res["mutated"] = not all(np.array_equal(b, s0) for b, s0 in zip(bufs, snap))
        if f.get("rep") and res["err"] is None:
            with np.errstate(all="ignore"), warnings.catch_warnings():
                warnings.simplefilter("ignore")
                other = dict(c, alg=f["rep"], fn="peps" if f["rep"] in PEP_ALGS else "qvals", form={})
                o_sc, o_tg = _arrays(other)
                try:
                    _call_api(other, o_sc[::-1].copy(), o_tg[::-1].copy())
                except BaseException as e:  # noqa: only its side effects matter here
                    if isinstance(e, (KeyboardInterrupt, MemoryError)):
                        raise
                sc2, tg2, _ = _arrays2(c)
                try:
                    out2 = [float(v) for v in np.asarray(_call_api(c, sc2, tg2), dtype=float).ravel()]
                    res["repeatable"] = bool(np.array_equal(np.array(res["out"]), np.array(out2), equal_nan=True))
                    if not res["repeatable"]:
                        j = [k for k, (a, b) in enumerate(zip(res["out"], out2)) if not (a == b or (a != a and b != b))][:1]
                        res["repeat_diff"] = (j[0], res["out"][j[0]], out2[j[0]]) if j else ("length", len(res["out"]), len(out2))
                except BaseException as e:  # noqa
                    if isinstance(e, (KeyboardInterrupt, MemoryError)):
                        raise
                    res["repeatable"] = False
                    res["repeat_diff"] = ("raised", f"{type(e).__name__}: {e}"[:120], None)
    finally:
        triqler.qvality.VERB = verb0
    _CACHE[key] = res
    return res


# ----------------------------------------------------------------------------- oracle extraction + contracts
class Contract(Exception):
    pass


def _need(cond, msg):
    STATS["contracts_checked"] += 1
    if not cond:
        STATS["contract_failures"] += 1
        raise Contract(msg)


def _fracs(arr, what):
    out = []
    for v in arr:
        v = float(v)
        if v != v or v in (math.inf, -math.inf):
            STATS["contract_failures"] += 1
            raise Contract(f"oracle {what} returned a non-finite value")
        out.append(Fraction(v))
    STATS["oracle_values_recorded"] += len(out)
    return out


def _find_interp(rec, sc):
    import numpy as np
    for x, xp, fp in reversed(rec.interp):
        if x.shape == sc.shape and np.array_equal(x, sc):
            return xp, fp
    return None


def _find_argsort(rec, sc):
    import numpy as np
    neg = -(sc.astype(float)) if sc.dtype.kind in "ub" else -sc     # the negated VALUES: unsigned types would wrap here
    for a, r in reversed(rec.argsort):
        if a.shape == sc.shape and np.array_equal(a, neg) and len(rec.argsort) > 0:
            return r
    return None


def _sorted_rows_contract(sc_fr, tg, ind, what):
    n = len(sc_fr)
    _need(ind is not None, f"{what}: no np.argsort(-scores) call was observed")
    ind = [int(i) for i in ind]
    _need(sorted(ind) == list(range(n)), f"{what}: argsort result is not a permutation of range(n)")
    ss = [sc_fr[i] for i in ind]
    _need(all(ss[i] >= ss[i + 1] for i in range(n - 1)), f"{what}: rows are not in descending score order")
    return ind


def oracles(c, run):
    """-> dict with the exact oracle data of the case (raises Contract)"""
    sc, tg = _arrays(c)
    rec = run["rec"]
    sc_fr = [Fraction(float(v)) for v in sc]
    tgl = [bool(v) for v in tg]
    n = len(sc_fr)
    alg = c["alg"]
    if alg == "qvality":
        _need(len(rec.mono) >= 1, "qvality: triqler.qvality.monotonize was not called")
        _need(len(rec.qv_args) >= 1, "qvality: triqler.qvality.getQvaluesFromScores was not called")
        qt, qd, qk, qa = rec.qv_args[-1]
        _need(sorted(qt.tolist()) == sorted(float(v) for v, t in zip(sc, tgl) if t)
              and sorted(qd.tolist()) == sorted(float(v) for v, t in zip(sc, tgl) if not t),
              "qvality: triqler was not given (scores[targets], scores[~targets])")
        _need(qk.get("includeDecoys") is True and not qa, "qvality: triqler was not asked for one value per PSM (includeDecoys=True)")
        raw = [float(v) for v in rec.mono[-1]]
        if any(v == math.inf for v in raw):
            # exp() of a large spline value overflows to +inf; qvality.monotonize = min(1, running max) maps +inf and
            # every finite value >= 1 to the same PEP 1, so the model is given such a finite value instead
            big = max([1.0] + [v for v in raw if v == v and abs(v) != math.inf]) + 1.0
            STATS["spline_values_inf_replaced"] = STATS.get("spline_values_inf_replaced", 0) + sum(1 for v in raw if v == math.inf)
            raw = [big if v == math.inf else v for v in raw]
        fs = _fracs(raw, "triqler spline")
        _need(len(fs) == n, "qvality: the spline returned a value count different from the number of PSMs")
        _need(all(v >= 0 for v in fs), "qvality: spline value f < 0")
        ss = sorted(sc_fr, reverse=True)
        _need(all(fs[i] == fs[i + 1] for i in range(n - 1) if ss[i] == ss[i + 1]),
              "qvality: the spline gave different values to equal scores")
        return {"fs": fs, "scores": sc_fr, "den": common_scale(sc_fr)}
    if alg in ("kde_nnls", "hist_nnls"):
        _need(len(rec.nnls) >= 1, f"{alg}: scipy.optimize.nnls was not called")
        d = _fracs(rec.nnls[-1], "nnls")
        _need(all(v >= 0 for v in d), f"{alg}: nnls solution has a negative component")
        it = _find_interp(rec, sc)
        _need(it is not None, f"{alg}: no np.interp(scores, grid, est) call was observed")
        grid = _fracs(it[0], "interpolation grid")
        _need(all(grid[i] < grid[i + 1] for i in range(len(grid) - 1)), f"{alg}: np.interp was given a grid (xp) that is not strictly increasing")
        _need(len(grid) == len(d), f"{alg}: grid and nnls solution differ in length")
        rel = _DT_EPS[_form(c).get("sd", "f8")]       # grid arithmetic happens in the dtype of the scores
        if alg == "hist_nnls":
            _need(len(rec.bin_edges) >= 1, "hist_nnls: np.histogram_bin_edges was not called")
            be = _fracs(rec.bin_edges[0], "histogram bin edges")
            _need(len(be) == len(grid) + 1 and all(abs(grid[i] - (be[i] + be[i + 1]) / 2) <= rel * max(1, abs(grid[i]))
                                                   for i in range(len(grid))),
                  "hist_nnls: the interpolation grid is not the bin centres of np.histogram_bin_edges(scores)")
            _need(be[0] <= min(sc_fr) and max(sc_fr) <= be[-1], "hist_nnls: the bins do not cover the scores")
        else:
            _need(len(grid) == 500 and grid[0] == min(sc_fr) and grid[-1] == max(sc_fr),
                  "kde_nnls: the evaluation grid is not 500 points from min(scores) to max(scores)")
            step = (grid[-1] - grid[0]) / (len(grid) - 1)
            _need(all(abs(grid[i] - (grid[0] + i * step)) <= rel * max(1, abs(grid[-1]), abs(grid[0])) for i in range(len(grid))),
                  "kde_nnls: the evaluation grid is not equally spaced")
        return {"d": d, "grid": grid, "scores": sc_fr, "den": common_scale(sc_fr, grid), "fp": it[1]}
    if alg == "from_counts":
        _need(len(rec.pi0) >= 1, "from_counts: estimate_pi0_by_slope was not called")
        pi0 = _fracs([rec.pi0[-1]], "pi0 (np.polyfit)")[0]
        _need(pi0 > 0, "from_counts: pi0 <= 0")
        ind = _sorted_rows_contract(sc_fr, tgl, _find_argsort(rec, sc), "from_counts")
        return {"pi0": pi0, "ind": ind, "scores": sc_fr, "den": common_scale(sc_fr)}
    if alg == "from_peps":
        _need(len(rec.hist_peps) >= 1, "from_peps: peps_from_scores_hist_nnls was not called")
        pp = _fracs(rec.hist_peps[-1], "PEPs for qvalues_from_peps")
        _need(len(pp) == n, "from_peps: PEP vector has the wrong length")
        _need(all(0 <= v <= 1 for v in pp), "from_peps: PEP outside [0, 1]")
        ind = _sorted_rows_contract(sc_fr, tgl, _find_argsort(rec, sc), "from_peps")
        return {"peps": pp, "ind": ind, "scores": sc_fr, "den": common_scale(sc_fr)}
    raise Contract("unknown algorithm")


def _oracles_or_none(c, run):
    if run["rec"] is None:
        return None, "no recording"
    if run["err"] is not None:
        return None, "the implementation raised before returning"
    if "orc" not in run:
        try:
            run["orc"] = (oracles(c, run), None)
        except Contract as e:
            run["orc"] = (None, str(e))
        except Exception as e:  # a recording that cannot be interpreted
            run["orc"] = (None, f"oracle extraction failed: {type(e).__name__}: {e}")
    return run["orc"]


# ----------------------------------------------------------------------------- generation
def _scores(rng, n, shape):
    """-> (scores, targets) lists; floats"""
    ft = rng.choice([0.35, 0.5, 0.65])
    tg = [1 if rng.random() < ft else 0 for _ in range(n)]
    # make sure both classes are reasonably populated
    for j in range(12):
        tg[j] = j % 2
    rng.shuffle(tg)
    sep = {"separated": 5.0, "mix": 3.0, "weak": 1.0}.get(shape, 3.0)
    sc = []
    for t in tg:
        if t and rng.random() < 0.55:
            s = rng.gauss(sep, 1.0)
        else:
            s = rng.gauss(0.0, 1.0)
        sc.append(s)
    if shape == "rounded":
        sc = [round(s, 1) for s in sc]
    elif shape == "integer":
        sc = [float(round(s * 4)) for s in sc]
    elif shape == "levels":
        sc = [float(round(s)) / 2 for s in sc]
    elif shape == "half-ties":
        pool = sc[: max(5, n // 4)]
        sc = [rng.choice(pool) if rng.random() < 0.5 else s for s in sc]
    return sc, tg


def _order(rng, sc, tg, order):
    idx = list(range(len(sc)))
    if order == "shuffled":
        rng.shuffle(idx)
    elif order == "desc":
        idx.sort(key=lambda j: -sc[j])
    elif order == "asc":
        idx.sort(key=lambda j: sc[j])
    elif order == "targets-first":
        idx.sort(key=lambda j: -tg[j])
    elif order == "targets-desc-then-decoys-desc":      # each class best first, but not globally sorted
        idx.sort(key=lambda j: (-tg[j], -sc[j]))
    elif order == "decoys-desc-then-targets-desc":
        idx.sort(key=lambda j: (tg[j], -sc[j]))
    elif order == "class-sorted-interleaved":           # the targets and the decoys are each in descending order
        t = sorted((j for j in idx if tg[j]), key=lambda j: -sc[j])
        d = sorted((j for j in idx if not tg[j]), key=lambda j: -sc[j])
        idx = []
        while t or d:
            src = t if (t and (not d or rng.random() < 0.5)) else d
            idx.append(src.pop(0))
    elif order == "desc-one-swap":                      # descending except for one exchanged pair
        idx.sort(key=lambda j: -sc[j])
        if len(idx) > 3:
            a = rng.randrange(len(idx) - 1)
            b = rng.randrange(len(idx))
            idx[a], idx[b] = idx[b], idx[a]
    return [sc[j] for j in idx], [tg[j] for j in idx]


SHAPES = ("mix", "separated", "weak", "rounded", "integer", "levels", "half-ties")
ORDERS = ("shuffled", "desc", "asc", "targets-first", "targets-desc-then-decoys-desc", "decoys-desc-then-targets-desc",
          "class-sorted-interleaved", "desc-one-swap")


# ---- second estimator stream: value domains, dtypes, layouts, call styles, global state (white-box review)
F_SHAPES = ("mix", "rounded", "integer", "half-ties", "t3", "gap", "expo", "proba", "lognormal", "outlier")
ONE_SIDED = ("expo", "proba", "lognormal")     # decoy scores pile up at the low end of the range
AFFINES = ("id", "x1024", "x2^-10", "+10000", "-100", "unit")
INT_AFFINES = ("id", "x1024", "+10000", "-100")
F_DTYPES = ("f8", "f4", "f8", "f4", "i8", "f8", "f4", "i4", "u1", "u2", "u8")
LAYOUTS = ("contig", "strided", "readonly", "negstride", "col2d")
CALLS = ("pos", "kw", "default")
FTS = (0.2, 0.35, 0.5, 0.65, 0.8)
PRE_SEEDS = (None, 0, 987654321)
PRE_VERBS = (3, 0, 2)


def _scores2(rng, n, shape, ft):
    """-> (scores, targets): like _scores, with a chosen class balance and more families of distributions"""
    tg = [1 if rng.random() < ft else 0 for _ in range(n)]
    for j in range(min(n, 30)):
        tg[j] = j % 2           # at least 15 PSMs of each class
    rng.shuffle(tg)
    sc = []
    for t in tg:
        good = bool(t) and rng.random() < 0.55
        if shape == "t3":                       # heavy tails
            z = rng.gauss(0, 1)
            chi = sum(rng.gauss(0, 1) ** 2 for _ in range(3)) / 3
            s = (3.0 if good else 0.0) + z / math.sqrt(chi)
        elif shape == "gap":                    # two well separated clusters: empty histogram bins in between
            s = rng.gauss(30.0 if good else 0.0, 1.0)
        elif shape == "expo":
            s = 2.0 + rng.expovariate(0.5) if good else rng.expovariate(1.0)
        elif shape == "proba":                  # scores of a probabilistic classifier: piled up near 0 and 1
            s = 1.0 / (1.0 + math.exp(-3.0 * rng.gauss(4.0 if good else -1.0, 1.0)))
        elif shape == "lognormal":
            s = rng.lognormvariate(2.0, 0.5) if good else rng.lognormvariate(0.0, 0.5)
        else:
            s = rng.gauss(3.0 if good else 0.0, 1.0)
        sc.append(s)
    if shape == "outlier":
        jt = [j for j in range(n) if tg[j]]
        jd = [j for j in range(n) if not tg[j]]
        sc[rng.choice(jt)] = 43.0 + rng.random()
        sc[rng.choice(jd)] = -41.0 - rng.random()
    if shape == "rounded":
        sc = [round(s, 1) for s in sc]
    elif shape == "integer":
        sc = [float(round(s * 4)) for s in sc]
    elif shape == "half-ties":
        pool = sc[: max(5, n // 4)]
        sc = [rng.choice(pool) if rng.random() < 0.5 else s for s in sc]
    elif shape in ("t3", "expo", "lognormal", "gap") and rng.random() < 0.3:
        sc = [round(s, 1) for s in sc]
    return sc, tg


def _affine(sc, aff):
    if aff == "x1024":
        return [s * 1024.0 for s in sc]
    if aff == "x2^-10":
        return [s / 1024.0 for s in sc]
    if aff == "+10000":
        return [s + 10000.0 for s in sc]
    if aff == "-100":
        return [s - 100.0 for s in sc]          # every score negative
    if aff == "unit":
        lo, hi = min(sc), max(sc)
        return [(s - lo) / (hi - lo) for s in sc] if hi > lo else list(sc)
    return list(sc)


def _cycle(rng, values, k):
    """k picks in which every value occurs (as evenly as possible), in an order drawn from rng"""
    out = []
    while len(out) < k:
        v = list(values)
        rng.shuffle(v)
        out += v
    return out[:k]


def gen_forms(ctx):
    import numpy as np
    rng = ctx.sub("estimator-forms")
    K = 160 if ctx.thorough else 40
    shapes = _cycle(rng, F_SHAPES, K)
    affs = _cycle(rng, AFFINES, K)
    dts = _cycle(rng, F_DTYPES, K)
    lays = _cycle(rng, LAYOUTS, K)
    calls = _cycle(rng, CALLS, K)
    fts = _cycle(rng, FTS, K)
    orders = _cycle(rng, ORDERS, K)
    sizes = _cycle(rng, (60, 100, 150, 250, 400, 499, 500, 501, 80, 120) + ((1000, 3000, 5000) if ctx.thorough else (1000,)), K)
    cases = []
    for k in range(K):
        shape, aff, sd, n = shapes[k], affs[k], dts[k], sizes[k]
        if sd in ("i8", "i4"):
            shape = "integer"
            aff = aff if aff in INT_AFFINES else rng.choice(INT_AFFINES)
        if sd in _DT_TOP:
            shape = "integer"
            aff = rng.choice({"u1": ("id",), "u2": ("id", "+10000"), "u8": ("id", "x1024", "+10000")}[sd])
        sc, tg = _scores2(rng, n, shape, fts[k])
        if sd in _DT_TOP:
            # unsigned scores (ranks, counts, a uint8 Parquet feature): shifted so that the worst score is 0 — every
            # estimator that sorts by the negated score wraps here unless it leaves the unsigned type first
            lo = min(sc)
            sc = [v - lo for v in sc]
            if max(sc) >= _DT_TOP[sd] or (aff == "x1024" and max(sc) * 1024 >= _DT_TOP[sd]):
                sc = [float(int(v) % 200) for v in sc]
        sc = _affine(sc, aff)
        if sd == "f4":
            sc = [float(np.float32(s)) for s in sc]
        sc, tg = _order(rng, sc, tg, orders[k])
        pre = {"seed": rng.choice(PRE_SEEDS), "verb": rng.choice(PRE_VERBS)}
        for alg in PEP_ALGS + Q_ALGS:
            call = calls[k]
            if call == "default" and alg != "qvality":
                call = "kw" if alg in PEP_ALGS else "pos"
            form = {"sd": sd, "lay": lays[k], "call": call, "pre": pre}
            tags = ["estimator", "forms", alg, "shape=" + shape, "order=" + orders[k], "affine=" + aff, "dtype=" + sd,
                    "layout=" + lays[k], "call=" + call, "targets=%d%%" % round(100 * fts[k]),
                    "family=one-sided" if shape in ONE_SIDED else "family=two-sided",
                    "n<=100" if n <= 100 else "n<=500" if n <= 500 else "n<=2000" if n <= 2000 else "n<=5000"]
            if n in (499, 500, 501):
                tags.append("n=500+-1")
            if k % 4 == 0:
                form["rep"] = rng.choice([a for a in PEP_ALGS + Q_ALGS if a != alg])
                tags.append("repeated-call")
            cases.append({"fn": "peps" if alg in PEP_ALGS else "qvals", "alg": alg, "scores": sc, "targets": tg,
                          "form": form, "tags": tags})
    # fixed data sets of repo_fixes/C06-finding-kde-nnls-isolated-outlier-order.py (known finding KEY_KDE_OUTLIER): a bulk
    # of 500 PSMs, one target 40 sd above and one decoy 41 sd below it, in the given (unsorted) order
    for seed in (27, 31):
        g = np.random.default_rng(seed)
        n = 500
        t = g.random(n) < 0.35
        good = t & (g.random(n) < 0.55)
        s = np.where(good, g.normal(3, 1, n), g.normal(0, 1, n))
        s[np.flatnonzero(t)[0]] = 43.5
        s[np.flatnonzero(~t)[0]] = -41.5
        for alg in PEP_ALGS + Q_ALGS:
            cases.append({"fn": "peps" if alg in PEP_ALGS else "qvals", "alg": alg, "scores": [float(v) for v in s],
                          "targets": [int(v) for v in t], "form": {},
                          "tags": ["estimator", "forms", alg, "shape=outlier", "order=shuffled", "isolated-outlier-probe", "n<=500"]})
    return cases


def weak_orderings(n):
    for v in itertools.product(range(n), repeat=n):
        if set(v) == set(range(max(v) + 1)):
            yield v


def gen(ctx):
    cases = []
    # (1a) monotonize_simple: exhaustive small scope
    for n in range(0, 6 if ctx.thorough else 5):
        for w in (weak_orderings(n) if n else [()]):
            for asc in (True, False):
                cases.append({"fn": "mono", "x": [float(v) / 4 for v in w], "asc": asc, "tags": ["mono", f"n={n}"]})
    rng = ctx.sub("mono")
    for _ in range(60 if ctx.thorough else 20):
        n = rng.randint(1, 40)
        cases.append({"fn": "mono", "x": [rng.choice([rng.gauss(0, 1), float(rng.randint(-3, 3))]) for _ in range(n)],
                      "asc": rng.random() < 0.5, "tags": ["mono", "random"]})
    # (1b) np.interp against the model of it
    rng = ctx.sub("interp")
    for k in range(400 if ctx.thorough else 120):
        m = rng.randint(1, 9)
        dup = rng.random() < 0.5
        xp = sorted((float(rng.randint(0, 8)) if dup else rng.gauss(0, 2)) for _ in range(m))
        if not dup:
            xp = sorted(set(xp))
        fp = [rng.choice([rng.gauss(0, 1), float(rng.randint(0, 3))]) for _ in xp]
        if rng.random() < 0.5:
            fp = sorted(fp, reverse=rng.random() < 0.7)
        xs = []
        for _ in range(rng.randint(1, 12)):
            r = rng.random()
            if r < 0.4:
                xs.append(rng.choice(xp))
            elif r < 0.8:
                xs.append(rng.uniform(min(xp) - 1, max(xp) + 1))
            else:
                a = rng.choice(xp)
                xs.append((a + rng.choice(xp)) / 2)
        cases.append({"fn": "interp", "xp": xp, "fp": fp, "x": xs,
                      "tags": ["interp", "dup-grid" if len(set(xp)) < len(xp) else "strict-grid"]})
    cases.append({"fn": "interp", "xp": [], "fp": [], "x": [1.0], "tags": ["interp", "malformed"]})
    cases.append({"fn": "interp", "xp": [1.0, 2.0], "fp": [1.0], "x": [1.0], "tags": ["interp", "malformed"]})
    # (2) estimators
    rng = ctx.sub("estimators")
    sizes_quick = [50, 80, 130, 200, 320, 500]
    combos = [(s, o) for s in SHAPES for o in ORDERS]
    rounds = 5 if ctx.thorough else 1
    for r in range(rounds):
        rng.shuffle(combos)
        for k, (shape, order) in enumerate(combos):
            if ctx.thorough:
                n = rng.choice([50, 64, 100, 150, 250, 400, 700, 1000, 1500, 2000])
            else:
                n = sizes_quick[k % len(sizes_quick)] if k % 14 else 2000
            sc, tg = _scores(rng, n, shape)
            sc, tg = _order(rng, sc, tg, order)
            for alg in PEP_ALGS + Q_ALGS:
                cases.append({"fn": "peps" if alg in PEP_ALGS else "qvals", "alg": alg, "scores": sc, "targets": tg,
                              "tags": ["estimator", alg, "shape=" + shape, "order=" + order,
                                       "n<=100" if n <= 100 else "n<=500" if n <= 500 else "n<=2000"]})
    cases += gen_forms(ctx)
    # best-scoring row is a decoy / a target explicitly (from_counts division by zero)
    for top in (0, 1):
        for _ in range(4 if ctx.thorough else 2):
            n = rng.choice([60, 120, 300])
            sc, tg = _scores(rng, n, "mix")
            j = max(range(n), key=lambda i: sc[i])
            tg[j] = top
            for alg in Q_ALGS:
                cases.append({"fn": "qvals", "alg": alg, "scores": sc, "targets": tg,
                              "tags": ["estimator", alg, "top-is-target" if top else "top-is-decoy"]})
    # (3) length mismatch
    for alg in PEP_ALGS + Q_ALGS:
        sc, tg = _scores(rng, 60, "mix")
        cases.append({"fn": "peps" if alg in PEP_ALGS else "qvals", "alg": alg, "scores": sc, "targets": tg[:-3],
                      "tags": ["malformed", "length-mismatch", alg]})
    return cases


# ----------------------------------------------------------------------------- model side
def _bools(l):
    return lib.lst([bool(v) for v in l], lib.b)


def encode(c):
    fn = c["fn"]
    if fn == "mono":
        return "c06.mono %s %s" % (lib.b(c["asc"]), lib.lst([fr(v) for v in c["x"]], lib.q))
    if fn == "interp":
        xp, xs = [fr(v) for v in c["xp"]], [fr(v) for v in c["x"]]
        den = common_scale(xp, xs)
        return "c06.interp %s %s %s" % (lib.lst(scaled(xp, den)), lib.lst([fr(v) for v in c["fp"]], lib.q),
                                        lib.lst(scaled(xs, den)))
    run = _run(c)
    alg = c["alg"]
    sc_fr = [Fraction(float(v)) for v in c["scores"]]
    tg = c["targets"]
    if len(sc_fr) != len(tg):
        # the model rejects before it looks at any oracle data
        z = lib.lst(scaled(sc_fr, common_scale(sc_fr)))
        if alg == "qvality":
            return f"c06.qvality {z} {_bools(tg)} 0"
        if alg in ("kde_nnls", "hist_nnls"):
            return f"c06.nnls {lib.b(alg == 'hist_nnls')} {z} {_bools(tg)} 0 0"
        if alg == "from_counts":
            return f"c06.counts {z} {_bools(tg)} 0 b1 b1"
        return f"c06.frompeps {z} {_bools(tg)} 0"
    orc, why = _oracles_or_none(c, run)
    if orc is None:
        return "c06.skip"
    den = orc["den"]
    z = lib.lst(scaled(sc_fr, den))
    if alg == "qvality":
        return f"c06.qvality {z} {_bools(tg)} {lib.lst(orc['fs'], lib.q)}"
    if alg in ("kde_nnls", "hist_nnls"):
        return "c06.nnls %s %s %s %s %s" % (lib.b(alg == "hist_nnls"), z, _bools(tg),
                                            lib.lst(scaled(orc["grid"], den)), lib.lst(orc["d"], lib.q))
    zs = scaled(sc_fr, den)
    if alg == "from_counts":
        srt = lib.lst([(zs[i], bool(tg[i])) for i in orc["ind"]], lib.pair(lib.z, lib.b))
        return f"c06.counts {z} {_bools(tg)} {srt} {lib.q(orc['pi0'])}"
    srt = lib.lst([(zs[i], (bool(tg[i]), orc["peps"][i])) for i in orc["ind"]],
                  lib.pair(lib.z, lib.pair(lib.b, lib.q)))
    return f"c06.frompeps {z} {_bools(tg)} {srt}"


def decode(c, t):
    fn = c["fn"]
    if fn == "mono":
        return t.lst(t.q)
    if fn == "interp":
        return t.result(lambda: t.lst(t.q))
    if t.t[:1] == ["SKIP"]:
        return ("no-oracle",)
    if c["alg"] == "from_counts":
        def qout():
            if t.raw() == "0":
                return ("finite", t.lst(t.q))
            return ("allinf", t.nat())
        return t.result(qout)
    return t.result(lambda: t.lst(t.q))


# ----------------------------------------------------------------------------- implementation side
KEY_PI0 = "pi0-by-slope:decoy-mode-at-low-end"
PI0_FINDING_CASES = {}
_PI0_CLASS = {}


def _decoy_mode_at_low_end(c):
    """Input class of the known finding KEY_PI0, computed from the INPUT with numpy / scipy only (never with the
    code under test): the decoy density that the estimator looks at (histogram over np.histogram_bin_edges(scores,
    'auto'), or the Gaussian KDE on 500 equally spaced points for kde_nnls) reaches 90 % of its maximum already at
    its first (lowest-score) entry, so that estimate_pi0_by_slope has no point left of the decoy mode to fit."""
    key = lib.stable_hash([c["alg"] in ("kde_nnls",), c["alg"] == "from_counts", c["scores"], c["targets"], _form(c).get("sd", "f8")])
    if key not in _PI0_CLASS:
        import numpy as np
        import warnings
        res = False
        try:
            sc, tg = _arrays(dict(c, form={"sd": _form(c).get("sd", "f8")}))
            with np.errstate(all="ignore"), warnings.catch_warnings():
                warnings.simplefilter("ignore")
                if c["alg"] == "kde_nnls":
                    import scipy.stats
                    grid = np.linspace(min(sc), max(sc), num=500)
                    dens = scipy.stats.gaussian_kde(sc[~tg]).pdf(grid)
                else:
                    edges = np.histogram_bin_edges(sc, bins="auto")
                    dens, _ = np.histogram(sc[~tg], bins=edges, density=(c["alg"] == "from_counts"))
                res = bool(len(dens) > 0 and int(np.argmax(dens >= 0.9 * np.max(dens))) == 0)
        except Exception:  # noqa: cannot be classified -> not in the class
            res = False
        _PI0_CLASS[key] = res
    return _PI0_CLASS[key]


def _pi0_finding(c, i):
    """the implementation failed in np.polyfit on an empty vector AND the input is in the class of KEY_PI0"""
    return (i is not None and i[0] == "fit-failed" and c.get("alg") in ("kde_nnls", "hist_nnls", "from_counts", "from_peps")
            and i[1] == "TypeError" and str(i[2]).endswith(":polyfit") and len(i) > 3 and "expected non-empty vector" in str(i[3])
            and len(c["scores"]) == len(c["targets"]) and _decoy_mode_at_low_end(c))


KEY_KDE_OUTLIER = "kde_nnls:isolated-outlier-order-sensitive"
KDE_OUTLIER_CANDIDATES = []


def _isolated(c):
    """indices of the PSMs at either end of the score range that are farther than 5 interquartile ranges from the
    next score towards the bulk (computed from the input alone)"""
    sc = c["scores"]
    n = len(sc)
    if n < 8:
        return set()
    srt = sorted(range(n), key=lambda j: sc[j])
    vals = [sc[j] for j in srt]
    iqr = vals[(3 * n) // 4] - vals[n // 4]
    if not iqr > 0:
        return set()
    out = set()
    k = 0
    while k < n - 1 and vals[k + 1] - vals[k] > 5 * iqr:
        out.add(srt[k])
        k += 1
    k = n - 1
    while k > 0 and vals[k] - vals[k - 1] > 5 * iqr:
        out.add(srt[k])
        k -= 1
    return out


def _order_sensitive_only_at_outliers(c, i):
    """kde_nnls returned other values for the same PSMs passed best first, and ONLY for isolated outlier PSMs
    (input class of the known finding KEY_KDE_OUTLIER)"""
    if c.get("alg") != "kde_nnls" or i is None or i[0] != "ok" or isinstance(i[1], tuple) or not _valid(c):
        return False
    iso = _isolated(c)
    if not iso:
        return False
    sc = c["scores"]
    n = len(sc)
    if len(i[1]) != n:
        return False
    order = sorted(range(n), key=lambda j: -sc[j])
    r2 = _run(dict(c, scores=[sc[j] for j in order], targets=[c["targets"][j] for j in order]))
    if r2["err"] is not None or r2["out"] is None or len(r2["out"]) != n:
        return False
    differ = [j for pos, j in enumerate(order)
              if not abs(float(i[1][j]) - r2["out"][pos]) <= 1e-6 * max(1.0, abs(r2["out"][pos]))]
    return bool(differ) and set(differ) <= iso


def _canon_floats(vals):
    """list of floats -> canonical form: finite -> list of Fractions; all +inf -> ('allinf', n); else ('nonfinite', ...)"""
    if vals and all(v == math.inf for v in vals):
        return ("allinf", len(vals))
    if any(v != v for v in vals):
        return ("nan", len(vals))
    if any(v in (math.inf, -math.inf) for v in vals):
        return ("mixed-inf", len(vals))
    return ("finite", [Fraction(v) for v in vals])


def impl(c):
    import numpy as np
    fn = c["fn"]
    if fn == "mono":
        from mokapot import peps as mpeps
        return [Fraction(float(v)) for v in mpeps.monotonize_simple(np.array(c["x"], dtype=float), c["asc"])]
    if fn == "interp":
        def f():
            return [Fraction(float(v)) for v in np.interp(np.array(c["x"], dtype=float), np.array(c["xp"], dtype=float),
                                                          np.array(c["fp"], dtype=float))]
        return lib.call_impl(f)
    run = _run(c)
    if len(c["scores"]) == len(c["targets"]):
        ESTIMATOR_CASES[c["alg"]] = ESTIMATOR_CASES.get(c["alg"], 0) + 1
    if run["err"] is not None:
        if len(c["scores"]) == len(c["targets"]) and str(run.get("where", "")).startswith("library:"):
            r = ("fit-failed", run["err"], run["where"], run.get("msg", ""))
            if _pi0_finding(c, r):
                PI0_FINDING_CASES.setdefault(c["alg"], []).append(len(c["scores"]))
            else:
                FIT_FAILURES.setdefault(c["alg"], []).append((len(c["scores"]), run["msg"], run["where"]))
            return r
        return ("err", run["err"])
    if run["mutated"]:
        return ("input-mutated",)
    if run.get("repeatable") is False:
        return ("not-repeatable", lib.jsonable(run.get("repeat_diff")))
    if run.get("out_shape") is not None and run["out_shape"] != [len(c["scores"])]:
        return ("bad-shape", run["out_shape"])
    if len(c["scores"]) == len(c["targets"]):
        orc, why = _oracles_or_none(c, run)
        if orc is None:
            return ("contract", why)
    canon = _canon_floats(run["out"])
    if c["alg"] == "kde_nnls" and "pipeline" not in c.get("tags", []) and canon[0] == "finite" and _isolated(c):
        KDE_OUTLIER_CANDIDATES.append(c)
    if canon[0] != "finite" and "pipeline" not in c.get("tags", []):
        NONFINITE_RESULTS[f"{c['alg']}:{canon[0]}"] = NONFINITE_RESULTS.get(f"{c['alg']}:{canon[0]}", 0) + 1
    if c["alg"] == "from_counts":
        return ("ok", canon)
    if canon[0] == "finite":
        return ("ok", canon[1])
    return ("ok", canon)


def _close(a, b):
    return abs(a - b) <= TOL * max(1, abs(b))


def _close_list(i, m):
    return len(i) == len(m) and all(_close(a, b) for a, b in zip(i, m))


def same(c, m, i):
    fn = c["fn"]
    if fn == "mono":
        return list(m) == list(i)          # max / min are exact on floats
    if fn == "interp":
        if m[0] != i[0]:
            return False
        return m[1] == i[1] if m[0] == "err" else _close_list(i[1], m[1])
    if i[0] == "fit-failed":
        if _pi0_finding(c, i):
            return False                # a defect of the implementation on a valid input (known finding KEY_PI0)
        return m == ("no-oracle",)      # the library fit raised: nothing to post-process (counted, bounded in extra_checks)
    if m[0] != i[0]:
        # hist_nnls: 0/0 -> NaN in the implementation, Err EValue in the model
        return (c["alg"] == "hist_nnls" and m == ("err", "ValueError") and i[0] == "ok"
                and isinstance(i[1], tuple) and i[1][0] == "nan")
    if m[0] == "err":
        return m[1] == i[1]
    if m[0] != "ok":
        return False
    if c["alg"] == "from_counts":
        if m[1][0] != i[1][0]:
            return False
        return m[1][1] == i[1][1] if m[1][0] == "allinf" else _close_list(i[1][1], m[1][1])
    if isinstance(i[1], tuple):
        return False
    return _close_list(i[1], m[1])


def nontrivial(c):
    if c["fn"] in ("mono", "interp"):
        return len(c.get("x", [])) >= 2
    sc = c["scores"]
    if len(sc) != len(c["targets"]):
        return True
    return _valid(c) and (len(set(sc)) < len(sc) or any(sc[j] < sc[j + 1] for j in range(len(sc) - 1)))


# ----------------------------------------------------------------------------- the property on the implementation's output
def _valid(c):
    tg = c["targets"]
    return (len(c["scores"]) == len(tg) and len(tg) >= 50 and sum(1 for t in tg if t) >= 12
            and sum(1 for t in tg if not t) >= 12)


def oracle(c, i):
    fn = c["fn"]
    if fn == "mono":
        x = [Fraction(float(v)) for v in c["x"]]
        exp, cur = [], None
        for v in x:
            cur = v if cur is None else (max(cur, v) if c["asc"] else min(cur, v))
            exp.append(cur)
        return None if list(i) == exp else f"monotonize_simple({c['x']}, {c['asc']}) is not the running {'max' if c['asc'] else 'min'}"
    if fn == "interp" or not _valid(c):
        return None
    alg = c["alg"]
    call = (f"mokapot.peps.peps_from_scores(scores, targets, {alg!r})" if fn == "peps"
            else f"mokapot.qvalues.qvalues_from_scores(scores, targets, {alg!r})")
    if i[0] == "fit-failed":
        if _pi0_finding(c, i):
            return f"{call} raised {i[3]} on a valid input whose decoy scores pile up at the low end of the score range"
        return None
    if i[0] == "not-repeatable":
        return (f"{call}: the same call on the same data returned different values after another estimator had been "
                f"called in between (first difference: {i[1]!r})")
    if i[0] == "bad-shape":
        return f"{call} returned an array of shape {i[1]} for {len(c['scores'])} PSMs"
    if i[0] == "err":
        run = _run(c)
        return f"{call} raised {run.get('msg', i[1])} on a valid input ({len(c['scores'])} PSMs with targets and decoys)"
    if i[0] == "contract":
        return f"{call}: oracle contract broken: {i[1]}"
    if i[0] != "ok":
        return f"{call}: {i[0]}"
    v = i[1]
    sc = c["scores"]
    n = len(sc)
    if fn == "qvals" and isinstance(v, tuple):
        if v[0] == "allinf":
            return None            # +inf is non-negative and monotone (reported separately as an observation)
        if v[0] != "finite":
            return f"{call} returned non-finite values ({v[0]})"
        v = v[1]
    if isinstance(v, tuple):
        return f"{call} returned non-finite values ({v[0]})"
    if len(v) != n:
        return f"{call} returned {len(v)} values for {n} PSMs"
    slack = Fraction(1, 10 ** 12)
    for j in range(n):
        if v[j] < 0 or (fn == "peps" and v[j] > 1):
            return f"{call}: value {float(v[j])!r} of PSM {j} is outside {'[0,1]' if fn == 'peps' else '[0,inf)'}"
    order = sorted(range(n), key=lambda j: -sc[j])
    for a, b in zip(order, order[1:]):
        if sc[a] == sc[b] and v[a] != v[b]:
            return (f"{call}: PSMs {a} and {b} have the same score {sc[a]!r} but different values "
                    f"{float(v[a])!r} / {float(v[b])!r}")
        if v[b] < v[a] - slack:
            return (f"{call}: the value decreases as the score worsens: PSM {a} (score {sc[a]!r}) has "
                    f"{float(v[a])!r}, PSM {b} (score {sc[b]!r}) has {float(v[b])!r}")
    # "whatever the input order": the same PSMs presented in descending order get the same values
    # (qvalues_from_counts reads the FDR of a tie group at whichever member np.argsort lists first, so with tied
    #  scores its values legitimately depend on the row order: compared only when all scores are distinct)
    if any(sc[a] < sc[b] for a, b in zip(range(n), range(1, n))) and (alg != "from_counts" or len(set(sc)) == n):
        cs = dict(c, scores=[sc[j] for j in order], targets=[c["targets"][j] for j in order])
        r2 = _run(cs)
        if r2["err"] is None and r2["out"] is not None and len(r2["out"]) == n and all(x == x and abs(x) != math.inf for x in r2["out"]):
            for pos, j in enumerate(order):
                if abs(float(v[j]) - r2["out"][pos]) > 1e-6 * max(1.0, abs(r2["out"][pos])):
                    return (f"{call}: PSM {j} (score {sc[j]!r}) gets {float(v[j])!r}, but {r2['out'][pos]!r} when the same PSMs "
                            f"are passed in descending score order — the i-th value does not belong to the i-th input PSM")
    return None


def shrink(c):
    if c["fn"] not in ("peps", "qvals"):
        return
    n = len(c["scores"])
    if len(c["targets"]) != n:
        return
    size = n // 2
    while size >= 1:
        for start in range(0, n, size):
            sc = c["scores"][:start] + c["scores"][start + size:]
            tg = c["targets"][:start] + c["targets"][start + size:]
            if len(tg) >= 50 and sum(tg) >= 15 and len(tg) - sum(tg) >= 15:
                yield dict(c, scores=sc, targets=tg)
        size //= 2
        if size < max(1, n // 16):
            break


# ----------------------------------------------------------------------------- the PEP column of result files
def _pipeline_levels(n, alg, seed, tmp, desc=True):
    """Run mokapot.assign_confidence on a small PIN-like table (rows in arbitrary order) and return, per level,
    the rows of targets.<level> + decoys.<level> as (score, is_target, posterior_error_prob)."""
    import copy
    from pathlib import Path
    import numpy as np
    import pandas as pd
    from mokapot import OnDiskPsmDataset, assign_confidence
    rng = np.random.default_rng(seed)
    tg = rng.random(n) < 0.5
    sc = np.where(tg & (rng.random(n) < 0.5), rng.normal(3, 1, n), rng.normal(0, 1, n))
    sc = np.round(sc, 2)   # some ties
    df = pd.DataFrame({
        "specid": np.arange(n), "target": tg.astype(int), "scannr": np.arange(n),
        "calcmass": rng.uniform(500, 2000, n), "expmass": np.arange(n) + 500.5,
        "peptide": ["PEP%dK" % i for i in range(n)], "proteins": ["_dummy"] * n,
        # lower-is-better variant: the feature is the negated score and descs=[False]; the result files then
        # hold the ranking score (negated feature) again
        "score": sc if desc else -sc,
        "filename": "t.mzML", "ret_time": rng.uniform(0, 100, n), "charge": rng.choice([2, 3], n)})
    df = df.sample(frac=1, random_state=seed)
    pin = Path(tmp) / "t.pin"
    df.to_csv(pin, sep="\t", index=False)
    psms = OnDiskPsmDataset(
        filename=pin, target_column="target", spectrum_columns=["scannr", "expmass"], peptide_column="peptide",
        feature_columns=["score"], filename_column="filename", scan_column="scannr", calcmass_column="calcmass",
        expmass_column="expmass", rt_column="ret_time", charge_column="charge", columns=list(df.columns),
        protein_column="proteins", metadata_columns=["specid", "scannr", "expmass", "peptide", "proteins", "target"],
        metadata_column_types=["int", "int", "float", "string", "string", "int"], level_columns=["peptide"],
        specId_column="specid", spectra_dataframe=df[["scannr", "expmass", "target"]])
    assign_confidence([psms], prefixes=[None], descs=[bool(desc)], dest_dir=Path(tmp), max_workers=1, eval_fdr=0.5,
                      decoys=True, peps_algorithm=alg)
    out = {}
    for lvl in ("psms", "peptides"):
        rows = []
        for fname, is_t in ((f"targets.{lvl}", True), (f"decoys.{lvl}", False)):
            d = pd.read_csv(Path(tmp) / fname, sep="\t")
            rows += [(float(a), is_t, float(b)) for a, b in zip(d["score"], d["posterior_error_prob"])]
        out[lvl] = rows
    return out


def _pipeline_checks(ctx):
    """posterior_error_prob column of the result files: every row's PEP is the model's value for that row."""
    import tempfile
    fails, nrows, nfiles = [], 0, 0
    rng = ctx.sub("pipeline")
    reps = 3 if ctx.thorough else 1
    for alg in PEP_ALGS:
        for r in range(2 * reps):
            n = rng.choice([200, 300, 500])
            seed = rng.randrange(10 ** 6)
            desc = (r % 2 == 0)
            what = f"assign_confidence(peps_algorithm={alg!r}, descs=[{desc}]) on {n} PSMs (table seed {seed})"
            try:
                with tempfile.TemporaryDirectory() as tmp:
                    levels = _pipeline_levels(n, alg, seed, tmp, desc)
            except BaseException as e:  # noqa
                if isinstance(e, (KeyboardInterrupt, MemoryError)):
                    raise
                fails.append({"what": f"{what} raised {type(e).__name__}: {e}"[:300]})
                continue
            for lvl, rows in levels.items():
                nfiles += 2
                rows.sort(key=lambda t: -t[0])        # the order the level file has inside assign_confidence
                case = {"fn": "peps", "alg": alg, "scores": [a for a, _, _ in rows], "targets": [int(t) for _, t, _ in rows],
                        "tags": ["pipeline", alg, lvl]}
                col = [Fraction(p) if p == p else None for _, _, p in rows]
                m = decode(case, lib.Toks(lib.run_driver([encode(case)])[0]))
                i = impl(case)
                msg = None
                if not same(case, m, i):
                    msg = f"model and peps_from_scores disagree on the rows of the {lvl} files"
                elif m[0] != "ok":
                    msg = None if i[0] == "fit-failed" else f"no PEPs for the rows of the {lvl} files: {i!r}"[:200]
                elif len(col) != len(m[1]) or any(c is None or not _close(c, b) for c, b in zip(col, m[1])):
                    bad = [j for j, (c, b) in enumerate(zip(col, m[1])) if c is None or not _close(c, b)][:1]
                    j = bad[0] if bad else -1
                    msg = (f"posterior_error_prob column of the {lvl} files is not aligned with its rows: row with score "
                           f"{rows[j][0]!r} has {rows[j][2]!r}, the estimator's value for that score is {float(m[1][j])!r}")
                else:
                    msg = oracle(case, ("ok", col))
                    nrows += len(col)
                if msg:
                    fails.append({"what": f"{what}: {msg}", "failing_input": case})
    return fails, {"pipeline_result_files_checked": nfiles, "pipeline_rows_checked": nrows}


# ---- second pipeline stream: the options of assign_confidence the PEP column can depend on (white-box review)
def _pipe_table(seed, n, desc, id0):
    """One collection: a PIN-like table in arbitrary row order with unique spectra, some peptides matched by two PSMs
    of the same class with different scores, tied scores.  -> (DataFrame, rows) with rows[PSMId] = (ranking score,
    is_target, peptide)."""
    import numpy as np
    import pandas as pd
    rng = np.random.default_rng(seed)
    tg = rng.random(n) < rng.choice([0.4, 0.5, 0.65])
    sc = np.where(tg & (rng.random(n) < 0.5), rng.normal(3, 1, n), rng.normal(0, 1, n))
    sc = np.round(sc, 2)   # some ties
    pep = ["PEP%dK" % (id0 + i) for i in range(n)]
    for _ in range(n // 5):            # second PSM of a peptide: same class, different score
        i, j = (int(v) for v in rng.integers(0, n, 2))
        if i != j and tg[i] == tg[j] and sc[i] != sc[j] and pep.count(pep[i]) == 1 and pep.count(pep[j]) == 1:
            pep[j] = pep[i]
    ids = np.arange(n) + id0
    df = pd.DataFrame({
        "specid": ids, "target": tg.astype(int), "scannr": ids,
        "calcmass": rng.uniform(500, 2000, n), "expmass": ids + 500.5,
        "peptide": pep, "proteins": ["_dummy"] * n,
        "score": sc if desc else -sc,          # lower-is-better collections carry the negated score as their feature
        "filename": "t.mzML", "ret_time": rng.uniform(0, 100, n), "charge": rng.choice([2, 3], n)})
    df = df.sample(frac=1, random_state=int(seed) % (2 ** 31))
    rows = {int(i): (float(s), bool(t), p) for i, s, t, p in zip(ids, sc, tg, pep)}
    return df, rows


def _pipe_dataset(df, path):
    from mokapot import OnDiskPsmDataset
    df.to_csv(path, sep="\t", index=False)
    return OnDiskPsmDataset(
        filename=path, target_column="target", spectrum_columns=["scannr", "expmass"], peptide_column="peptide",
        feature_columns=["score"], filename_column="filename", scan_column="scannr", calcmass_column="calcmass",
        expmass_column="expmass", rt_column="ret_time", charge_column="charge", columns=list(df.columns),
        protein_column="proteins", metadata_columns=["specid", "scannr", "expmass", "peptide", "proteins", "target"],
        metadata_column_types=["int", "int", "float", "string", "string", "int"], level_columns=["peptide"],
        specId_column="specid", spectra_dataframe=df[["scannr", "expmass", "target"]])


def _pipe_run(spec, tmp):
    """Run assign_confidence as spec says.  -> (per collection: rows, {file name: DataFrame}), or raises."""
    from pathlib import Path
    import numpy as np
    import pandas as pd
    import mokapot.confidence as mconf
    from mokapot import assign_confidence
    tmp = Path(tmp)
    colls = []
    for k, (n, seed, desc) in enumerate(zip(spec["ns"], spec["seeds"], spec["descs"])):
        df, rows = _pipe_table(seed, n, desc, 100000 * (k + 1))
        colls.append((df, rows, _pipe_dataset(df, tmp / f"in{k}.pin")))
    prefixes = [None] if len(colls) == 1 else ["c%d" % k for k in range(len(colls))]
    saved = mconf.CONFIDENCE_CHUNK_SIZE
    try:
        if spec["chunk"]:
            mconf.CONFIDENCE_CHUNK_SIZE = int(spec["chunk"])
        kw = dict(prefixes=prefixes, descs=[bool(d) for d in spec["descs"]], dest_dir=tmp, max_workers=int(spec["workers"]),
                  eval_fdr=0.5, peps_algorithm=spec["alg"])
        if spec["decoys"] is not None:
            kw["decoys"] = bool(spec["decoys"])
        if spec["peps_error"]:
            kw["peps_error"] = True
        if spec["qalg"] != "tdc":
            kw["qvalue_algorithm"] = spec["qalg"]
        if spec["explicit_scores"]:
            kw["scores"] = [np.array(df["score"].values, dtype=float) for df, _, _ in colls]
        if spec.get("dedup") is False:
            kw["deduplication"] = False      # (spectra are unique: the rows stay the same)
        if spec.get("rollup") is False:
            kw["do_rollup"] = False          # only the PSM level is written
        assign_confidence([ds for _, _, ds in colls], **kw)
    finally:
        mconf.CONFIDENCE_CHUNK_SIZE = saved
    out = []
    for k, (df, rows, _) in enumerate(colls):
        files = {}
        pre = "" if prefixes[k] is None else prefixes[k] + "."
        for lvl in ("psms", "peptides"):
            for cls in ("targets", "decoys"):
                f = tmp / f"{pre}{cls}.{lvl}"
                files[f"{cls}.{lvl}"] = pd.read_csv(f, sep="\t") if f.exists() else None
        out.append((rows, files))
    return out


def _pipe_expected_level(rows, lvl):
    """PSMIds of the level in descending ranking-score order (ties: by PSMId)"""
    ids = sorted(rows, key=lambda i: (-rows[i][0], i))
    if lvl == "psms":
        return ids
    seen, keep = set(), []
    for i in ids:                      # best PSM per peptide (duplicated peptides never tie, see _pipe_table)
        if rows[i][2] not in seen:
            seen.add(rows[i][2])
            keep.append(i)
    return keep


def _pipe_model(fn, alg, ids, rows):
    case = {"fn": fn, "alg": alg, "scores": [rows[i][0] for i in ids], "targets": [int(rows[i][1]) for i in ids],
            "tags": ["pipeline"]}
    m = decode(case, lib.Toks(lib.run_driver([encode(case)])[0]))
    i = impl(case)
    return case, m, i


def _pipe_check(spec, result, what):
    """-> (list of failure dicts, rows checked)"""
    fails, nrows = [], 0

    def bad(msg, case=None):
        d = {"what": f"{what}: {msg}"[:600]}
        if case is not None:
            d["failing_input"] = case
        fails.append(d)

    want_decoys = bool(spec["decoys"])
    for k, (rows, files) in enumerate(result):
        for lvl in ("psms", "peptides"):
            if lvl != "psms" and spec.get("rollup") is False:
                continue
            ids = _pipe_expected_level(rows, lvl)
            case, m, i = _pipe_model("peps", spec["alg"], ids, rows)
            if not same(case, m, i):
                bad(f"model and peps_from_scores disagree on the {lvl} of collection {k}", case)
                continue
            if m[0] != "ok":
                if i[0] != "fit-failed":
                    bad(f"no PEPs for the {lvl} of collection {k}: {i!r}"[:200], case)
                continue
            exp_pep = dict(zip(ids, m[1]))
            exp_q = None
            if spec["qalg"] in Q_ALGS:
                qcase, qm, qi = _pipe_model("qvals", spec["qalg"], ids, rows)
                tied = len(set(qcase["scores"])) < len(ids)
                if same(qcase, qm, qi) and qm[0] == "ok" and not (spec["qalg"] == "from_counts" and tied):
                    v = qm[1]
                    if spec["qalg"] == "from_counts":
                        v = v[1] if v[0] == "finite" else None
                    exp_q = dict(zip(ids, v)) if v is not None else None
            seen_cols = {}
            for cls, is_t in (("targets", True), ("decoys", False)):
                name = f"{cls}.{lvl}"
                df = files[name]
                if not is_t and not want_decoys:
                    continue            # (a decoy file found here is a leftover of the earlier run of a "stale" spec)
                if df is None:
                    bad(f"collection {k}: result file {name} is missing")
                    continue
                want = [j for j in ids if rows[j][1] == is_t]
                got = [int(v) for v in df["PSMId"]]
                if sorted(got) != sorted(want):
                    bad(f"collection {k}: {name} holds {len(got)} rows, expected the {len(want)} {cls} of the level "
                        f"(first missing/unexpected PSMId: {sorted(set(got) ^ set(want))[:1]})", case)
                    continue
                for psm, s, p, q in zip(got, df["score"], df["posterior_error_prob"], df["q-value"]):
                    nrows += 1
                    if float(s) != rows[psm][0]:
                        bad(f"collection {k}: {name}: PSM {psm} has score {float(s)!r} in the file, {rows[psm][0]!r} in the input", case)
                        break
                    p = float(p)
                    if p != p or not _close(Fraction(p), exp_pep[psm]):
                        bad(f"posterior_error_prob column of {name} (collection {k}) is not aligned with its rows: PSM {psm} "
                            f"(score {rows[psm][0]!r}) has {p!r}, the estimator's value for that PSM is {float(exp_pep[psm])!r}", case)
                        break
                    q = float(q)
                    if spec["qalg"] in Q_ALGS and (q != q or q < 0):
                        bad(f"q-value column of {name} (collection {k}): PSM {psm} has {q!r}", qcase)
                        break
                    if exp_q is not None and (abs(q) == math.inf or not _close(Fraction(q), exp_q[psm])):
                        bad(f"q-value column of {name} (collection {k}, {spec['qalg']}) is not aligned with its rows: PSM {psm} "
                            f"(score {rows[psm][0]!r}) has {q!r}, the estimator's value for that PSM is {float(exp_q[psm])!r}", qcase)
                        break
                else:
                    seen_cols.update({psm: float(p) for psm, p in zip(got, df["posterior_error_prob"])})
            if want_decoys and len(seen_cols) == len(ids):
                msg = oracle(case, ("ok", [Fraction(seen_cols[j]) for j in ids]))     # the property on the column itself
                if msg:
                    bad(f"posterior_error_prob column of the {lvl} files of collection {k}: {msg}", case)
    return fails, nrows


def _pipe_in_pi0_class(spec):
    """some level of some collection is an input of the known finding KEY_PI0 for an estimator the run uses"""
    algs = [a for a in (spec["alg"], spec["qalg"]) if a in ("kde_nnls", "hist_nnls", "from_counts", "from_peps")]
    for k, (n, seed, desc) in enumerate(zip(spec["ns"], spec["seeds"], spec["descs"])):
        _, rows = _pipe_table(seed, n, desc, 100000 * (k + 1))
        for lvl in ("psms", "peptides"):
            ids = _pipe_expected_level(rows, lvl)
            for alg in algs:
                if _decoy_mode_at_low_end({"alg": alg, "scores": [rows[i][0] for i in ids], "targets": [int(rows[i][1]) for i in ids]}):
                    return True
    return False


def _pipe_all_one(spec):
    """peps_error=True may raise only if the PEPs of some level really are all 1"""
    for k, (n, seed, desc) in enumerate(zip(spec["ns"], spec["seeds"], spec["descs"])):
        _, rows = _pipe_table(seed, n, desc, 100000 * (k + 1))
        for lvl in ("psms", "peptides"):
            case, m, i = _pipe_model("peps", spec["alg"], _pipe_expected_level(rows, lvl), rows)
            if m[0] == "ok" and same(case, m, i) and all(v == 1 for v in m[1]):
                return True
    return False


PIPE_CHUNKS = (None, 37, 64, 100)
PIPE_DECOYS = (True, False, None)       # None: argument left out (the default: no decoy files)
PIPE_QALGS = ("tdc", "from_peps", "from_counts")
PIPE_WORKERS = (1, 2, 3)


def _pipeline2_checks(ctx):
    import tempfile
    import warnings
    rng = ctx.sub("pipeline-options")
    K = 36 if ctx.thorough else 12
    algs = _cycle(rng, PEP_ALGS, K)
    chunks = _cycle(rng, PIPE_CHUNKS, K)
    decs = _cycle(rng, PIPE_DECOYS, K)
    qalgs = _cycle(rng, PIPE_QALGS, K)
    works = _cycle(rng, PIPE_WORKERS, K)
    perr = _cycle(rng, (False, True), K)
    expl = _cycle(rng, (False, True), K)
    ncoll = _cycle(rng, (1, 1, 2), K)
    stale = _cycle(rng, (False, False, True), K)
    dedup = _cycle(rng, (True, True, False), K)
    rollup = _cycle(rng, (True, True, True, False), K)
    fails, nrows, nruns = [], 0, 0
    dist = {}
    for k in range(K):
        nc = ncoll[k]
        descs = [rng.random() < 0.5 for _ in range(nc)]
        if nc == 2 and k % 2 == 0:
            descs = [True, False] if rng.random() < 0.5 else [False, True]     # collections ranked in opposite directions
        spec = {"alg": algs[k], "chunk": chunks[k], "decoys": decs[k], "qalg": qalgs[k], "workers": works[k],
                "peps_error": perr[k], "explicit_scores": expl[k], "descs": descs,
                "ns": [rng.choice([200, 260, 330, 500]) for _ in range(nc)],
                "seeds": [rng.randrange(10 ** 6) for _ in range(nc)], "stale": stale[k], "dedup": dedup[k], "rollup": rollup[k]}
        for key in ("alg", "chunk", "decoys", "qalg", "workers", "peps_error", "explicit_scores", "stale", "dedup", "rollup"):
            t = f"{key}={spec[key]}"
            dist[t] = dist.get(t, 0) + 1
        t = "collections=%d%s" % (nc, "" if nc == 1 else ("/mixed-descs" if len(set(descs)) > 1 else "/same-descs"))
        dist[t] = dist.get(t, 0) + 1
        what = "assign_confidence(" + ", ".join(f"{a}={spec[a]!r}" for a in ("alg", "qalg", "descs", "decoys", "peps_error", "chunk", "workers",
                                                                              "explicit_scores", "stale", "dedup", "rollup", "ns", "seeds")) + ")"
        try:
            with tempfile.TemporaryDirectory() as tmp, warnings.catch_warnings():
                warnings.simplefilter("ignore")
                if spec["stale"]:      # an earlier run on OTHER data left its result files in the same directory
                    other = dict(spec, ns=[150] * nc, seeds=[sd + 1 for sd in spec["seeds"]], decoys=True, stale=False,
                                 alg="qvality", qalg="tdc", peps_error=False)
                    _pipe_run(other, tmp)
                result = _pipe_run(spec, tmp)
        except BaseException as e:  # noqa
            if isinstance(e, (KeyboardInterrupt, MemoryError)):
                raise
            if isinstance(e, TypeError) and "expected non-empty vector" in str(e) and _pipe_in_pi0_class(spec):
                fails.append({"what": f"{what} raised {type(e).__name__}: {e}"[:500], "key": KEY_PI0})
            elif not (spec["peps_error"] and isinstance(e, ValueError) and "all equal to 1" in str(e) and _pipe_all_one(spec)):
                _, rows0 = _pipe_table(spec["seeds"][0], spec["ns"][0], spec["descs"][0], 100000)
                ids0 = _pipe_expected_level(rows0, "psms")
                fails.append({"what": f"{what} raised {type(e).__name__}: {e} (failing_input: the PSMs of the first collection)"[:500],
                              "failing_input": {"fn": "peps", "alg": spec["alg"], "scores": [rows0[j][0] for j in ids0],
                                                "targets": [int(rows0[j][1]) for j in ids0], "pipeline": spec, "tags": ["pipeline"]}})
            continue
        nruns += 1
        f, r = _pipe_check(spec, result, what)
        fails += f
        nrows += r
    return fails, {"pipeline_option_runs": nruns, "pipeline_option_rows_checked": nrows, "pipeline_option_distribution": dist}


def _tie_order_probe():
    """Observation (reported, not a verdict): qvalues_from_counts on the same PSMs with two tied rows exchanged."""
    import numpy as np
    import mokapot.qvalues as mq
    saved = mq.estimate_pi0_by_slope
    try:
        mq.estimate_pi0_by_slope = lambda *a, **k: 1.0
        sc = np.array([9.0, 8.0, 7.0, 7.0, 6.0, 5.0])
        tg = np.array([True, True, True, False, False, True])
        sw = [0, 1, 3, 2, 4, 5]
        with np.errstate(all="ignore"):
            q1 = mq.qvalues_from_counts(sc, tg)
            q2 = mq.qvalues_from_counts(sc[sw], tg[sw])
        return {"scores": sc.tolist(), "targets": tg.tolist(), "q": [float(v) for v in q1],
                "q_with_tied_rows_exchanged": [float(v) for v in q2], "depends_on_row_order": bool(q1[2] != q2[2]),
                "finding_key": "from_counts:tie-order-dependent"}
    except Exception as e:  # noqa
        return {"error": f"{type(e).__name__}: {e}"[:200]}
    finally:
        mq.estimate_pi0_by_slope = saved


def _series_probe():
    """Observation (reported, not a verdict; pandas Series are not the documented input type): the estimators on a
    pandas Series whose index is not 0..n-1."""
    import numpy as np
    import pandas as pd
    import warnings
    from mokapot import peps as mpeps, qvalues as mq
    rng = np.random.default_rng(5)
    n = 300
    tg = rng.random(n) < 0.5
    sc = np.where(tg & (rng.random(n) < 0.5), rng.normal(3, 1, n), rng.normal(0, 1, n))
    idx = rng.permutation(n)
    out = {}
    with np.errstate(all="ignore"), warnings.catch_warnings():
        warnings.simplefilter("ignore")
        for fn, algs in ((mpeps.peps_from_scores, PEP_ALGS), (mq.qvalues_from_scores, Q_ALGS)):
            for alg in algs:
                try:
                    a = np.asarray(fn(sc, tg, alg), dtype=float)
                    b = np.asarray(fn(pd.Series(sc, index=idx), pd.Series(tg, index=idx), alg), dtype=float)
                    out[alg] = "same values as for arrays" if a.shape == b.shape and np.allclose(a, b, equal_nan=True) else \
                        "DIFFERENT values than for the same numbers as arrays (max |diff| %.3g)" % float(np.nanmax(np.abs(a - b)))
                except BaseException as e:  # noqa
                    if isinstance(e, (KeyboardInterrupt, MemoryError)):
                        raise
                    out[alg] = f"{type(e).__name__}: {e}"[:120]
    return out


def _int_dtype_probe():
    """Observation: qvality on integer-dtype scores (triqler writes the spline values into the score array)."""
    import numpy as np
    import warnings
    from mokapot import peps as mpeps
    rng = np.random.default_rng(6)
    n = 300
    tg = rng.random(n) < 0.5
    sc = np.round(4 * np.where(tg & (rng.random(n) < 0.5), rng.normal(3, 1, n), rng.normal(0, 1, n))).astype(np.int64)
    try:
        with np.errstate(all="ignore"), warnings.catch_warnings():
            warnings.simplefilter("ignore")
            a = np.asarray(mpeps.peps_from_scores(sc.astype(float), tg, "qvality"), dtype=float)
            b = np.asarray(mpeps.peps_from_scores(sc, tg, "qvality"), dtype=float)
        return {"distinct_pep_values_float64_scores": int(len(set(a.tolist()))), "distinct_pep_values_int64_scores": int(len(set(b.tolist()))),
                "max_abs_difference": float(np.max(np.abs(a - b))),
                "note": "same numbers, other dtype: with integer scores the PEPs are exp(integer) (still monotone, in [0,1], aligned)"}
    except BaseException as e:  # noqa
        if isinstance(e, (KeyboardInterrupt, MemoryError)):
            raise
        return {"error": f"{type(e).__name__}: {e}"[:200]}


def finding_key(c, m, i):
    """structural keys of behaviours that are reported as observations (see the evidence file)"""
    if c.get("fn") == "qvals" and c.get("alg") == "from_counts" and i is not None and i[0] == "ok" \
            and isinstance(i[1], tuple) and i[1][0] == "allinf":
        return "from_counts:best-row-decoy-gives-inf"
    if c.get("fn") in ("peps", "qvals") and _pi0_finding(c, i):
        return KEY_PI0
    if c.get("fn") == "peps" and c.get("alg") == "kde_nnls" and _order_sensitive_only_at_outliers(c, i):
        return KEY_KDE_OUTLIER
    return None


def extra_checks(ctx):
    info = {"tolerance": "1e-9 relative/absolute on every value; exact equality for monotonize_simple"}
    info["observation_from_counts_tied_scores"] = _tie_order_probe()
    info["observation_pandas_series_with_permuted_index"] = _series_probe()
    info["observation_qvality_integer_dtype_scores"] = _int_dtype_probe()
    fails = []
    pf, pinfo = _pipeline_checks(ctx)
    fails += pf
    info.update(pinfo)
    pf, pinfo = _pipeline2_checks(ctx)
    fails += pf
    info.update(pinfo)
    info["oracle_contract_checks"] = dict(STATS)
    # known finding KEY_KDE_OUTLIER: kde_nnls inputs with isolated outlier PSMs, same PSMs passed best first
    seen, hits = set(), 0
    for c in list(KDE_OUTLIER_CANDIDATES):
        h = lib.stable_hash({k: v for k, v in c.items() if k != "tags"})
        if h in seen:
            continue
        seen.add(h)
        i = impl(c)
        if _order_sensitive_only_at_outliers(c, i):
            hits += 1
            if hits == 1:
                fails.append({"what": "kde_nnls: " + str(oracle(c, i)), "key": KEY_KDE_OUTLIER, "failing_input": c})
    info["kde_nnls_inputs_with_isolated_outliers"] = {"checked_in_both_orders": len(seen), "order_sensitive_at_the_outlier_only": hits}
    info["nonfinite_results_of_estimator_cases"] = dict(NONFINITE_RESULTS)
    info["known_finding_pi0_by_slope_cases"] = {a: len(v) for a, v in PI0_FINDING_CASES.items()}
    info["library_fit_failures"] = {a: {"count": len(v), "of": ESTIMATOR_CASES.get(a, 0),
                                        "examples": sorted(set((n, m, w) for n, m, w in v))[:3]}
                                    for a, v in FIT_FAILURES.items()}
    for a, v in FIT_FAILURES.items():
        tot = ESTIMATOR_CASES.get(a, 0)
        if len(v) > max(2, 0.15 * tot):
            fails.append({"what": f"{a}: the library fit raised on {len(v)} of {tot} valid inputs "
                                  f"(e.g. n={v[0][0]}: {v[0][1]} in {v[0][2]})"})
    if STATS["contracts_checked"] == 0:
        fails.append({"what": "no oracle contract was evaluated (recording wrappers saw nothing)"})
    return fails, info
