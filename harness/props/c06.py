"""C06 — PEPs and the alternative q-value estimators: correspondence of Model/Peps.v with
mokapot.peps.peps_from_scores (qvality, kde_nnls, hist_nnls) and mokapot.qvalues.qvalues_from_scores
(from_counts, from_peps).

The numerical fits are oracles: while the REAL public function runs, wrappers record what the libraries
returned (triqler's spline values, scipy's nnls solution, the interpolation grid handed to np.interp,
np.polyfit's pi0, the order np.argsort produced, the PEPs handed to qvalues_from_peps) as exact
rationals (Fraction(float)).  The extracted model recomputes one value per PSM from the recorded data and
is compared with the implementation's floats under a 1e-9 relative/absolute tolerance.  The oracle
contracts that the theorems assume are evaluated exactly on the recorded values."""
import contextlib
import itertools
import math
from fractions import Fraction

from .. import lib

PROP = "C06"
RULE = ("(1) small scope: monotonize_simple on every weak ordering of <=5 values x both directions; np.interp on "
        "non-decreasing grids with duplicates, queries on / between / outside grid points; (2) target/decoy score "
        "vectors with 50..2000 PSMs: normal mixtures (well separated, overlapping, weak), rounded scores (ties), "
        "integer-valued scores, few-level scores; input order shuffled / sorted descending / sorted ascending / "
        "targets-first; x every selectable estimator (qvality, kde_nnls, hist_nnls, from_counts, from_peps); "
        "(3) length-mismatch inputs.  distinct = distinct (estimator, input); non-trivial = estimator case whose "
        "input is not already in descending order or has tied scores")
ASSUMPTIONS = [
    "scores and interpolation grid points reach the model as exact integers (floats scaled by one power of two per case)",
    "oracle outputs reach the model as exact rationals Fraction(float); contracts (f>=0 and equal at equal scores, d>=0, "
    "grid strictly increasing, pi0>0, argsort output a descending permutation of the rows, 0<=pep<=1) are checked on them",
    "comparison: |impl - model| <= 1e-9 * max(1, |model|) (chains of float operations: cumsum, division, interpolation)",
    "hist_nnls with pep_est[0] == 0 (0/0 -> NaN in the implementation) is Err EValue in the model and NaN on the other side",
    "qvalues_from_counts with a best-scoring decoy returns +inf for every PSM (x/0); the model reports PepAllInf",
    "an exception raised INSIDE a fitting library (np.polyfit on an empty prefix, ...) means there is nothing to "
    "post-process: such cases are counted (library_fit_failures) and must stay below 15 % per estimator; an exception "
    "raised by mokapot's own code or at the call of a library function is a disagreement",
]
TRUSTED_EXTRA = [
    "oracles (recorded, contracts checked at run time): triqler.qvality spline (input of qvality.monotonize), "
    "scipy.optimize.nnls, scipy.stats.gaussian_kde, np.polyfit (estimate_pi0_by_slope), np.histogram*, np.argsort",
    "np.interp is modelled (Model/Peps.v pep_interp_all) and validated directly against numpy in the small-scope stream",
]

TOL = Fraction(1, 10 ** 9)
PEP_ALGS = ("qvality", "kde_nnls", "hist_nnls")
Q_ALGS = ("from_counts", "from_peps")

_CACHE = {}
FIT_FAILURES = {}
ESTIMATOR_CASES = {}
STATS = {"contracts_checked": 0, "contract_failures": 0, "oracle_values_recorded": 0}


# ----------------------------------------------------------------------------- exact numbers
def fr(x):
    """exact rational of a finite float (raises on nan/inf)"""
    return Fraction(float(x))


def common_scale(*lists):
    den = 1
    for l in lists:
        for f in l:
            if f.denominator > den:
                den = f.denominator
    return den


def scaled(l, den):
    return [f.numerator * (den // f.denominator) for f in l]


# ----------------------------------------------------------------------------- recording the oracles
class Recorder:
    def __init__(self):
        self.nnls = []          # solution vectors
        self.interp = []        # (x, xp, fp)
        self.argsort = []       # (input array, result)
        self.pi0 = []
        self.mono = []          # inputs of triqler.qvality.monotonize
        self.hist_peps = []     # PEPs used by qvalues_from_peps
        self.qv_args = []       # (target scores, decoy scores, kwargs) handed to triqler
        self.bin_edges = []     # np.histogram_bin_edges results


@contextlib.contextmanager
def recording():
    """Wrap the library entry points for the duration of one call of the public API."""
    import numpy as np
    import scipy.optimize
    import triqler.qvality
    import mokapot.peps
    import mokapot.qvalues
    rec = Recorder()
    saved = []

    def patch(obj, name, new):
        if hasattr(obj, name):
            saved.append((obj, name, getattr(obj, name)))
            setattr(obj, name, new)

    real_nnls = scipy.optimize.nnls

    def nnls(*a, **k):
        r = real_nnls(*a, **k)
        rec.nnls.append(np.array(r[0], dtype=float, copy=True))
        return r

    real_interp = np.interp

    def interp(x, xp, fp, *a, **k):
        rec.interp.append((np.array(x, copy=True), np.array(xp, copy=True), np.array(fp, copy=True)))
        return real_interp(x, xp, fp, *a, **k)

    real_argsort = np.argsort

    def argsort(a, *args, **k):
        r = real_argsort(a, *args, **k)
        if getattr(a, "ndim", 0) == 1:
            rec.argsort.append((np.array(a, copy=True), np.array(r, copy=True)))
        return r

    real_pi0 = mokapot.peps.estimate_pi0_by_slope

    def pi0(*a, **k):
        r = real_pi0(*a, **k)
        rec.pi0.append(float(r))
        return r

    real_mono = triqler.qvality.monotonize

    def mono(p):
        rec.mono.append(np.array(p, dtype=float, copy=True))
        return real_mono(p)

    real_gq = triqler.qvality.getQvaluesFromScores

    def gq(t, d, *a, **k):
        rec.qv_args.append((np.array(t, dtype=float, copy=True), np.array(d, dtype=float, copy=True), dict(k), a))
        return real_gq(t, d, *a, **k)

    real_edges = np.histogram_bin_edges

    def edges(*a, **k):
        r = real_edges(*a, **k)
        rec.bin_edges.append(np.array(r, dtype=float, copy=True))
        return r

    real_hist = mokapot.peps.peps_from_scores_hist_nnls

    def hist(*a, **k):
        r = real_hist(*a, **k)
        rec.hist_peps.append(np.array(r, dtype=float, copy=True))
        return r

    try:
        patch(mokapot.peps, "nnls", nnls)
        patch(scipy.optimize, "nnls", nnls)
        patch(np, "interp", interp)
        patch(np, "argsort", argsort)
        patch(mokapot.peps, "estimate_pi0_by_slope", pi0)
        patch(mokapot.qvalues, "estimate_pi0_by_slope", pi0)
        patch(triqler.qvality, "monotonize", mono)
        patch(triqler.qvality, "getQvaluesFromScores", gq)
        patch(np, "histogram_bin_edges", edges)
        patch(mokapot.qvalues, "peps_from_scores_hist_nnls", hist)
        yield rec
    finally:
        for obj, name, old in reversed(saved):
            setattr(obj, name, old)


def _raised_in(exc):
    """'library:<file>:<function>' when the innermost frame of the traceback is library code (numpy, scipy,
    triqler: a fit that failed), 'mokapot:...' / 'call:...' when mokapot itself or the call of a library
    function raised"""
    import traceback
    tb = traceback.extract_tb(exc.__traceback__)
    if not tb:
        return "unknown"
    fr_ = tb[-1]
    fn = fr_.filename.replace("\\", "/")
    short = "/".join(fn.split("/")[-2:])
    if fn == __file__.replace("\\", "/") or fn.endswith("harness/props/c06.py"):
        return f"call:{fr_.name}"
    if "/mokapot/" in fn:
        return f"mokapot:{short}:{fr_.name}"
    if fr_.name in ("interp", "argsort", "clip", "cumsum", "flip"):
        return f"call:{short}:{fr_.name}"          # numpy bookkeeping that the model covers, not a fit
    return f"library:{short}:{fr_.name}"


def _arrays(c):
    import numpy as np
    sc = np.array(c["scores"], dtype=float)
    tg = np.array([bool(v) for v in c["targets"]], dtype=bool)
    return sc, tg


def _run(c):
    """Run the real public API once with recording; cached per case."""
    key = lib.stable_hash({k: v for k, v in c.items() if k != "tags"})
    if key in _CACHE:
        return _CACHE[key]
    import numpy as np
    from mokapot import peps as mpeps, qvalues as mq
    sc, tg = _arrays(c)
    sc0 = sc.copy()
    res = {"out": None, "err": None, "rec": None, "mutated": False}
    import warnings
    with recording() as rec, np.errstate(all="ignore"), warnings.catch_warnings():
        warnings.simplefilter("ignore")
        try:
            if c["fn"] == "peps":
                out = mpeps.peps_from_scores(sc, tg, c["alg"])
            else:
                out = mq.qvalues_from_scores(sc, tg, c["alg"])
            res["out"] = [float(v) for v in np.asarray(out, dtype=float).ravel()]
        except BaseException as e:   # noqa: triqler calls sys.exit on empty classes
            if isinstance(e, (KeyboardInterrupt, MemoryError)):
                raise
            res["err"] = "SystemExit" if isinstance(e, SystemExit) else lib.err_kind(e)
            res["msg"] = f"{type(e).__name__}: {e}"[:200]
            res["where"] = _raised_in(e)
    res["rec"] = rec
    res["mutated"] = not np.array_equal(sc, sc0)
    _CACHE[key] = res
    return res


# ----------------------------------------------------------------------------- oracle extraction + contracts
class Contract(Exception):
    pass


def _need(cond, msg):
    STATS["contracts_checked"] += 1
    if not cond:
        STATS["contract_failures"] += 1
        raise Contract(msg)


def _fracs(arr, what):
    out = []
    for v in arr:
        v = float(v)
        if v != v or v in (math.inf, -math.inf):
            STATS["contract_failures"] += 1
            raise Contract(f"oracle {what} returned a non-finite value")
        out.append(Fraction(v))
    STATS["oracle_values_recorded"] += len(out)
    return out


def _find_interp(rec, sc):
    import numpy as np
    for x, xp, fp in reversed(rec.interp):
        if x.shape == sc.shape and np.array_equal(x, sc):
            return xp, fp
    return None


def _find_argsort(rec, sc):
    import numpy as np
    for a, r in reversed(rec.argsort):
        if a.shape == sc.shape and np.array_equal(a, -sc) and len(rec.argsort) > 0:
            return r
    return None


def _sorted_rows_contract(sc_fr, tg, ind, what):
    n = len(sc_fr)
    _need(ind is not None, f"{what}: no np.argsort(-scores) call was observed")
    ind = [int(i) for i in ind]
    _need(sorted(ind) == list(range(n)), f"{what}: argsort result is not a permutation of range(n)")
    ss = [sc_fr[i] for i in ind]
    _need(all(ss[i] >= ss[i + 1] for i in range(n - 1)), f"{what}: rows are not in descending score order")
    return ind


def oracles(c, run):
    """-> dict with the exact oracle data of the case (raises Contract)"""
    sc, tg = _arrays(c)
    rec = run["rec"]
    sc_fr = [Fraction(float(v)) for v in sc]
    tgl = [bool(v) for v in tg]
    n = len(sc_fr)
    alg = c["alg"]
    if alg == "qvality":
        _need(len(rec.mono) >= 1, "qvality: triqler.qvality.monotonize was not called")
        _need(len(rec.qv_args) >= 1, "qvality: triqler.qvality.getQvaluesFromScores was not called")
        qt, qd, qk, qa = rec.qv_args[-1]
        _need(sorted(qt.tolist()) == sorted(float(v) for v, t in zip(sc, tgl) if t)
              and sorted(qd.tolist()) == sorted(float(v) for v, t in zip(sc, tgl) if not t),
              "qvality: triqler was not given (scores[targets], scores[~targets])")
        _need(qk.get("includeDecoys") is True and not qa, "qvality: triqler was not asked for one value per PSM (includeDecoys=True)")
        fs = _fracs(rec.mono[-1], "triqler spline")
        _need(len(fs) == n, "qvality: the spline returned a value count different from the number of PSMs")
        _need(all(v >= 0 for v in fs), "qvality: spline value f < 0")
        ss = sorted(sc_fr, reverse=True)
        _need(all(fs[i] == fs[i + 1] for i in range(n - 1) if ss[i] == ss[i + 1]),
              "qvality: the spline gave different values to equal scores")
        return {"fs": fs, "scores": sc_fr, "den": common_scale(sc_fr)}
    if alg in ("kde_nnls", "hist_nnls"):
        _need(len(rec.nnls) >= 1, f"{alg}: scipy.optimize.nnls was not called")
        d = _fracs(rec.nnls[-1], "nnls")
        _need(all(v >= 0 for v in d), f"{alg}: nnls solution has a negative component")
        it = _find_interp(rec, sc)
        _need(it is not None, f"{alg}: no np.interp(scores, grid, est) call was observed")
        grid = _fracs(it[0], "interpolation grid")
        _need(all(grid[i] < grid[i + 1] for i in range(len(grid) - 1)), f"{alg}: np.interp was given a grid (xp) that is not strictly increasing")
        _need(len(grid) == len(d), f"{alg}: grid and nnls solution differ in length")
        rel = Fraction(1, 10 ** 12)
        if alg == "hist_nnls":
            _need(len(rec.bin_edges) >= 1, "hist_nnls: np.histogram_bin_edges was not called")
            be = _fracs(rec.bin_edges[0], "histogram bin edges")
            _need(len(be) == len(grid) + 1 and all(abs(grid[i] - (be[i] + be[i + 1]) / 2) <= rel * max(1, abs(grid[i]))
                                                   for i in range(len(grid))),
                  "hist_nnls: the interpolation grid is not the bin centres of np.histogram_bin_edges(scores)")
            _need(be[0] <= min(sc_fr) and max(sc_fr) <= be[-1], "hist_nnls: the bins do not cover the scores")
        else:
            _need(len(grid) == 500 and grid[0] == min(sc_fr) and grid[-1] == max(sc_fr),
                  "kde_nnls: the evaluation grid is not 500 points from min(scores) to max(scores)")
            step = (grid[-1] - grid[0]) / (len(grid) - 1)
            _need(all(abs(grid[i] - (grid[0] + i * step)) <= rel * max(1, abs(grid[-1]), abs(grid[0])) for i in range(len(grid))),
                  "kde_nnls: the evaluation grid is not equally spaced")
        return {"d": d, "grid": grid, "scores": sc_fr, "den": common_scale(sc_fr, grid), "fp": it[1]}
    if alg == "from_counts":
        _need(len(rec.pi0) >= 1, "from_counts: estimate_pi0_by_slope was not called")
        pi0 = _fracs([rec.pi0[-1]], "pi0 (np.polyfit)")[0]
        _need(pi0 > 0, "from_counts: pi0 <= 0")
        ind = _sorted_rows_contract(sc_fr, tgl, _find_argsort(rec, sc), "from_counts")
        return {"pi0": pi0, "ind": ind, "scores": sc_fr, "den": common_scale(sc_fr)}
    if alg == "from_peps":
        _need(len(rec.hist_peps) >= 1, "from_peps: peps_from_scores_hist_nnls was not called")
        pp = _fracs(rec.hist_peps[-1], "PEPs for qvalues_from_peps")
        _need(len(pp) == n, "from_peps: PEP vector has the wrong length")
        _need(all(0 <= v <= 1 for v in pp), "from_peps: PEP outside [0, 1]")
        ind = _sorted_rows_contract(sc_fr, tgl, _find_argsort(rec, sc), "from_peps")
        return {"peps": pp, "ind": ind, "scores": sc_fr, "den": common_scale(sc_fr)}
    raise Contract("unknown algorithm")


def _oracles_or_none(c, run):
    if run["rec"] is None:
        return None, "no recording"
    if run["err"] is not None:
        return None, "the implementation raised before returning"
    if "orc" not in run:
        try:
            run["orc"] = (oracles(c, run), None)
        except Contract as e:
            run["orc"] = (None, str(e))
        except Exception as e:  # a recording that cannot be interpreted
            run["orc"] = (None, f"oracle extraction failed: {type(e).__name__}: {e}")
    return run["orc"]


# ----------------------------------------------------------------------------- generation
def _scores(rng, n, shape):
    """-> (scores, targets) lists; floats"""
    ft = rng.choice([0.35, 0.5, 0.65])
    tg = [1 if rng.random() < ft else 0 for _ in range(n)]
    # make sure both classes are reasonably populated
    for j in range(12):
        tg[j] = j % 2
    rng.shuffle(tg)
    sep = {"separated": 5.0, "mix": 3.0, "weak": 1.0}.get(shape, 3.0)
    sc = []
    for t in tg:
        if t and rng.random() < 0.55:
            s = rng.gauss(sep, 1.0)
        else:
            s = rng.gauss(0.0, 1.0)
        sc.append(s)
    if shape == "rounded":
        sc = [round(s, 1) for s in sc]
    elif shape == "integer":
        sc = [float(round(s * 4)) for s in sc]
    elif shape == "levels":
        sc = [float(round(s)) / 2 for s in sc]
    elif shape == "half-ties":
        pool = sc[: max(5, n // 4)]
        sc = [rng.choice(pool) if rng.random() < 0.5 else s for s in sc]
    return sc, tg


def _order(rng, sc, tg, order):
    idx = list(range(len(sc)))
    if order == "shuffled":
        rng.shuffle(idx)
    elif order == "desc":
        idx.sort(key=lambda j: -sc[j])
    elif order == "asc":
        idx.sort(key=lambda j: sc[j])
    elif order == "targets-first":
        idx.sort(key=lambda j: -tg[j])
    elif order == "targets-desc-then-decoys-desc":      # each class best first, but not globally sorted
        idx.sort(key=lambda j: (-tg[j], -sc[j]))
    elif order == "decoys-desc-then-targets-desc":
        idx.sort(key=lambda j: (tg[j], -sc[j]))
    elif order == "class-sorted-interleaved":           # the targets and the decoys are each in descending order
        t = sorted((j for j in idx if tg[j]), key=lambda j: -sc[j])
        d = sorted((j for j in idx if not tg[j]), key=lambda j: -sc[j])
        idx = []
        while t or d:
            src = t if (t and (not d or rng.random() < 0.5)) else d
            idx.append(src.pop(0))
    elif order == "desc-one-swap":                      # descending except for one exchanged pair
        idx.sort(key=lambda j: -sc[j])
        if len(idx) > 3:
            a = rng.randrange(len(idx) - 1)
            b = rng.randrange(len(idx))
            idx[a], idx[b] = idx[b], idx[a]
    return [sc[j] for j in idx], [tg[j] for j in idx]


SHAPES = ("mix", "separated", "weak", "rounded", "integer", "levels", "half-ties")
ORDERS = ("shuffled", "desc", "asc", "targets-first", "targets-desc-then-decoys-desc", "decoys-desc-then-targets-desc",
          "class-sorted-interleaved", "desc-one-swap")


def weak_orderings(n):
    for v in itertools.product(range(n), repeat=n):
        if set(v) == set(range(max(v) + 1)):
            yield v


def gen(ctx):
    cases = []
    # (1a) monotonize_simple: exhaustive small scope
    for n in range(0, 6 if ctx.thorough else 5):
        for w in (weak_orderings(n) if n else [()]):
            for asc in (True, False):
                cases.append({"fn": "mono", "x": [float(v) / 4 for v in w], "asc": asc, "tags": ["mono", f"n={n}"]})
    rng = ctx.sub("mono")
    for _ in range(60 if ctx.thorough else 20):
        n = rng.randint(1, 40)
        cases.append({"fn": "mono", "x": [rng.choice([rng.gauss(0, 1), float(rng.randint(-3, 3))]) for _ in range(n)],
                      "asc": rng.random() < 0.5, "tags": ["mono", "random"]})
    # (1b) np.interp against the model of it
    rng = ctx.sub("interp")
    for k in range(400 if ctx.thorough else 120):
        m = rng.randint(1, 9)
        dup = rng.random() < 0.5
        xp = sorted((float(rng.randint(0, 8)) if dup else rng.gauss(0, 2)) for _ in range(m))
        if not dup:
            xp = sorted(set(xp))
        fp = [rng.choice([rng.gauss(0, 1), float(rng.randint(0, 3))]) for _ in xp]
        if rng.random() < 0.5:
            fp = sorted(fp, reverse=rng.random() < 0.7)
        xs = []
        for _ in range(rng.randint(1, 12)):
            r = rng.random()
            if r < 0.4:
                xs.append(rng.choice(xp))
            elif r < 0.8:
                xs.append(rng.uniform(min(xp) - 1, max(xp) + 1))
            else:
                a = rng.choice(xp)
                xs.append((a + rng.choice(xp)) / 2)
        cases.append({"fn": "interp", "xp": xp, "fp": fp, "x": xs,
                      "tags": ["interp", "dup-grid" if len(set(xp)) < len(xp) else "strict-grid"]})
    cases.append({"fn": "interp", "xp": [], "fp": [], "x": [1.0], "tags": ["interp", "malformed"]})
    cases.append({"fn": "interp", "xp": [1.0, 2.0], "fp": [1.0], "x": [1.0], "tags": ["interp", "malformed"]})
    # (2) estimators
    rng = ctx.sub("estimators")
    sizes_quick = [50, 80, 130, 200, 320, 500]
    combos = [(s, o) for s in SHAPES for o in ORDERS]
    rounds = 5 if ctx.thorough else 1
    for r in range(rounds):
        rng.shuffle(combos)
        for k, (shape, order) in enumerate(combos):
            if ctx.thorough:
                n = rng.choice([50, 64, 100, 150, 250, 400, 700, 1000, 1500, 2000])
            else:
                n = sizes_quick[k % len(sizes_quick)] if k % 14 else 2000
            sc, tg = _scores(rng, n, shape)
            sc, tg = _order(rng, sc, tg, order)
            for alg in PEP_ALGS + Q_ALGS:
                cases.append({"fn": "peps" if alg in PEP_ALGS else "qvals", "alg": alg, "scores": sc, "targets": tg,
                              "tags": ["estimator", alg, "shape=" + shape, "order=" + order,
                                       "n<=100" if n <= 100 else "n<=500" if n <= 500 else "n<=2000"]})
    # best-scoring row is a decoy / a target explicitly (from_counts division by zero)
    for top in (0, 1):
        for _ in range(4 if ctx.thorough else 2):
            n = rng.choice([60, 120, 300])
            sc, tg = _scores(rng, n, "mix")
            j = max(range(n), key=lambda i: sc[i])
            tg[j] = top
            for alg in Q_ALGS:
                cases.append({"fn": "qvals", "alg": alg, "scores": sc, "targets": tg,
                              "tags": ["estimator", alg, "top-is-target" if top else "top-is-decoy"]})
    # (3) length mismatch
    for alg in PEP_ALGS + Q_ALGS:
        sc, tg = _scores(rng, 60, "mix")
        cases.append({"fn": "peps" if alg in PEP_ALGS else "qvals", "alg": alg, "scores": sc, "targets": tg[:-3],
                      "tags": ["malformed", "length-mismatch", alg]})
    return cases


# ----------------------------------------------------------------------------- model side
def _bools(l):
    return lib.lst([bool(v) for v in l], lib.b)


def encode(c):
    fn = c["fn"]
    if fn == "mono":
        return "c06.mono %s %s" % (lib.b(c["asc"]), lib.lst([fr(v) for v in c["x"]], lib.q))
    if fn == "interp":
        xp, xs = [fr(v) for v in c["xp"]], [fr(v) for v in c["x"]]
        den = common_scale(xp, xs)
        return "c06.interp %s %s %s" % (lib.lst(scaled(xp, den)), lib.lst([fr(v) for v in c["fp"]], lib.q),
                                        lib.lst(scaled(xs, den)))
    run = _run(c)
    alg = c["alg"]
    sc_fr = [Fraction(float(v)) for v in c["scores"]]
    tg = c["targets"]
    if len(sc_fr) != len(tg):
        # the model rejects before it looks at any oracle data
        z = lib.lst(scaled(sc_fr, common_scale(sc_fr)))
        if alg == "qvality":
            return f"c06.qvality {z} {_bools(tg)} 0"
        if alg in ("kde_nnls", "hist_nnls"):
            return f"c06.nnls {lib.b(alg == 'hist_nnls')} {z} {_bools(tg)} 0 0"
        if alg == "from_counts":
            return f"c06.counts {z} {_bools(tg)} 0 b1 b1"
        return f"c06.frompeps {z} {_bools(tg)} 0"
    orc, why = _oracles_or_none(c, run)
    if orc is None:
        return "c06.skip"
    den = orc["den"]
    z = lib.lst(scaled(sc_fr, den))
    if alg == "qvality":
        return f"c06.qvality {z} {_bools(tg)} {lib.lst(orc['fs'], lib.q)}"
    if alg in ("kde_nnls", "hist_nnls"):
        return "c06.nnls %s %s %s %s %s" % (lib.b(alg == "hist_nnls"), z, _bools(tg),
                                            lib.lst(scaled(orc["grid"], den)), lib.lst(orc["d"], lib.q))
    zs = scaled(sc_fr, den)
    if alg == "from_counts":
        srt = lib.lst([(zs[i], bool(tg[i])) for i in orc["ind"]], lib.pair(lib.z, lib.b))
        return f"c06.counts {z} {_bools(tg)} {srt} {lib.q(orc['pi0'])}"
    srt = lib.lst([(zs[i], (bool(tg[i]), orc["peps"][i])) for i in orc["ind"]],
                  lib.pair(lib.z, lib.pair(lib.b, lib.q)))
    return f"c06.frompeps {z} {_bools(tg)} {srt}"


def decode(c, t):
    fn = c["fn"]
    if fn == "mono":
        return t.lst(t.q)
    if fn == "interp":
        return t.result(lambda: t.lst(t.q))
    if t.t[:1] == ["SKIP"]:
        return ("no-oracle",)
    if c["alg"] == "from_counts":
        def qout():
            if t.raw() == "0":
                return ("finite", t.lst(t.q))
            return ("allinf", t.nat())
        return t.result(qout)
    return t.result(lambda: t.lst(t.q))


# ----------------------------------------------------------------------------- implementation side
def _canon_floats(vals):
    """list of floats -> canonical form: finite -> list of Fractions; all +inf -> ('allinf', n); else ('nonfinite', ...)"""
    if vals and all(v == math.inf for v in vals):
        return ("allinf", len(vals))
    if any(v != v for v in vals):
        return ("nan", len(vals))
    if any(v in (math.inf, -math.inf) for v in vals):
        return ("mixed-inf", len(vals))
    return ("finite", [Fraction(v) for v in vals])


def impl(c):
    import numpy as np
    fn = c["fn"]
    if fn == "mono":
        from mokapot import peps as mpeps
        return [Fraction(float(v)) for v in mpeps.monotonize_simple(np.array(c["x"], dtype=float), c["asc"])]
    if fn == "interp":
        def f():
            return [Fraction(float(v)) for v in np.interp(np.array(c["x"], dtype=float), np.array(c["xp"], dtype=float),
                                                          np.array(c["fp"], dtype=float))]
        return lib.call_impl(f)
    run = _run(c)
    if len(c["scores"]) == len(c["targets"]):
        ESTIMATOR_CASES[c["alg"]] = ESTIMATOR_CASES.get(c["alg"], 0) + 1
    if run["err"] is not None:
        if len(c["scores"]) == len(c["targets"]) and str(run.get("where", "")).startswith("library:"):
            FIT_FAILURES.setdefault(c["alg"], []).append((len(c["scores"]), run["msg"], run["where"]))
            return ("fit-failed", run["err"], run["where"])
        return ("err", run["err"])
    if run["mutated"]:
        return ("input-mutated",)
    if len(c["scores"]) == len(c["targets"]):
        orc, why = _oracles_or_none(c, run)
        if orc is None:
            return ("contract", why)
    canon = _canon_floats(run["out"])
    if c["alg"] == "from_counts":
        return ("ok", canon)
    if canon[0] == "finite":
        return ("ok", canon[1])
    return ("ok", canon)


def _close(a, b):
    return abs(a - b) <= TOL * max(1, abs(b))


def _close_list(i, m):
    return len(i) == len(m) and all(_close(a, b) for a, b in zip(i, m))


def same(c, m, i):
    fn = c["fn"]
    if fn == "mono":
        return list(m) == list(i)          # max / min are exact on floats
    if fn == "interp":
        if m[0] != i[0]:
            return False
        return m[1] == i[1] if m[0] == "err" else _close_list(i[1], m[1])
    if i[0] == "fit-failed":
        return m == ("no-oracle",)      # the library fit raised: nothing to post-process (counted, bounded in extra_checks)
    if m[0] != i[0]:
        # hist_nnls: 0/0 -> NaN in the implementation, Err EValue in the model
        return (c["alg"] == "hist_nnls" and m == ("err", "ValueError") and i[0] == "ok"
                and isinstance(i[1], tuple) and i[1][0] == "nan")
    if m[0] == "err":
        return m[1] == i[1]
    if m[0] != "ok":
        return False
    if c["alg"] == "from_counts":
        if m[1][0] != i[1][0]:
            return False
        return m[1][1] == i[1][1] if m[1][0] == "allinf" else _close_list(i[1][1], m[1][1])
    if isinstance(i[1], tuple):
        return False
    return _close_list(i[1], m[1])


def nontrivial(c):
    if c["fn"] in ("mono", "interp"):
        return len(c.get("x", [])) >= 2
    sc = c["scores"]
    if len(sc) != len(c["targets"]):
        return True
    return len(set(sc)) < len(sc) or any(sc[j] < sc[j + 1] for j in range(len(sc) - 1))


# ----------------------------------------------------------------------------- the property on the implementation's output
def _valid(c):
    tg = c["targets"]
    return (len(c["scores"]) == len(tg) and len(tg) >= 50 and sum(1 for t in tg if t) >= 12
            and sum(1 for t in tg if not t) >= 12)


def oracle(c, i):
    fn = c["fn"]
    if fn == "mono":
        x = [Fraction(float(v)) for v in c["x"]]
        exp, cur = [], None
        for v in x:
            cur = v if cur is None else (max(cur, v) if c["asc"] else min(cur, v))
            exp.append(cur)
        return None if list(i) == exp else f"monotonize_simple({c['x']}, {c['asc']}) is not the running {'max' if c['asc'] else 'min'}"
    if fn == "interp" or not _valid(c):
        return None
    alg = c["alg"]
    call = (f"mokapot.peps.peps_from_scores(scores, targets, {alg!r})" if fn == "peps"
            else f"mokapot.qvalues.qvalues_from_scores(scores, targets, {alg!r})")
    if i[0] == "fit-failed":
        return None
    if i[0] == "err":
        run = _run(c)
        return f"{call} raised {run.get('msg', i[1])} on a valid input ({len(c['scores'])} PSMs with targets and decoys)"
    if i[0] == "contract":
        return f"{call}: oracle contract broken: {i[1]}"
    if i[0] != "ok":
        return f"{call}: {i[0]}"
    v = i[1]
    sc = c["scores"]
    n = len(sc)
    if fn == "qvals" and isinstance(v, tuple):
        if v[0] == "allinf":
            return None            # +inf is non-negative and monotone (reported separately as an observation)
        if v[0] != "finite":
            return f"{call} returned non-finite values ({v[0]})"
        v = v[1]
    if isinstance(v, tuple):
        return f"{call} returned non-finite values ({v[0]})"
    if len(v) != n:
        return f"{call} returned {len(v)} values for {n} PSMs"
    slack = Fraction(1, 10 ** 12)
    for j in range(n):
        if v[j] < 0 or (fn == "peps" and v[j] > 1):
            return f"{call}: value {float(v[j])!r} of PSM {j} is outside {'[0,1]' if fn == 'peps' else '[0,inf)'}"
    order = sorted(range(n), key=lambda j: -sc[j])
    for a, b in zip(order, order[1:]):
        if sc[a] == sc[b] and v[a] != v[b]:
            return (f"{call}: PSMs {a} and {b} have the same score {sc[a]!r} but different values "
                    f"{float(v[a])!r} / {float(v[b])!r}")
        if v[b] < v[a] - slack:
            return (f"{call}: the value decreases as the score worsens: PSM {a} (score {sc[a]!r}) has "
                    f"{float(v[a])!r}, PSM {b} (score {sc[b]!r}) has {float(v[b])!r}")
    # "whatever the input order": the same PSMs presented in descending order get the same values
    # (qvalues_from_counts reads the FDR of a tie group at whichever member np.argsort lists first, so with tied
    #  scores its values legitimately depend on the row order: compared only when all scores are distinct)
    if any(sc[a] < sc[b] for a, b in zip(range(n), range(1, n))) and (alg != "from_counts" or len(set(sc)) == n):
        cs = dict(c, scores=[sc[j] for j in order], targets=[c["targets"][j] for j in order])
        r2 = _run(cs)
        if r2["err"] is None and r2["out"] is not None and len(r2["out"]) == n and all(x == x and abs(x) != math.inf for x in r2["out"]):
            for pos, j in enumerate(order):
                if abs(float(v[j]) - r2["out"][pos]) > 1e-6 * max(1.0, abs(r2["out"][pos])):
                    return (f"{call}: PSM {j} (score {sc[j]!r}) gets {float(v[j])!r}, but {r2['out'][pos]!r} when the same PSMs "
                            f"are passed in descending score order — the i-th value does not belong to the i-th input PSM")
    return None


def shrink(c):
    if c["fn"] not in ("peps", "qvals"):
        return
    n = len(c["scores"])
    if len(c["targets"]) != n:
        return
    size = n // 2
    while size >= 1:
        for start in range(0, n, size):
            sc = c["scores"][:start] + c["scores"][start + size:]
            tg = c["targets"][:start] + c["targets"][start + size:]
            if len(tg) >= 50 and sum(tg) >= 15 and len(tg) - sum(tg) >= 15:
                yield dict(c, scores=sc, targets=tg)
        size //= 2
        if size < max(1, n // 16):
            break


# ----------------------------------------------------------------------------- the PEP column of result files
def _pipeline_levels(n, alg, seed, tmp, desc=True):
    """Run mokapot.assign_confidence on a small PIN-like table (rows in arbitrary order) and return, per level,
    the rows of targets.<level> + decoys.<level> as (score, is_target, posterior_error_prob)."""
    import copy
    from pathlib import Path
    import numpy as np
    import pandas as pd
    from mokapot import OnDiskPsmDataset, assign_confidence
    rng = np.random.default_rng(seed)
    tg = rng.random(n) < 0.5
    sc = np.where(tg & (rng.random(n) < 0.5), rng.normal(3, 1, n), rng.normal(0, 1, n))
    sc = np.round(sc, 2)   # some ties
    df = pd.DataFrame({
        "specid": np.arange(n), "target": tg.astype(int), "scannr": np.arange(n),
        "calcmass": rng.uniform(500, 2000, n), "expmass": np.arange(n) + 500.5,
        "peptide": ["PEP%dK" % i for i in range(n)], "proteins": ["_dummy"] * n,
        # lower-is-better variant: the feature is the negated score and descs=[False]; the result files then
        # hold the ranking score (negated feature) again
        "score": sc if desc else -sc,
        "filename": "t.mzML", "ret_time": rng.uniform(0, 100, n), "charge": rng.choice([2, 3], n)})
    df = df.sample(frac=1, random_state=seed)
    pin = Path(tmp) / "t.pin"
    df.to_csv(pin, sep="\t", index=False)
    psms = OnDiskPsmDataset(
        filename=pin, target_column="target", spectrum_columns=["scannr", "expmass"], peptide_column="peptide",
        feature_columns=["score"], filename_column="filename", scan_column="scannr", calcmass_column="calcmass",
        expmass_column="expmass", rt_column="ret_time", charge_column="charge", columns=list(df.columns),
        protein_column="proteins", metadata_columns=["specid", "scannr", "expmass", "peptide", "proteins", "target"],
        metadata_column_types=["int", "int", "float", "string", "string", "int"], level_columns=["peptide"],
        specId_column="specid", spectra_dataframe=df[["scannr", "expmass", "target"]])
    assign_confidence([psms], prefixes=[None], descs=[bool(desc)], dest_dir=Path(tmp), max_workers=1, eval_fdr=0.5,
                      decoys=True, peps_algorithm=alg)
    out = {}
    for lvl in ("psms", "peptides"):
        rows = []
        for fname, is_t in ((f"targets.{lvl}", True), (f"decoys.{lvl}", False)):
            d = pd.read_csv(Path(tmp) / fname, sep="\t")
            rows += [(float(a), is_t, float(b)) for a, b in zip(d["score"], d["posterior_error_prob"])]
        out[lvl] = rows
    return out


def _pipeline_checks(ctx):
    """posterior_error_prob column of the result files: every row's PEP is the model's value for that row."""
    import tempfile
    fails, nrows, nfiles = [], 0, 0
    rng = ctx.sub("pipeline")
    reps = 3 if ctx.thorough else 1
    for alg in PEP_ALGS:
        for r in range(2 * reps):
            n = rng.choice([200, 300, 500])
            seed = rng.randrange(10 ** 6)
            desc = (r % 2 == 0)
            what = f"assign_confidence(peps_algorithm={alg!r}, descs=[{desc}]) on {n} PSMs (table seed {seed})"
            try:
                with tempfile.TemporaryDirectory() as tmp:
                    levels = _pipeline_levels(n, alg, seed, tmp, desc)
            except BaseException as e:  # noqa
                if isinstance(e, (KeyboardInterrupt, MemoryError)):
                    raise
                fails.append({"what": f"{what} raised {type(e).__name__}: {e}"[:300]})
                continue
            for lvl, rows in levels.items():
                nfiles += 2
                rows.sort(key=lambda t: -t[0])        # the order the level file has inside assign_confidence
                case = {"fn": "peps", "alg": alg, "scores": [a for a, _, _ in rows], "targets": [int(t) for _, t, _ in rows],
                        "tags": ["pipeline", alg, lvl]}
                col = [Fraction(p) if p == p else None for _, _, p in rows]
                m = decode(case, lib.Toks(lib.run_driver([encode(case)])[0]))
                i = impl(case)
                msg = None
                if not same(case, m, i):
                    msg = f"model and peps_from_scores disagree on the rows of the {lvl} files"
                elif m[0] != "ok":
                    msg = None if i[0] == "fit-failed" else f"no PEPs for the rows of the {lvl} files: {i!r}"[:200]
                elif len(col) != len(m[1]) or any(c is None or not _close(c, b) for c, b in zip(col, m[1])):
                    bad = [j for j, (c, b) in enumerate(zip(col, m[1])) if c is None or not _close(c, b)][:1]
                    j = bad[0] if bad else -1
                    msg = (f"posterior_error_prob column of the {lvl} files is not aligned with its rows: row with score "
                           f"{rows[j][0]!r} has {rows[j][2]!r}, the estimator's value for that score is {float(m[1][j])!r}")
                else:
                    msg = oracle(case, ("ok", col))
                    nrows += len(col)
                if msg:
                    fails.append({"what": f"{what}: {msg}", "failing_input": case})
    return fails, {"pipeline_result_files_checked": nfiles, "pipeline_rows_checked": nrows}


def _tie_order_probe():
    """Observation (reported, not a verdict): qvalues_from_counts on the same PSMs with two tied rows exchanged."""
    import numpy as np
    import mokapot.qvalues as mq
    saved = mq.estimate_pi0_by_slope
    try:
        mq.estimate_pi0_by_slope = lambda *a, **k: 1.0
        sc = np.array([9.0, 8.0, 7.0, 7.0, 6.0, 5.0])
        tg = np.array([True, True, True, False, False, True])
        sw = [0, 1, 3, 2, 4, 5]
        with np.errstate(all="ignore"):
            q1 = mq.qvalues_from_counts(sc, tg)
            q2 = mq.qvalues_from_counts(sc[sw], tg[sw])
        return {"scores": sc.tolist(), "targets": tg.tolist(), "q": [float(v) for v in q1],
                "q_with_tied_rows_exchanged": [float(v) for v in q2], "depends_on_row_order": bool(q1[2] != q2[2]),
                "finding_key": "from_counts:tie-order-dependent"}
    except Exception as e:  # noqa
        return {"error": f"{type(e).__name__}: {e}"[:200]}
    finally:
        mq.estimate_pi0_by_slope = saved


def finding_key(c, m, i):
    """structural keys of behaviours that are reported as observations (see the evidence file)"""
    if c.get("fn") == "qvals" and c.get("alg") == "from_counts" and i is not None and i[0] == "ok" \
            and isinstance(i[1], tuple) and i[1][0] == "allinf":
        return "from_counts:best-row-decoy-gives-inf"
    return None


def extra_checks(ctx):
    info = {"tolerance": "1e-9 relative/absolute on every value; exact equality for monotonize_simple"}
    info["observation_from_counts_tied_scores"] = _tie_order_probe()
    fails = []
    pf, pinfo = _pipeline_checks(ctx)
    fails += pf
    info.update(pinfo)
    info["oracle_contract_checks"] = dict(STATS)
    info["library_fit_failures"] = {a: {"count": len(v), "of": ESTIMATOR_CASES.get(a, 0),
                                        "examples": sorted(set((n, m, w) for n, m, w in v))[:3]}
                                    for a, v in FIT_FAILURES.items()}
    for a, v in FIT_FAILURES.items():
        tot = ESTIMATOR_CASES.get(a, 0)
        if len(v) > max(2, 0.15 * tot):
            fails.append({"what": f"{a}: the library fit raised on {len(v)} of {tot} valid inputs "
                                  f"(e.g. n={v[0][0]}: {v[0][1]} in {v[0][2]})"})
    if STATS["contracts_checked"] == 0:
        fails.append({"what": "no oracle contract was evaluated (recording wrappers saw nothing)"})
    return fails, info
