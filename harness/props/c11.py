"""C11 — per-fold score calibration: Model/Calibrate.v (+ Model/CalibrateD.v for the desc argument) against
mokapot.dataset.calibrate_scores, OnDiskPsmDataset.calibrate_scores and the scores returned by the real brew
(fold membership recovered with the recording scaler)."""
import itertools
import os
import random
import shutil
import tempfile
from fractions import Fraction

from .. import lib, brewlib
from ..lib import Toks, call_impl
from . import c02

PROP = "C11"
RULE = ("(1) calibrate_scores called directly: exhaustive over all score vectors in {0..3}^n x label vectors for n<=4 "
        "(quick) / n<=5 (thorough) at thresholds 0.25/0.5/1.0, plus random integer/half-integer vectors up to n=200, exact affine "
        "images of them (offsets +-2^40, 1e6, 1e9, small negative offsets giving mixed signs, scales 2^-200..2^60), a few vectors of "
        "800-2500 rows; the same with desc=False (exhaustive n<=3 / n<=4, random; passed by position and by keyword; model "
        "Model/CalibrateD.v) and desc=True given explicitly; every container the signature admits: scores as float64 / float32 / int64 "
        "arrays, non-contiguous views, pandas Series with default, permuted, gapped and string row labels; targets as bool / 0-1 int / "
        "0-1 float arrays and bool / int Series with row labels that differ from those of the scores (the pairing is positional); "
        "eval_fdr as float, numpy float64, the int 1 and 0.0; "
        "(2) OnDiskPsmDataset.calibrate_scores (targets read from the file: tsv / Parquet, labels -1/1, 0/1, bool; it always raised before /repo 93b7f44) "
        "compared exactly with the model; (3) real brew runs (as C02: 1-3 files, folds 2-6 and 10-13, chunk sizes, workers, decision_function "
        "and predict_proba estimators, several test_fdr incl. ones at which a fold accepts nothing); runs whose feature values are "
        "exact affine images of the generated integers (large offsets, negative and mixed-sign values, half-integers, tiny / huge "
        "scales; integer images in tsv, dyadic ones in Parquet), whose estimator returns float32 or int64 decision values, all three "
        "label encodings, several prediction chunks; runs with a list of previously trained fold models (given in rotated order); "
        "runs with one previously trained model that gets worse when re-fitted (brew then scores each file with the original model "
        "and calibrates per file through OnDiskPsmDataset.calibrate_scores); runs whose estimator has BOTH decision_function and "
        "predict_proba returning different values (predict_proba = the squared column, another feature column, the negated column, a "
        "logistic image; of shape (n,2), (n,1), (n,)) — the decision function's values are the raw scores —, estimators with "
        "decision_function only and with predict_proba only (all three shapes; returned as they are), the two-method estimators also "
        "in the list of previously trained fold models and as the previously trained model brew falls back to: returned scores compared exactly "
        "with the model's calibrated rationals. non-trivial: direct = has both targets and decoys and a tie or a decoy above a "
        "target; brew = the run returned scores from a decision_function estimator and every (file, fold) group had an accepted "
        "target above its decoy median so that the anchored map was compared value by value, or brew stopped with the calibration "
        "error and the model, recomputing the calibration from the columns the fold models learned, confirms a fold without an "
        "accepted target")
ASSUMPTIONS = [
    "raw scores are integers or half-integers (exact in the model); (s-t)/(t-d) is a single correctly rounded division, compared exactly",
    "float32 inputs / float32 decision values: numpy computes the same expression in float32; the model's rational is rounded to "
    "float32 (through float64: no double-rounding error is possible for operands below 2^12)",
    "non-finite results (no decoy in a fold, t = d) are reported by the code as nan/inf and by the model as Err EType; both map to 'NonFinite'",
    "desc=False has no meaning in the property text (brew never passes it); it is checked against the model only "
    "(C11_calibrate_desc_spec) and, where the decoy median lies below the accepted minimum, against the anchored-map oracle",
    "a pandas Series is paired with the other argument by position, whatever its row labels (this is what the code does: .values)",
]
TRUSTED_EXTRA = c02.TRUSTED_EXTRA + ["numpy min/median", "pandas Series arithmetic with a numpy scalar"]

KEY_ONDISK = "ondisk-calibrate:target-column-requested-as-str"

SC_KINDS = ["f32", "i64", "strided", "ser", "ser_perm", "ser_gap", "ser_str", "ser_i64_perm", "u8", "u64"]
TG_KINDS = ["bool", "int", "float", "ser", "ser_perm", "ser_int_gap"]

_DIRECT_BY_ID = {}    # the direct cases of the last gen() (their model calls are made in one driver batch)
_MODEL_CACHE = {}     # id(case) -> driver output line
_NT = {}              # id(case) -> was this brew case non-trivial (known only after it ran)


def _rand_vec(rng, n, flip=False):
    lab = [1 if rng.random() < 0.6 else 0 for _ in range(n)]
    sc = [(rng.randint(30, 120) if (t and rng.random() < 0.7) else rng.randint(0, 70)) for t in lab]
    if flip:                      # low scores are the good ones (for desc=False)
        sc = [120 - s for s in sc]
    return sc, lab


def gen(ctx):
    cases = []
    nmax = 5 if ctx.thorough else 4
    for n in range(1, nmax + 1):
        for sc in itertools.product(range(4), repeat=n):
            for lab in itertools.product((0, 1), repeat=n):
                for thr in (("0.5", "1.0", "0.25") if n <= 3 else ("0.5",)):
                    cases.append({"fn": "cal", "scores": list(sc), "labels": list(lab), "thr": thr, "half": False,
                                  "tags": ["direct", "exhaustive", f"n={n}"]})
    rng = ctx.sub("cal-random")
    for k in range(1500 if ctx.thorough else 300):
        n = rng.randint(2, 200)
        half = rng.random() < 0.3
        lab = [1 if rng.random() < 0.6 else 0 for _ in range(n)]
        sc = [(rng.randint(30, 120) if (t and rng.random() < 0.7) else rng.randint(0, 70)) for t in lab]
        cases.append({"fn": "cal", "scores": sc, "labels": lab, "thr": rng.choice(["0.01", "0.05", "0.1", "0.25", "0.5"]),
                      "half": half, "tags": ["direct", "random", "half" if half else "int"]})
    # raw scores far from zero / on a tiny or huge scale: offset + s and 2^e * s are exact doubles, differences stay exact, and
    # the anchored affine map is invariant under such a change of the raw scale, so the expected result is unchanged
    rng = ctx.sub("cal-affine")
    for k in range(400 if ctx.thorough else 80):
        n = rng.randint(2, 60)
        lab = [1 if rng.random() < 0.6 else 0 for _ in range(n)]
        sc = [(rng.randint(30, 120) if (t and rng.random() < 0.7) else rng.randint(0, 70)) for t in lab]
        aff = rng.choice([[0, 2 ** 40], [0, -2 ** 44], [0, 10 ** 6], [0, 10 ** 9], [-40, 0], [-200, 0], [60, 0], [-30, 2 ** 20]])
        cases.append({"fn": "cal", "scores": sc, "labels": lab, "thr": rng.choice(["0.05", "0.1", "0.25", "0.5"]),
                      "half": rng.random() < 0.3, "affine": aff, "tags": ["direct", "affine", "scale=2^%d" % aff[0], "offset=%g" % aff[1]]})
    # (2) brew runs: reuse the C02 generator with a bias to calibration-relevant settings
    bc = c02.gen(ctx)
    rng = ctx.sub("cal-brew")
    keep = [c for c in bc if "degenerate-few-spectra" not in c["tags"]]
    keep = keep[: (120 if ctx.thorough else 24)]
    for c in keep:
        c = dict(c)
        c["test_fdr"] = rng.choice(["0.5", "0.25", "0.1", "0.05", "0.01", "1.0"])
        c["tags"] = ["brew"] + [t for t in c["tags"] if t.startswith(("folds", "files"))] + ["fdr=" + c["test_fdr"], c["est_mode"]]
        cases.append(c)
    # several prediction chunks, each holding accepted targets and decoys of every fold (calibration must still be per fold,
    # over all chunks together): well separated targets, so that every part of a fold accepts some
    rng = ctx.sub("cal-brew-chunks")
    for k in range(16 if ctx.thorough else 6):
        n = rng.randint(80, 160)
        f = brewlib.gen_file(rng, n, rng.choice([2, 3]), file_idx=0, mult=(1, 2), label_enc="pm1", quality=0.95)
        parts = rng.choice([2, 3])
        cases.append({"fn": "brew", "files": [f], "folds": 2, "seed": rng.randint(0, 10 ** 6), "test_fdr": rng.choice(["0.5", "0.25"]),
                      "workers": rng.choice([1, 2]), "subset_max_train": None, "chunks": {"predict": n // parts + 1}, "fmt": "tsv",
                      "row_group": None, "est_mode": "decision",
                      "tags": ["brew", "files=1", "multi-chunk-well-separated", "chunks=%d" % parts, "decision"]})
    # ------------------------------------------------------------------ added by the white-box review
    cases += _gen_direct_more(ctx)
    cases += _gen_ondisk(ctx)
    cases += _gen_brew_more(ctx)
    # ------------------------------------------------------------------ round 5
    cases += _gen_brew_both(ctx)
    _DIRECT_BY_ID.clear()
    _DIRECT_BY_ID.update({id(c): c for c in cases if c["fn"] == "cal"})
    _MODEL_CACHE.clear()
    _NT.clear()
    return cases


def _gen_direct_more(ctx):
    cases = []
    # the ranking direction: desc=False exhaustively on small vectors ...
    nmax = 4 if ctx.thorough else 3
    for n in range(1, nmax + 1):
        for sc in itertools.product(range(4), repeat=n):
            for lab in itertools.product((0, 1), repeat=n):
                for thr in (("0.5", "1.0") if n <= 3 else ("0.5",)):
                    cases.append({"fn": "cal", "scores": list(sc), "labels": list(lab), "thr": thr, "half": False, "desc": False,
                                  "desc_kw": (sum(sc) + n) % 2 == 0, "tags": ["direct", "exhaustive", "desc=False", f"n={n}"]})
    # ... and on random vectors in which the low scores are the good ones; desc=True given explicitly
    rng = ctx.sub("cal-desc")
    for k in range(600 if ctx.thorough else 120):
        n = rng.randint(2, 120)
        desc = rng.random() < 0.35
        sc, lab = _rand_vec(rng, n, flip=not desc and rng.random() < 0.8)
        c = {"fn": "cal", "scores": sc, "labels": lab, "thr": rng.choice(["0.05", "0.1", "0.25", "0.5", "1.0"]),
             "half": rng.random() < 0.3, "desc": desc, "desc_kw": rng.random() < 0.5,
             "tags": ["direct", "random", "desc=%s" % desc]}
        if rng.random() < 0.25:
            c["affine"] = rng.choice([[0, 2 ** 40], [0, -2 ** 44], [-40, 0], [0, -50]])
            c["tags"].append("affine")
        cases.append(c)
    # containers and dtypes of both arguments: every (scores kind, targets kind) pair
    rng = ctx.sub("cal-containers")
    pairs = [(a, b) for a in ["f64"] + SC_KINDS for b in TG_KINDS if not (a == "f64" and b == "bool")]
    for rep in range(16 if ctx.thorough else 4):
        for sk, tk in pairs:
            n = rng.randint(2, 80)
            sc, lab = _rand_vec(rng, n)
            c = {"fn": "cal", "scores": sc, "labels": lab, "thr": rng.choice(["0.05", "0.1", "0.25", "0.5"]),
                 "half": sk not in ("i64", "ser_i64_perm", "u8", "u64") and rng.random() < 0.3, "sc_kind": sk, "tg_kind": tk,
                 "idx_seed": rng.randint(0, 10 ** 6), "tags": ["direct", "container", "scores:" + sk, "targets:" + tk]}
            if rng.random() < 0.2:
                c["desc"] = rng.random() < 0.5
                c["desc_kw"] = rng.random() < 0.5
                if not c["desc"]:
                    c["scores"] = [120 - s for s in sc]
                c["tags"].append("desc=%s" % c["desc"])
            cases.append(c)
    # small exhaustive scope for the two riskiest containers (row labels that are a permutation of the positions; int labels)
    for n in (2, 3):
        for sc in itertools.product(range(3), repeat=n):
            for lab in itertools.product((0, 1), repeat=n):
                for sk, tk in (("ser_perm", "bool"), ("f64", "int"), ("i64", "ser_int_gap"), ("ser_perm", "ser_perm"), ("u8", "bool")):
                    cases.append({"fn": "cal", "scores": list(sc), "labels": list(lab), "thr": "0.5", "half": False, "sc_kind": sk,
                                  "tg_kind": tk, "idx_seed": n + sum(sc), "tags": ["direct", "container", "exhaustive", "scores:" + sk, "targets:" + tk]})
    # the threshold argument: numpy float64, the int 1, 0.0 (nothing is ever accepted: the q-value (D+1)/T is positive)
    rng = ctx.sub("cal-thr")
    for k in range(90 if ctx.thorough else 30):
        n = rng.randint(2, 60)
        sc, lab = _rand_vec(rng, n)
        tk = ["np64", "int1", "zero"][k % 3]
        thr = {"np64": rng.choice(["0.1", "0.25", "0.5"]), "int1": "1", "zero": "0"}[tk]
        cases.append({"fn": "cal", "scores": sc, "labels": lab, "thr": thr, "thr_kind": tk, "half": False,
                      "tags": ["direct", "threshold", "thr:" + tk]})
    # mixed signs (a small negative offset puts zero inside the score range), and long vectors
    rng = ctx.sub("cal-sign")
    for k in range(300 if ctx.thorough else 60):
        n = rng.randint(2, 80)
        sc, lab = _rand_vec(rng, n)
        aff = rng.choice([[0, -50], [0, -7], [1, -31], [-1, -65], [0, -120], [-3, -40]])
        cases.append({"fn": "cal", "scores": sc, "labels": lab, "thr": rng.choice(["0.05", "0.1", "0.25", "0.5"]),
                      "half": rng.random() < 0.3, "affine": aff, "tags": ["direct", "affine", "mixed-sign", "scale=2^%d" % aff[0], "offset=%g" % aff[1]]})
    rng = ctx.sub("cal-long")
    for k in range(12 if ctx.thorough else 3):
        n = rng.randint(800, 2500)
        sc, lab = _rand_vec(rng, n)
        sc = [s * 7 + rng.randint(0, 6) for s in sc]
        cases.append({"fn": "cal", "scores": sc, "labels": lab, "thr": rng.choice(["0.01", "0.05"]), "half": False,
                      "sc_kind": rng.choice(["f64", "f64", "ser_perm", "i64"]), "tg_kind": "bool", "idx_seed": k,
                      "tags": ["direct", "random", "long"]})
    return cases


def _gen_ondisk(ctx):
    """OnDiskPsmDataset.calibrate_scores(scores, eval_fdr[, desc]): the targets come from the file"""
    cases = []
    rng = ctx.sub("cal-ondisk")
    for k in range(160 if ctx.thorough else 36):
        n = rng.randint(2, 60)
        desc = None if rng.random() < 0.7 else (rng.random() < 0.5)
        sc, lab = _rand_vec(rng, n, flip=(desc is False))
        enc = ["pm1", "01", "bool"][k % 3]
        fmt = "parquet" if k % 4 == 3 else "tsv"
        c = {"fn": "ondisk", "scores": sc, "labels": lab, "thr": rng.choice(["0.01", "0.1", "0.25", "0.5", "1.0"]), "half": rng.random() < 0.3,
             "label_enc": enc, "fmt": fmt, "tags": ["ondisk", "labels:" + enc, fmt]}
        if desc is not None:
            c["desc"] = desc
            c["desc_kw"] = rng.random() < 0.5
            c["tags"].append("desc=%s" % desc)
        cases.append(c)
    return cases


TSV_AFFINE = [[0, 2 ** 40], [0, -2 ** 44], [0, -50], [0, -7], [10, 0], [0, 10 ** 9], [3, -400]]        # integer images
PQ_AFFINE = TSV_AFFINE + [[-1, 0], [-40, 0], [-200, 0], [60, 0], [-30, 2 ** 20], [-1, -65]]              # dyadic images


def _brew_case(rng, nfiles, folds, n_lo, n_hi, quality=0.9, fmt=None, enc=None, thr=None):
    nkey = rng.choice([1, 2, 2, 3, 4])
    files = []
    for j in range(nfiles):
        n = rng.randint(n_lo, n_hi)
        files.append(brewlib.gen_file(rng, n, nkey, file_idx=j, mult=(1, rng.choice([1, 2, 3])),
                                      label_enc=enc or rng.choice(["pm1", "01", "bool"]), quality=quality))
    nmax = max(len(f["targets"]) for f in files)
    chunks = {}
    if rng.random() < 0.6:
        chunks["predict"] = max(1, rng.choice([nmax // 2 + 1, nmax // 3 + 1, nmax - 1, 7, 3]))
    fmt = fmt or rng.choice(["tsv", "parquet"])
    return {"fn": "brew", "files": files, "folds": folds, "seed": rng.randint(0, 10 ** 6),
            "test_fdr": thr or rng.choice(["0.5", "0.5", "0.25", "0.25", "0.1"]), "workers": rng.choice([1, 1, 2, 4]),
            "subset_max_train": None, "chunks": chunks, "fmt": fmt,
            "row_group": rng.choice([None, 1, 3, 17]) if fmt == "parquet" else None, "est_mode": "decision",
            "tags": ["brew", f"files={nfiles}", f"folds={folds}", fmt, "labels:" + (enc or "mixed"),
                     "chunks=predict" if chunks else "chunks=default"]}


def _gen_brew_more(ctx):
    cases = []
    # feature values outside 0..100: exact affine images (the model and the oracle work on the generated integers: the anchored
    # map is invariant under a strictly increasing affine change of the raw scale); float32 / int64 decision values
    rng = ctx.sub("cal-brew-domain")
    for k in range(100 if ctx.thorough else 20):
        folds = rng.choice([2, 2, 3, 3, 4, 5, 6])
        c = _brew_case(rng, rng.choice([1, 1, 2, 3]), folds, 30 * folds, 60 * folds, quality=rng.choice([0.8, 0.9, 0.95]))
        what = ["affine", "affine", "affine", "col32", "colint", "affine"][k % 6]
        if what == "affine":
            aff = rng.choice(PQ_AFFINE if c["fmt"] == "parquet" else TSV_AFFINE)
            c["feat_affine"] = aff
            c["tags"] += ["feat-affine", "scale=2^%d" % aff[0], "offset=%g" % aff[1]]
        else:
            c["est_kind"] = what
            c["tags"].append("decision-values:" + what)
        if k % 7 == 6 and what != "affine":       # no calibration branch: the raw decision values are returned
            c["est_mode"] = "proba"
        c["tags"] += ["fdr=" + c["test_fdr"], c["est_mode"]]
        cases.append(c)
    # a list of previously trained fold models (no training in the observed run; the list is given in rotated order)
    rng = ctx.sub("cal-brew-pretrained")
    for k in range(24 if ctx.thorough else 6):
        folds = rng.choice([2, 3, 3, 4, 5])
        c = _brew_case(rng, rng.choice([1, 1, 2]), folds, 30 * folds, 50 * folds, quality=0.9, thr=rng.choice(["0.5", "0.5", "0.25", "0.25", "0.1", "0.01"]))
        c["mode"] = "pretrained"
        c["rot"] = rng.randint(0, folds - 1)
        c["seed2"] = rng.randint(0, 10 ** 6)
        if k % 3 == 2:
            aff = rng.choice(PQ_AFFINE if c["fmt"] == "parquet" else TSV_AFFINE)
            c["feat_affine"] = aff
            c["tags"] += ["feat-affine"]
        c["tags"] += ["pretrained-model-list", "fdr=" + c["test_fdr"], "decision"]
        cases.append(c)
    # one previously trained model that gets worse when re-fitted: brew scores every file with the original model and calibrates
    # per file (OnDiskPsmDataset.calibrate_scores)
    rng = ctx.sub("cal-brew-reset")
    for k in range(12 if ctx.thorough else 3):
        folds = rng.choice([2, 3, 4])
        c = _brew_case(rng, rng.choice([1, 2]), folds, 30 * folds, 50 * folds, quality=0.9, thr=rng.choice(["0.5", "0.25", "0.01"]))
        c["mode"] = "reset"
        c["pre_idx"] = rng.randint(0, folds - 1)
        c["seed2"] = rng.randint(0, 10 ** 6)
        c["tags"] += ["pretrained-model-reset", "fdr=" + c["test_fdr"], "decision"]
        cases.append(c)
    return cases


# estimators that have BOTH decision_function and predict_proba (as LogisticRegression, SVC(probability=True), SGDClassifier(
# loss="log_loss"), gradient boosting have), the two returning DIFFERENT values (brewlib.Transparent kinds "pp-<values>-<shape>"):
# the raw scores are the decision function's values, in training and in prediction alike, and they are calibrated
BOTH_KINDS = ["pp-sq-2col", "pp-other-2col", "pp-sig-2col", "pp-neg-2col", "pp-sq-1d", "pp-other-1col", "pp-sig-1d", "pp-neg-1col",
              "pp-other-1d", "pp-sq-1col"]
# neighbours: no predict_proba at all; predict_proba only (no calibration: its values are returned as they are), in every
# shape _get_scores admits (two columns, one column, one dimension)
PROBA_ONLY_KINDS = ["pp-same-1d", "pp-same-1col", "pp-same-2col"]


def _gen_brew_both(ctx):
    cases = []
    rng = ctx.sub("cal-brew-both")
    for k in range(96 if ctx.thorough else 20):
        folds = rng.choice([2, 2, 3, 3, 4, 5, 6])
        c = _brew_case(rng, rng.choice([1, 1, 2, 3]), folds, 30 * folds, 60 * folds, quality=rng.choice([0.8, 0.9, 0.95]))
        slot = k % 8
        if slot == 6:
            c["est_kind"] = "dec-only"
            c["tags"] += ["decision_function-only"]
        elif slot == 7:
            c["est_kind"] = PROBA_ONLY_KINDS[(k // 8) % len(PROBA_ONLY_KINDS)]
            c["est_mode"] = "proba"
            c["tags"] += ["predict_proba-only", "proba-shape=" + c["est_kind"].split("-")[2]]
        else:
            c["est_kind"] = BOTH_KINDS[(k - k // 8 * 2) % len(BOTH_KINDS)]
            _, what, shape = c["est_kind"].split("-")
            c["tags"] += ["both-methods", "proba-values=" + what, "proba-shape=" + shape]
        if k % 5 == 4 and c["est_mode"] == "decision":
            aff = rng.choice([[0, -50], [0, -7], [3, -400], [10, 0], [0, 10 ** 6]])
            c["feat_affine"] = aff
            c["tags"] += ["feat-affine", "scale=2^%d" % aff[0], "offset=%g" % aff[1]]
        c["tags"] += ["fdr=" + c["test_fdr"], c["est_mode"]]
        cases.append(c)
    # the same estimators in a list of previously trained fold models (prediction only in the observed run) ...
    rng = ctx.sub("cal-brew-both-pretrained")
    for k in range(16 if ctx.thorough else 4):
        folds = rng.choice([2, 3, 3, 4])
        c = _brew_case(rng, rng.choice([1, 1, 2]), folds, 30 * folds, 50 * folds, quality=0.9, thr=rng.choice(["0.5", "0.25", "0.1"]))
        c["mode"] = "pretrained"
        c["rot"] = rng.randint(0, folds - 1)
        c["seed2"] = rng.randint(0, 10 ** 6)
        c["est_kind"] = BOTH_KINDS[(3 * k) % len(BOTH_KINDS)] if k % 4 != 3 else "dec-only"
        c["tags"] += ["pretrained-model-list", "both-methods" if k % 4 != 3 else "decision_function-only", "est=" + c["est_kind"],
                      "fdr=" + c["test_fdr"], "decision"]
        cases.append(c)
    # ... and as the one previously trained model that brew falls back to when its re-fit is worse (Model.predict on whole files)
    rng = ctx.sub("cal-brew-both-reset")
    for k in range(9 if ctx.thorough else 3):
        folds = rng.choice([2, 3, 4])
        c = _brew_case(rng, rng.choice([1, 2]), folds, 30 * folds, 50 * folds, quality=0.9, thr=rng.choice(["0.5", "0.25"]))
        c["mode"] = "reset"
        c["pre_idx"] = rng.randint(0, folds - 1)
        c["seed2"] = rng.randint(0, 10 ** 6)
        c["est_kind"] = ["pp-sq-2col", "pp-sig-1d", "pp-neg-1col"][k % 3]
        c["tags"] += ["pretrained-model-reset", "both-methods", "est=" + c["est_kind"], "fdr=" + c["test_fdr"], "decision"]
        cases.append(c)
    return cases


# ----------------------------------------------------------------------------------------------- direct calls
def _vals(c):
    return [Fraction(s, 2) if c.get("half") else Fraction(s) for s in c["scores"]]


def _impl_vals(c):
    e, off = c.get("affine", [0, 0])
    vals = [(Fraction(off) + v) * Fraction(2) ** e for v in _vals(c)]
    assert all(Fraction(float(v)) == v for v in vals)
    return vals


def _index(kind, n, seed):
    r = random.Random(seed * 7919 + n)
    perm = list(range(n))
    r.shuffle(perm)
    if n > 1 and perm == list(range(n)):
        perm = perm[1:] + perm[:1]
    if kind.endswith("perm"):
        return perm
    if kind.endswith("gap"):
        return [3 * p + 7 for p in perm]
    if kind.endswith("str"):
        return ["r%d" % p for p in perm]
    return None


def _mk_scores(c, vals):
    import numpy as np
    import pandas as pd
    kind = c.get("sc_kind", "f64")
    n = len(vals)
    fl = [float(v) for v in vals]
    if kind == "f64":
        return np.array(fl, dtype=float)
    if kind == "f32":
        a = np.array(fl, dtype=np.float32)
        assert all(Fraction(float(x)) == v for x, v in zip(a, vals))
        return a
    if kind == "i64":
        return np.array([int(v) for v in vals], dtype=np.int64)
    if kind in ("u8", "u64"):
        # unsigned scores (an estimator that returns ranks / counts): `scores - threshold` wraps for every score below
        # the threshold unless the code leaves the unsigned type first
        assert all(int(v) == v and 0 <= v < 256 for v in vals)
        return np.array([int(v) for v in vals], dtype={"u8": np.uint8, "u64": np.uint64}[kind])
    if kind == "strided":
        return np.repeat(np.array(fl, dtype=float), 2)[::2]
    if kind == "ser":
        return pd.Series(np.array(fl, dtype=float))
    if kind == "ser_i64_perm":
        return pd.Series(np.array([int(v) for v in vals], dtype=np.int64), index=_index(kind, n, c.get("idx_seed", 0)))
    return pd.Series(np.array(fl, dtype=float), index=_index(kind, n, c.get("idx_seed", 0)))


def _mk_targets(c):
    import numpy as np
    import pandas as pd
    kind = c.get("tg_kind", "bool")
    lab = c["labels"]
    n = len(lab)
    if kind == "bool":
        return np.array([bool(v) for v in lab])
    if kind == "int":
        return np.array([int(v) for v in lab], dtype=np.int64)
    if kind == "float":
        return np.array([float(v) for v in lab], dtype=float)
    if kind == "ser":
        return pd.Series(np.array([bool(v) for v in lab]))
    if kind == "ser_perm":         # other row labels than the scores
        return pd.Series(np.array([bool(v) for v in lab]), index=_index(kind, n, c.get("idx_seed", 0) + 1))
    if kind == "ser_int_gap":
        return pd.Series(np.array([int(v) for v in lab], dtype=np.int64), index=_index(kind, n, c.get("idx_seed", 0) + 2))
    raise ValueError(kind)


def _thr_arg(c):
    import numpy as np
    k = c.get("thr_kind", "float")
    if k == "np64":
        return np.float64(c["thr"])
    if k in ("int1", "zero"):
        return int(c["thr"]) if k == "int1" else 0.0
    return float(c["thr"])


def _desc_args(c):
    """positional / keyword arguments after eval_fdr"""
    if "desc" not in c:
        return (), {}
    return ((), {"desc": bool(c["desc"])}) if c.get("desc_kw") else ((bool(c["desc"]),), {})


def _model_line(c):
    sc = c["scores"]              # model gets the integers (half-integers scaled by 2: order-preserving, exact)
    if "desc" in c:
        return "c11.calibrate_d %s %s %s %s" % (lib.b(bool(c["desc"])), lib.lst(sc), lib.lst(c["labels"], lib.b), lib.q(Fraction(c["thr"])))
    return "c11.calibrate %s %s %s" % (lib.lst(sc), lib.lst(c["labels"], lib.b), lib.q(Fraction(c["thr"])))


def _model_direct(c):
    if _DIRECT_BY_ID.get(id(c)) is c:
        if not _MODEL_CACHE:          # one driver process for all direct cases of the run
            xs = list(_DIRECT_BY_ID.values())
            for x, o in zip(xs, lib.run_driver([_model_line(x) for x in xs])):
                _MODEL_CACHE[id(x)] = o
        line = _MODEL_CACHE[id(c)]
    else:                             # replay / shrinking
        line = lib.run_driver([_model_line(c)])[0]
    t = Toks(line)
    m = t.result(lambda: t.lst(t.q))
    if m[0] == "err" and m[1] == "TypeError":
        m = ("err", "NonFinite")
    return m


_CASE_OF = {}


def _round_model(c, m, f32=False):
    import numpy as np
    if m[0] != "ok":
        return m
    # the affine map is invariant under the common scaling by 2
    if f32:
        return ("ok", [Fraction(float(np.float32(float(q)))) for q in m[1]])
    return ("ok", [Fraction(float(q)) for q in m[1]])


def _finish(out, n):
    import numpy as np
    arr = np.asarray(out)
    if arr.shape != (n,):
        raise AssertionError("result of shape %r for %d scores" % (arr.shape, n))
    if not np.all(np.isfinite(arr.astype(float))):
        raise FloatingPointError("nonfinite")
    return [Fraction(float(v)) for v in arr]


def _run_direct(c):
    m = _model_direct(c)

    def impl():
        from mokapot.dataset import calibrate_scores
        vals = _impl_vals(c)
        arr = _mk_scores(c, vals)
        a, k = _desc_args(c)
        out = calibrate_scores(arr, _mk_targets(c), _thr_arg(c), *a, **k)
        return _finish(out, len(vals))
    i = call_impl(impl)
    if i[0] == "err" and i[1] == "FloatingPointError":
        i = ("err", "NonFinite")
    return _round_model(c, m, f32=c.get("sc_kind") == "f32"), i


def _pin_file(c):
    """a minimal PIN table whose Label column carries c['labels'] in the chosen encoding"""
    n = len(c["labels"])
    enc = c.get("label_enc", "pm1")
    tg = [bool(v) for v in c["labels"]]
    lab = [1 if t else -1 for t in tg] if enc == "pm1" else ([1 if t else 0 for t in tg] if enc == "01" else tg)
    cols = {"SpecId": ["psm%d" % i for i in range(n)], "Label": lab, "ScanNr": [i + 1 for i in range(n)],
            "ExpMass": [500 + 0.25 * (i % 7) for i in range(n)], "rid": list(range(n)), "feat0": [int(s) for s in c["scores"]],
            "Peptide": ["K.PEP%dK.A" % (i % 5) for i in range(n)], "Proteins": ["prot%d" % (i % 3) for i in range(n)]}
    return {"columns": list(cols), "data": cols, "targets": tg}


def _run_ondisk(c):
    line = "c11.calibrate_d %s %s %s %s" % (lib.b(bool(c.get("desc", True))), lib.lst(c["scores"]), lib.lst(c["labels"], lib.b),
                                            lib.q(Fraction(c["thr"])))
    t = Toks(lib.run_driver([line])[0])
    m = t.result(lambda: t.lst(t.q))
    if m[0] == "err" and m[1] == "TypeError":
        m = ("err", "NonFinite")

    def impl():
        import numpy as np
        import mokapot
        d = tempfile.mkdtemp(prefix="cal11_", dir=os.environ.get("VERIF_TMP", "/tmp"))
        try:
            p = brewlib.write_file(_pin_file(c), d, "file0", c.get("fmt", "tsv"), None)
            ds = mokapot.read_pin([p], max_workers=1)[0]
            vals = _impl_vals(c)
            a, k = _desc_args(c)
            out = ds.calibrate_scores(np.array([float(v) for v in vals], dtype=float), float(c["thr"]), *a, **k)
            return _finish(out, len(vals))
        finally:
            shutil.rmtree(d, ignore_errors=True)
    i = call_impl(impl)
    if i[0] == "err" and i[1] == "FloatingPointError":
        i = ("err", "NonFinite")
    return _round_model(c, m), i


# ----------------------------------------------------------------------------------------------- brew runs
def _impl_files(c):
    """the tables handed to the real code: feature columns mapped through the exact affine image, if any"""
    aff = c.get("feat_affine")
    if not aff:
        return c["files"]
    e, off = aff
    out = []
    for f in c["files"]:
        data = dict(f["data"])
        for name in f["columns"]:
            if name.startswith("feat"):
                vals = [(Fraction(off) + int(v)) * Fraction(2) ** e for v in f["data"][name]]
                assert all(Fraction(float(v)) == v for v in vals)
                if all(v.denominator == 1 and abs(v) < 2 ** 53 for v in vals):
                    data[name] = [int(v) for v in vals]          # written as integers: exact in a tsv file
                else:
                    data[name] = [float(v) for v in vals]        # Parquet only (binary doubles)
        out.append({"columns": f["columns"], "data": data, "targets": f["targets"]})
    if c.get("fmt", "tsv") != "parquet":
        assert all(isinstance(v, int) for f in out for name in f["columns"] if name.startswith("feat") for v in f["data"][name])
    return out


def _refit_class():
    """an estimator that ranks by one feature column when first fitted and, when fitted AGAIN (as brew does with a
    previously trained model), ranks every training target below every training decoy — the re-fit is always worse"""
    if hasattr(_refit_class, "cls"):
        return _refit_class.cls
    from sklearn.base import BaseEstimator, ClassifierMixin
    import numpy as np

    class Refit(BaseEstimator, ClassifierMixin):
        def fit(self, X, y):
            self.nfit_ = getattr(self, "nfit_", 0) + 1
            ids = [int(v) for v in X[:, 0]]
            if self.nfit_ == 1:
                self.col_ = 1 + (sum(ids) % (X.shape[1] - 1))
                self.mem_ = {}
            else:
                self.mem_ = {i: int(l) for i, l in zip(ids, y)}
            self.classes_ = np.array([0, 1])
            return self

        def decision_function(self, X):
            out = np.asarray(X[:, self.col_], dtype=float).copy()
            for j in range(X.shape[0]):
                lbl = self.mem_.get(int(X[j, 0]))
                if lbl is not None:
                    out[j] = -1000.0 if lbl == 1 else 1000.0
            return out

    class RefitBoth(Refit):
        """the same with a predict_proba that returns OTHER values than decision_function (kinds as brewlib.Transparent):
        the decision function's values are the raw scores; the re-fit is worse whichever of the two is looked at"""

        def __init__(self, kind="pp-sq-2col"):
            self.kind = kind

        def predict_proba(self, X):
            _, what, shape = self.kind.split("-")
            s = np.asarray(X[:, self.col_], dtype=float)
            p = s * s if what == "sq" else (-s if what == "neg" else 1.0 / (1.0 + np.exp(-(s - 50.0) / 8.0)))
            lo, hi = (0.0, 1.0) if what == "sig" else (-1e6, 1e6)
            for j in range(X.shape[0]):
                lbl = self.mem_.get(int(X[j, 0]))
                if lbl is not None:
                    p[j] = lo if lbl == 1 else hi
            if shape == "1d":
                return p
            if shape == "1col":
                return p.reshape(-1, 1)
            return np.vstack([(1.0 - p) if what == "sig" else -p, p]).T
    _refit_class.cls = Refit
    _refit_class.both = RefitBoth
    return Refit


def _two_brews(c):
    """brew once to obtain trained fold models, then the observed run on fresh dataset objects with (a) the list of those
    models or (b) one of them as a single previously trained model whose re-fit is worse"""
    import numpy as np
    import mokapot
    from mokapot.model import Model
    RecScaler, Transparent = brewlib.make_classes()
    mode = c["mode"]
    k = c["folds"]
    d = tempfile.mkdtemp(prefix="brew11_", dir=os.environ.get("VERIF_TMP", "/tmp"))
    try:
        paths = [brewlib.write_file(f, d, "file%d" % i, c.get("fmt", "tsv"), c.get("row_group")) for i, f in enumerate(_impl_files(c))]
        with brewlib.Chunking(**c.get("chunks", {})):
            dss = mokapot.read_pin(paths, max_workers=1)
            brewlib.reset_log()
            if mode == "pretrained":
                est = Transparent(mode="decision", learn=True, kind=c.get("est_kind", "col"))
            elif str(c.get("est_kind", "")).startswith("pp-"):
                _refit_class()
                est = _refit_class.both(kind=c["est_kind"])
            else:
                est = _refit_class()()
            model = Model(est, scaler=RecScaler(), train_fdr=1.0, max_iter=1, override=True, rng=c["seed"])
            try:
                _, models1, _, _ = mokapot.brew(dss, model, test_fdr=1.0, folds=k, max_workers=1, rng=c["seed"])
            except BaseException as e:   # noqa
                if isinstance(e, (KeyboardInterrupt, SystemExit, MemoryError)):
                    raise
                return {"first_brew_failed": lib.err_kind(e)}
            fit_by_token = dict(brewlib.LOG["fit"])
            est_fits = [(sorted(x[0]), x[2]) for x in brewlib.LOG["est_fit"] if len(x) > 2]
            train_ids = [sorted(fit_by_token.get(getattr(m.scaler, "token_", None), [])) for m in models1]
            dss = mokapot.read_pin(paths, max_workers=1)
            keys = [brewlib.spectrum_keys(ds) for ds in dss]
            brewlib.reset_log()
            if mode == "pretrained":
                given = list(models1)[c["rot"]:] + list(models1)[:c["rot"]]
            else:
                given = models1[c["pre_idx"] % k]
                given.scaler.token_ = -1
                given.train_fdr = 0.3
                pre_col = int(given.estimator.col_)
            try:
                _, models, scores, descs = mokapot.brew(dss, given, test_fdr=float(c["test_fdr"]), folds=k,
                                                        max_workers=c.get("workers", 1), rng=c["seed2"])
            except BaseException as e:   # noqa
                if isinstance(e, (KeyboardInterrupt, SystemExit, MemoryError)):
                    raise
                obs = {"keys": keys, "error": lib.err_kind(e), "message": str(e)[:200], "est_fits": est_fits}
                if mode == "reset":
                    obs["pre_col"] = pre_col
                    obs["reset_scored"] = sorted(g for tok, ids in brewlib.LOG["transform"] if tok == -1 for g in ids)
                return obs
        tr = {}
        for tok, ids in brewlib.LOG["transform"]:
            tr.setdefault(tok, []).extend(ids)
        obs = {"keys": keys, "error": None,
               "model_folds": [m.fold for m in models], "trained": [bool(m.is_trained) for m in models],
               "cols": [getattr(m.estimator, "col_", None) for m in models],
               "train_ids": train_ids,
               "scored_ids": [sorted(tr.get(getattr(m.scaler, "token_", None), [])) for m in models],
               "scores": [[Fraction(float(v)) if np.isfinite(v) else None for v in np.asarray(s).ravel()] for s in scores],
               "descs": [bool(x) for x in descs], "seen": [{} for m in models]}
        if mode == "reset":
            obs["pre_col"] = pre_col
            obs["reset_scored"] = sorted(tr.get(-1, []))
        return obs
    finally:
        shutil.rmtree(d, ignore_errors=True)


def _compare_reset(c, got):
    """expected: every file is scored by the ORIGINAL model (its column) and calibrated as a whole at test_fdr"""
    if got[0] == "err":
        return ("unknown", "harness"), ("err", got[1])
    obs = got[1]
    if not obs.get("reset_scored"):
        # the original model never scored anything: the re-fit did not fail in the way that makes brew fall back to it
        # (e.g. no PSM accepted by the given model at its train_fdr) — not the branch this case is about
        return ("err", "NoReset"), ("err", "NoReset")
    name = "rid" if obs["pre_col"] == 0 else "feat%d" % (obs["pre_col"] - 1)
    lines = ["c11.calibrate %s %s %s" % (lib.lst([int(v) for v in f["data"][name]]), lib.lst(f["targets"], lib.b),
                                          lib.q(Fraction(c["test_fdr"]))) for f in c["files"]]
    res = []
    for line in lib.run_driver(lines):
        t = Toks(line)
        res.append(t.result(lambda: t.lst(t.q)))
    allrows = sorted(c02._gid(j, r) for j, f in enumerate(c["files"]) for r in range(len(f["targets"])))
    if any(r[0] == "err" for r in res):
        kind = [r[1] for r in res if r[0] == "err"][0]
        m = ("err", "NonFinite" if kind == "TypeError" else kind)
    else:
        m = ("ok", {"scores": [[Fraction(float(q)) for q in r[1]] for r in res], "reset_scored": allrows})
    if obs.get("error"):
        return m, ("err", obs["error"])
    if any(v is None for s in obs["scores"] for v in s):
        return m, ("err", "NonFinite")
    return m, ("ok", {"scores": obs["scores"], "reset_scored": obs["reset_scored"], "_obs": {"pre_col": obs["pre_col"]}})


def _run_brew(c):
    mode = c.get("mode")
    if mode in ("pretrained", "reset"):
        got = call_impl(_two_brews, c)
        if got[0] == "ok" and "first_brew_failed" in got[1]:
            return ("err", "FirstBrewFailed"), ("err", "FirstBrewFailed")
        if mode == "reset":
            return _compare_reset(c, got)
        m, i = c02.compare(c, got)
    elif c.get("feat_affine"):
        m, i = c02.compare(c, call_impl(brewlib.run_brew, dict(c, files=_impl_files(c))))
    else:
        m, i = c02.run_case(c)
    if c.get("est_kind") == "col32" and c.get("est_mode") == "decision" and m[0] == "ok" and isinstance(m[1].get("scores"), list):
        import numpy as np
        m = ("ok", dict(m[1], scores=[[Fraction(float(np.float32(float(q)))) for q in s] for s in m[1]["scores"]]))
    return m, i


def run_case(c):
    _CASE_OF[id(c)] = c
    if c["fn"] == "brew":
        m, i = _run_brew(c)
        _NT[id(c)] = _brew_nontrivial(c, m, i)
        return m, i
    if c["fn"] == "ondisk":
        return _run_ondisk(c)
    return _run_direct(c)


def same(c, m, i):
    if c["fn"] == "brew":
        if c.get("mode") == "reset":
            if m[0] != i[0]:
                return False
            return m[1] == i[1] if m[0] != "ok" else all(m[1][k] == i[1][k] for k in ("scores", "reset_scored"))
        return c02.same(c, m, i)
    return tuple(m) == tuple(i) if m[0] == "err" or i[0] == "err" else list(m[1]) == list(i[1])


def finding_key(c, m, i):
    # (the finding ondisk-calibrate:target-column-requested-as-str is repaired in /repo, 93b7f44: nothing is classified)
    return None


def _brew_nontrivial(c, m, i):
    if i[0] == "err":
        return i[1] == "RuntimeError" and tuple(m) == ("err", "RuntimeError")
    if i[0] != "ok" or c.get("est_mode", "decision") != "decision" or not isinstance(i[1].get("scores"), list):
        return False
    stats = {"groups": 0, "compared": 0}
    try:
        msg = _oracle_brew(c, i, stats)
    except Exception:
        return False
    return msg is None and stats["groups"] > 0 and stats["compared"] == stats["groups"]


def nontrivial(c):
    if c["fn"] == "brew":
        return bool(_NT.get(id(c), False)) if _CASE_OF.get(id(c)) is c else False
    lab, sc = c["labels"], c["scores"]
    return 0 < sum(lab) < len(lab) and (len(set(sc)) < len(sc) or any(
        (not lab[a]) and lab[b] and sc[a] > sc[b] for a in range(len(sc)) for b in range(len(sc))))


def _qvals(scores, targets, desc=True):
    from .c01 import q_spec
    from .c01 import exact_ints
    return q_spec(exact_ints([float(s) for s in scores]), targets, desc)


def _check_fold(raw, targets, out, thr, desc=True, f32=False, stats=None):
    """property: out is a strictly increasing affine image of raw with anchors 0 / -1"""
    if stats is not None:
        stats["groups"] += 1
    qs = _qvals(raw, targets, desc)
    acc = [r for r, t, q in zip(raw, targets, qs) if t and q <= thr]
    dec = sorted(r for r, t in zip(raw, targets) if not t)
    if not acc:
        return "no target accepted but scores were returned"
    if not dec:
        return None
    t0 = min(acc)
    n = len(dec)
    d0 = dec[n // 2] if n % 2 else (dec[n // 2 - 1] + dec[n // 2]) / 2
    if not d0 < t0:
        return None     # outside the property's quantifier
    if stats is not None:
        stats["compared"] += 1
    for r, o in zip(raw, out):
        exp = Fraction(float((r - t0) / (t0 - d0)))
        if f32:
            import numpy as np
            exp = Fraction(float(np.float32(float(exp))))
        if o != exp:
            return f"raw {r} -> {float(o)} but the anchored affine map gives {float(exp)} (t={t0}, d={d0})"
    return None


def _oracle_brew(c, i, stats=None):
    o = i[1]
    thr = Fraction(c["test_fdr"])
    f32 = c.get("est_kind") == "col32"
    if c.get("mode") == "reset":
        # the original model scores every file as a whole
        col = o["_obs"]["pre_col"]
        name = "rid" if col == 0 else "feat%d" % (col - 1)
        for j, fl in enumerate(c["files"]):
            msg = _check_fold([Fraction(v) for v in fl["data"][name]], fl["targets"], o["scores"][j], thr, stats=stats)
            if msg:
                return f"file {j} (scored by the given model): {msg}"
        return None
    cols = o["_obs"]["cols"]
    for f, rows in enumerate(o["scored"]):
        for j, fl in enumerate(c["files"]):
            mine = [g - j * 100000 for g in rows if g // 100000 == j]
            if not mine:
                continue
            name = "rid" if cols[f] == 0 else "feat%d" % (cols[f] - 1)
            raw = [Fraction(fl["data"][name][r]) for r in mine]
            tg = [fl["targets"][r] for r in mine]
            out = [o["scores"][j][r] for r in mine]
            msg = _check_fold(raw, tg, out, thr, f32=f32, stats=stats)
            if msg:
                return f"fold {f} of file {j}: {msg}"
    return None


def oracle(c, i):
    if c["fn"] in ("cal", "ondisk"):
        raw = _vals(c)
        tg = [bool(v) for v in c["labels"]]
        thr = Fraction(c["thr"])
        desc = bool(c.get("desc", True))
        qs = _qvals(raw, tg, desc)
        acc = [r for r, t, q in zip(raw, tg, qs) if t and q <= thr]
        if i[0] == "err":
            if i[1] == "RuntimeError" and not acc:
                return None
            if i[1] == "NonFinite":
                return None
            if not acc:
                return f"no accepted target: expected RuntimeError, got {i[1]}"
            return f"calibration failed with {i[1]} although a target is accepted"
        return _check_fold(raw, tg, i[1], thr, desc, f32=c.get("sc_kind") == "f32")
    # brew
    if c.get("mode") == "reset" and i[0] == "err" and i[1] not in ("RuntimeError", "NonFinite", "FirstBrewFailed"):
        return f"brew with a previously trained model whose re-fit is worse failed with {i[1]} instead of returning calibrated scores"
    if i[0] == "err" and i[1] not in ("RuntimeError", "NonFinite", "OneClassTrainingSet", "EmptyFold", "FirstBrewFailed", "NoReset"):
        # RuntimeError is the explicit calibration error (whether it is justified is decided by the comparison with the model)
        return f"brew stopped with {i[1]} instead of returning scores or the explicit calibration error"
    if i[0] != "ok" or not isinstance(i[1].get("scores"), list):
        return None
    if c.get("mode") != "reset" and "scored" not in i[1]:
        return None
    if c.get("est_mode", "decision") != "decision":
        return None
    return _oracle_brew(c, i)
