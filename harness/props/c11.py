"""C11 — per-fold score calibration: Model/Calibrate.v against mokapot.dataset.calibrate_scores and
against the scores returned by the real brew (fold membership recovered with the recording scaler)."""
import itertools
from fractions import Fraction

from .. import lib, brewlib
from ..lib import Toks, call_impl
from . import c02

PROP = "C11"
RULE = ("(1) calibrate_scores called directly: exhaustive over all score vectors in {0..3}^n x label vectors for n<=4 "
        "(quick) / n<=5 (thorough) at thresholds 0.25/0.5/1.0, plus random integer/half-integer vectors up to n=200; "
        "(2) real brew runs (as C02: 1-3 files, folds 2-6, chunk sizes, workers, decision_function and predict_proba "
        "estimators, several test_fdr incl. ones at which a fold accepts nothing): returned scores compared exactly "
        "with the model's calibrated rationals. non-trivial = has both targets and decoys and a tie or a decoy above a target")
ASSUMPTIONS = [
    "raw scores are integers or half-integers (exact in the model); (s-t)/(t-d) is a single correctly rounded division, compared exactly",
    "non-finite results (no decoy in a fold, t = d) are reported by the code as nan/inf and by the model as Err EType; both map to 'NonFinite'",
]
TRUSTED_EXTRA = c02.TRUSTED_EXTRA + ["numpy min/median"]


def gen(ctx):
    cases = []
    nmax = 5 if ctx.thorough else 4
    for n in range(1, nmax + 1):
        for sc in itertools.product(range(4), repeat=n):
            for lab in itertools.product((0, 1), repeat=n):
                for thr in (("0.5", "1.0", "0.25") if n <= 3 else ("0.5",)):
                    cases.append({"fn": "cal", "scores": list(sc), "labels": list(lab), "thr": thr, "half": False,
                                  "tags": ["direct", "exhaustive", f"n={n}"]})
    rng = ctx.sub("cal-random")
    for k in range(1500 if ctx.thorough else 300):
        n = rng.randint(2, 200)
        half = rng.random() < 0.3
        lab = [1 if rng.random() < 0.6 else 0 for _ in range(n)]
        sc = [(rng.randint(30, 120) if (t and rng.random() < 0.7) else rng.randint(0, 70)) for t in lab]
        cases.append({"fn": "cal", "scores": sc, "labels": lab, "thr": rng.choice(["0.01", "0.05", "0.1", "0.25", "0.5"]),
                      "half": half, "tags": ["direct", "random", "half" if half else "int"]})
    # raw scores far from zero / on a tiny or huge scale: offset + s and 2^e * s are exact doubles, differences stay exact, and
    # the anchored affine map is invariant under such a change of the raw scale, so the expected result is unchanged
    rng = ctx.sub("cal-affine")
    for k in range(400 if ctx.thorough else 80):
        n = rng.randint(2, 60)
        lab = [1 if rng.random() < 0.6 else 0 for _ in range(n)]
        sc = [(rng.randint(30, 120) if (t and rng.random() < 0.7) else rng.randint(0, 70)) for t in lab]
        aff = rng.choice([[0, 2 ** 40], [0, -2 ** 44], [0, 10 ** 6], [0, 10 ** 9], [-40, 0], [-200, 0], [60, 0], [-30, 2 ** 20]])
        cases.append({"fn": "cal", "scores": sc, "labels": lab, "thr": rng.choice(["0.05", "0.1", "0.25", "0.5"]),
                      "half": rng.random() < 0.3, "affine": aff, "tags": ["direct", "affine", "scale=2^%d" % aff[0], "offset=%g" % aff[1]]})
    # (2) brew runs: reuse the C02 generator with a bias to calibration-relevant settings
    bc = c02.gen(ctx)
    rng = ctx.sub("cal-brew")
    keep = [c for c in bc if "degenerate-few-spectra" not in c["tags"]]
    keep = keep[: (120 if ctx.thorough else 24)]
    for c in keep:
        c = dict(c)
        c["test_fdr"] = rng.choice(["0.5", "0.25", "0.1", "0.05", "0.01", "1.0"])
        c["tags"] = ["brew"] + [t for t in c["tags"] if t.startswith(("folds", "files"))] + ["fdr=" + c["test_fdr"], c["est_mode"]]
        cases.append(c)
    # several prediction chunks, each holding accepted targets and decoys of every fold (calibration must still be per fold,
    # over all chunks together): well separated targets, so that every part of a fold accepts some
    rng = ctx.sub("cal-brew-chunks")
    for k in range(16 if ctx.thorough else 6):
        n = rng.randint(80, 160)
        f = brewlib.gen_file(rng, n, rng.choice([2, 3]), file_idx=0, mult=(1, 2), label_enc="pm1", quality=0.95)
        parts = rng.choice([2, 3])
        cases.append({"fn": "brew", "files": [f], "folds": 2, "seed": rng.randint(0, 10 ** 6), "test_fdr": rng.choice(["0.5", "0.25"]),
                      "workers": rng.choice([1, 2]), "subset_max_train": None, "chunks": {"predict": n // parts + 1}, "fmt": "tsv",
                      "row_group": None, "est_mode": "decision",
                      "tags": ["brew", "files=1", "multi-chunk-well-separated", "chunks=%d" % parts, "decision"]})
    return cases


def _vals(c):
    return [Fraction(s, 2) if c.get("half") else Fraction(s) for s in c["scores"]]


def run_case(c):
    if c["fn"] == "brew":
        m, i = c02.run_case(c)
        return m, i
    # direct
    sc = c["scores"]              # model gets the integers (half-integers scaled by 2: order-preserving, exact)
    line = "c11.calibrate %s %s %s" % (lib.lst(sc), lib.lst(c["labels"], lib.b), lib.q(Fraction(c["thr"])))
    t = Toks(lib.run_driver([line])[0])
    m = t.result(lambda: t.lst(t.q))
    if m[0] == "err" and m[1] == "TypeError":
        m = ("err", "NonFinite")

    def impl():
        import numpy as np
        from mokapot.dataset import calibrate_scores
        e, off = c.get("affine", [0, 0])
        vals = [(Fraction(off) + v) * Fraction(2) ** e for v in _vals(c)]
        assert all(Fraction(float(v)) == v for v in vals)
        arr = np.array([float(v) for v in vals], dtype=float)
        out = calibrate_scores(arr, np.array([bool(v) for v in c["labels"]]), float(c["thr"]))
        if not np.all(np.isfinite(out)):
            raise FloatingPointError("nonfinite")
        return [Fraction(float(v)) for v in out]
    i = call_impl(impl)
    if i[0] == "err" and i[1] == "FloatingPointError":
        i = ("err", "NonFinite")
    if m[0] == "ok":
        # the affine map is invariant under the common scaling by 2
        m = ("ok", [Fraction(float(q)) for q in m[1]])
    return m, i


def same(c, m, i):
    if c["fn"] == "brew":
        return c02.same(c, m, i)
    return tuple(m) == tuple(i) if m[0] == "err" or i[0] == "err" else list(m[1]) == list(i[1])


def nontrivial(c):
    if c["fn"] == "brew":
        return True
    lab, sc = c["labels"], c["scores"]
    return 0 < sum(lab) < len(lab) and (len(set(sc)) < len(sc) or any(
        (not lab[a]) and lab[b] and sc[a] > sc[b] for a in range(len(sc)) for b in range(len(sc))))


def _qvals(scores, targets):
    from .c01 import q_spec
    from .c01 import exact_ints
    return q_spec(exact_ints([float(s) for s in scores]), targets, True)


def _check_fold(raw, targets, out, thr):
    """property: out is a strictly increasing affine image of raw with anchors 0 / -1"""
    qs = _qvals(raw, targets)
    acc = [r for r, t, q in zip(raw, targets, qs) if t and q <= thr]
    dec = sorted(r for r, t in zip(raw, targets) if not t)
    if not acc:
        return "no target accepted but scores were returned"
    if not dec:
        return None
    t0 = min(acc)
    n = len(dec)
    d0 = dec[n // 2] if n % 2 else (dec[n // 2 - 1] + dec[n // 2]) / 2
    if not d0 < t0:
        return None     # outside the property's quantifier
    for r, o in zip(raw, out):
        exp = Fraction(float((r - t0) / (t0 - d0)))
        if o != exp:
            return f"raw {r} -> {float(o)} but the anchored affine map gives {float(exp)} (t={t0}, d={d0})"
    return None


def oracle(c, i):
    if c["fn"] == "cal":
        raw = _vals(c)
        tg = [bool(v) for v in c["labels"]]
        thr = Fraction(c["thr"])
        qs = _qvals(raw, tg)
        acc = [r for r, t, q in zip(raw, tg, qs) if t and q <= thr]
        if i[0] == "err":
            if i[1] == "RuntimeError" and not acc:
                return None
            if i[1] == "NonFinite":
                return None
            if not acc:
                return f"no accepted target: expected RuntimeError, got {i[1]}"
            return f"calibration failed with {i[1]} although a target is accepted"
        return _check_fold(raw, tg, i[1], thr)
    # brew
    if i[0] != "ok" or "scored" not in i[1] or not isinstance(i[1].get("scores"), list):
        return None
    if c.get("est_mode") != "decision":
        return None
    o = i[1]
    thr = Fraction(c["test_fdr"])
    cols = o["_obs"]["cols"]
    for f, rows in enumerate(o["scored"]):
        for j, fl in enumerate(c["files"]):
            mine = [g - j * 100000 for g in rows if g // 100000 == j]
            if not mine:
                continue
            name = "rid" if cols[f] == 0 else "feat%d" % (cols[f] - 1)
            raw = [Fraction(fl["data"][name][r]) for r in mine]
            tg = [fl["targets"][r] for r in mine]
            out = [o["scores"][j][r] for r in mine]
            msg = _check_fold(raw, tg, out, thr)
            if msg:
                return f"fold {f} of file {j}: {msg}"
    return None
