"""C20 — PepXML parsing: correspondence of Model/Pepxml.v with mokapot.read_pepxml(..., to_df=True).

The harness generates the *document tree* (files -> runs -> spectrum queries -> search results ->
search hits), renders it to PepXML text itself, gives the text to the real code and the tree to
the extracted model, and compares the rows of the data frame column by column.

[R2.20] Cases of kind "table" go through the model of the WHOLE reader (Model/PepxmlPost.v, driver entry
c20.table): the options exclude_features / open_modification_bin_size / to_df and the returned table (column
names, order, dtypes, roles, which columns _log_features transformed, every cell) are compared model-vs-code;
the floating-point operations are the model's recorded oracles (record_oracles)."""
import atexit
import itertools
import math
import os
import random
import re
import shutil
import tempfile

from .. import lib
from ..lib import call_impl

PROP = "C20"
RULE = ("cases: (1) exhaustive small scope: all 0..2-modification lists over positions -1..5 on a 3-residue "
        "peptide with masses of length 1 and 3 (ascending, equal, descending, out of range), all target/decoy "
        "patterns of primary + <=3 (quick) / <=4 (thorough) alternative proteins, all run/spectrum/result/hit "
        "count shapes up to 2x2x2x2, all base_name/raw_data suffix relations; (2) random structured documents: "
        "1..3 files x 1..3 runs x 0..4 spectra x 0..2 search results x 0..4 hits, 0..5 modifications "
        "(mostly ascending), 0..3 alternative proteins with mixed prefixes and descriptions, optional "
        "attributes present/absent, namespace on/off, shuffled child order, duplicate score names, explicit and default decoy_prefix; "
        "(3) malformed stream: non-XML text, empty file, truncated / garbage-terminated XML, XML without hits, "
        "Percolator score names, missing required attributes, empty file list; "
        "(4) [white-box review] the ways of WRITING one document, one at a time and at random: XML declaration absent / "
        "without encoding / UTF-8 BOM / ISO-8859-1 / UTF-16, namespace as default, bound to a prefix, absent; LF / CRLF / "
        "no line breaks / indentation; prolog with stylesheet instruction, comments (up to 40 KB, beyond one 32 KiB read of "
        "the parser), DOCTYPE, blank padding; analysis_summary elements around the runs; comments and processing "
        "instructions between any two tags; is_rejected / mod_nterm_mass attributes; number literals as 1.5, 1.5000, "
        "1.5e+00, +1.5; file names with blanks, non-ASCII letters, no extension, and names whose sort order is the "
        "reverse of the argument order; (5) the ARGUMENTS: files as list, tuple, str, pathlib.Path, list of Path, mixed, "
        "numpy array, pandas Series with a non-default index, generator, 12 files; exclude_features as str / list / tuple "
        "of score names, derived columns, non-feature columns and unknown names; open_modification_bin_size 0.01..2.5; "
        "to_df=False (the LinearPsmDataset's data, features, spectra, targets, peptides); every combination of the three "
        "on 1..3 files; (6) VALUES: decoy prefixes that are regular-expression / glob syntax against proteins that carry "
        "the prefix and proteins one edit away from it, scan numbers 0, >= 2^31 and 2^53+odd, charges 10..25, calculated "
        "mass close to the precursor mass (mass differences 0, +-0.0001.., open-modification sized), peptides of 20..45 "
        "residues with 3..8 modifications, score values in upper-case / negative exponent notation, 0/1-only, spanning "
        "9 orders of magnitude; (7) STATE: half of the option cases and a dedicated sequence write different documents to "
        "the SAME paths one after the other (and back), calls repeated twice must agree, pandas options "
        "future.infer_string=False / string_storage=python; (8) documents of 900..5000 hits (0.4..2 MB); (9) malformed x "
        "options: missing path, directory, binary file, XML of another format, Percolator score that is also excluded, "
        "every defect combined with the options of (5).  Input classes of (5) and the path-level defects of (9) are outside "
        "the Coq model (which starts at the element tree and ends before the numeric post-processing): for them the model "
        "still supplies the rows, and the harness alone checks the bin suffix (within bin/2 of exp_mass - calc_mass, equal "
        "differences in equal bins, monotone), the untouched text of excluded columns, the dataset views and the error "
        "kind OSError.  Every numeric feature column (search scores, mass_diff, abs_mz_diff) must carry its own row's "
        "value or, for the whole column, its log10.  (10) search scores named like the parser's own keys: known finding.  "
        "[R2.20] The streams (5), (6), (8), (9) and a new exhaustive stream (11) are compared with the model of the whole "
        "reader (Model/PepxmlPost.v, entry c20.table; tag table-model): ordered column names, dtype kind of every column, "
        "every cell (texts, integers, booleans exactly; floats bit for bit), the set of log-transformed columns, the peptide "
        "WITH its bin suffix, and for to_df=False the feature list and the role of every column handed to LinearPsmDataset; "
        "the model's floating-point oracles (float(text), log10, mass_diff, abs_mz_diff, repr mantissa/exponent, bin suffix) "
        "are recorded from the document alone with the identical IEEE operations, and each recorded value is checked against "
        "its contract (extra_checks).  (11) = every boundary of the _log_features rule on one score column (max/min ratio "
        "exactly 10000, one ulp around it, binary, zeros, negatives, missing values, exponent notation with exponents 3 / 4 "
        "apart, upper case, a zero or negative or missing value beside an exponent), optional integer attributes large "
        "enough to be log-transformed, num_matched_peptides 0 / 1 / 10, charges 0..100 in numeric column order, every kind "
        "of excluded name one at a time, score texts that are no numbers (ValueError unless excluded), to_df=False without "
        "targets / decoys, equal / tiny / zero / negative mass differences over 1..2 files with and without bins.  "
        "distinct = distinct (prefix, document trees, rendering styles, options); non-trivial = >=2 hits, or a hit with >=2 "
        "modifications or >=1 alternative protein, or a malformed document")
ASSUMPTIONS = [
    "lxml (iterparse, Element.iter, Element.get) is an oracle: the model starts from the element tree; "
    "generated attribute values contain no TAB/CR/LF (XML attribute-value normalisation is not modelled); "
    "search_hit / search_score / alternative_protein / modification_info elements sit where the pepXML schema puts them "
    "(direct children), so descendant and child iteration agree",
    "search_score names that collide with the parser's own dictionary keys / derived columns "
    "(ms_data_file, scan, charge, ret_time, exp_mass, calc_mass, peptide, proteins, label, missed_cleavages, "
    "ntt, num_matched_peptides, mass_diff, abs_mz_diff, charge_<n>) break the property in /repo (known finding "
    "pepxml:score-name-collides-with-parser-key); all other streams avoid them; search_score values are numeric literals",
    "numeric attributes are decimal literals with <= 4 fractional digits (plain, zero-padded, exponent or signed form), "
    "passed to the model as integers scaled by 10^4 (the model only moves them); num_matched_peptides >= 0, "
    "missed cleavages / ntt in 0..9 (so that _log_features is the identity on them; table-model cases: any integers)",
    "[R2.20, cases tagged table-model] the DECISIONS of the post-processing are computed by Model/PepxmlPost.v; its oracles are "
    "the floating-point operations only: float(text) (contract: the correctly rounded decimal value), numpy.log10 (monotone, "
    "within 2 ulp of math.log10, log10(1)=0), mass_diff = float(exp)-float(calc) and abs_mz_diff (within rounding of the exact "
    "rational value), mantissa/exponent of repr(x) (mantissa*10^exponent is x, 1<=|mantissa|<10, exponent notation iff "
    "|x|<1e-4 or |x|>=1e16), the bin suffix (within bin/2 + 1e-4 of the mass difference, monotone; a function of the mass "
    "difference by construction); score values are finite numeric literals or plainly non-numeric texts (no inf / nan / "
    "underscore literals), masses are >= 0, open_modification_bin_size > 0; for the other cases: "
    "numeric feature post-processing (_log_features, log10 of num_matched_peptides, mass_diff, abs_mz_diff, "
    "charge one-hot, open-modification bins) is an oracle for the Coq model; the harness checks: presence of the column, "
    "float dtype (unless excluded), NaN pattern, the exact value for columns on which the transform is certainly the "
    "identity (no exponent notation, a negative value present or max/min of the non-zero values < 5000, or excluded), "
    "and for every other column that all rows carry their own value or all rows its log10 (rel 1e-9)",
    "base_name, peptide and protein attributes are always present (their absence is an AttributeError / None "
    "propagation that the model does not cover)",
    "warnings are not errors and numpy's floating-point error state is the default (log10(0) for num_matched_peptides=0 "
    "warns); logging is disabled by the runner",
]
TRUSTED_EXTRA = ["[R2.20] numpy float64 arithmetic, numpy.log10, Python float() / repr() as recorded by record_oracles (contracts checked)",
                 "lxml.etree.iterparse / Element.iter document order (oracle)",
                 "pandas DataFrame.from_records / concat / get_dummies / apply keep row order (checked by the row comparison)"]

NS = "http://regis-web.systemsbiology.net/pepXML"
SCALE = 10000
FIXED_COLS = ["ms_data_file", "scan", "charge", "ret_time", "exp_mass", "calc_mass", "peptide", "proteins",
              "label", "mass_diff", "abs_mz_diff"]
NONFEAT = {"ms_data_file", "scan", "ret_time", "label", "exp_mass", "calc_mass", "peptide", "proteins", "charge"}
PERC = ["Percolator q-Value", "Percolator PEP", "Percolator SVMScore"]

_TMP = None


def _tmpdir():
    global _TMP
    if _TMP is None:
        _TMP = tempfile.mkdtemp(prefix="c20_")
        atexit.register(shutil.rmtree, _TMP, ignore_errors=True)
    return _TMP


# ----------------------------------------------------------------------------- rendering
def esc(v):
    return (v.replace("&", "&amp;").replace("<", "&lt;").replace(">", "&gt;").replace('"', "&quot;"))


def dec(zv, style=0):
    """scaled integer -> decimal literal"""
    sign = "-" if zv < 0 else ""
    a = abs(zv)
    ip, fp = divmod(a, SCALE)
    frac = "%04d" % fp
    if style == 0:
        frac = frac.rstrip("0")
        return sign + str(ip) + ("." + frac if frac else "")
    if style == 1:
        return sign + str(ip) + "." + frac
    if style == 3:
        # scientific notation with the same decimal value: d.ddddde+XX
        digits = (str(ip) + frac).lstrip("0")
        if not digits:
            return sign + "0.0e+00"
        exp10 = len(str(ip) + frac) - len((str(ip) + frac).lstrip("0"))
        e = len(str(ip)) - 1 - exp10
        mant = digits.rstrip("0") or "0"
        return sign + mant[0] + "." + (mant[1:] or "0") + ("e%+03d" % e)
    if style == 4:
        frac = frac.rstrip("0")
        return ("+" if not sign else sign) + str(ip) + ("." + frac if frac else "")
    frac = frac.rstrip("0")
    return sign + str(ip) + "." + (frac or "0")


def nstyle(st, shift=0):
    """number-literal style of an element style: 0..2 for the old styles 0..2, 0..4 beyond"""
    return (st + shift) % 3 if st < 3 else (st + shift) % 5


def attrs(pairs):
    return "".join(f' {k}="{esc(v)}"' for k, v in pairs if v is not None)


def render_hit(h, out, rank):
    st = h.get("style", 0)
    a = [("hit_rank", str(rank)), ("peptide", h["pep"]), ("peptide_prev_aa", "K")]
    if h["calc"] is not None:
        a.append(("calc_neutral_pep_mass", dec(h["calc"], h["nstyle"] if h.get("nstyle") is not None else st % 3)))
    if h["mc"] is not None:
        a.append(("num_missed_cleavages", str(h["mc"])))
    a.append(("protein", h["prot"]))
    if h["ntt"] is not None:
        a.append(("num_tol_term", str(h["ntt"])))
    if h["nmp"] is not None:
        a.append(("num_matched_peptides", str(h["nmp"])))
    a.append(("massdiff", "0.01"))
    if h.get("rejected") is not None:
        a.append(("is_rejected", str(h["rejected"])))
    out.append("<search_hit" + attrs(a) + ">")
    kids = []
    for info in h["infos"]:
        s = ("<modification_info" + (' modified_peptide="x"' if st % 2 else "")
             + (' mod_nterm_mass="43.0184"' if h.get("nterm") else "") + ">")
        for pos, mass in info:
            if st % 2:
                s += f'<mod_aminoacid_mass mass="{esc(mass)}" position="{pos}"/>'
            else:
                s += f'\n<mod_aminoacid_mass position="{pos}" mass="{esc(mass)}" variable="1.5"/>'
        s += "</modification_info>"
        kids.append(("m", s))
    for alt in h["alts"]:
        kids.append(("a", "<alternative_protein" + attrs([("protein", alt), ("num_tol_term", "2")]) + "/>"))
    for name, val in h["scores"]:
        kids.append(("s", "<search_score" + attrs([("name", name), ("value", val)]) + "/>"))
    # interleave the three kinds, keeping the relative order inside each kind
    perm = h.get("perm")
    if perm is not None:
        rng = random.Random(perm)
        groups = {"m": [k for k in kids if k[0] == "m"], "a": [k for k in kids if k[0] == "a"],
                  "s": [k for k in kids if k[0] == "s"]}
        order = [k[0] for k in kids]
        rng.shuffle(order)
        kids = [groups[t].pop(0) for t in order]
    for _, s in kids:
        out.append(s)
    if st % 4 == 3:
        out.append('<analysis_result analysis="x"><!-- nothing --></analysis_result>')
    out.append("</search_hit>")


def render_spectrum(s, out, idx):
    st = s.get("style", 0)
    a = [("spectrum", f"sp.{idx}"), ("start_scan", "1")]
    if s["scan"] is not None:
        a.append(("end_scan", ("00" if st == 2 else ("+" if st == 7 and s["scan"] >= 0 else "")) + str(s["scan"])))
    if s["mass"] is not None:
        a.append(("precursor_neutral_mass", dec(s["mass"], nstyle(st))))
    if s["charge"] is not None:
        a.append(("assumed_charge", str(s["charge"])))
    a.append(("index", str(idx)))
    if s["rt"] is not None:
        a.append(("retention_time_sec", dec(s["rt"], nstyle(st, 1))))
    out.append("<spectrum_query" + attrs(a) + ">")
    for res in s["results"]:
        out.append("<search_result>")
        for k, h in enumerate(res):
            render_hit(h, out, k + 1)
        out.append("</search_result>")
    out.append("</spectrum_query>")


def render_run(r, out):
    a = [("base_name", r["base"]), ("raw_data_type", "raw"), ("raw_data", r["raw"])]
    out.append("<msms_run_summary" + attrs(a) + ">")
    if r.get("style", 0) % 2:
        out.append('<sample_enzyme name="Trypsin"><specificity cut="KR" no_cut="P" sense="C"/></sample_enzyme>')
        out.append(f'<search_summary base_name="{esc(r["base"])}" search_engine="X"><!-- c --></search_summary>')
    for k, s in enumerate(r["spectra"]):
        render_spectrum(s, out, k + 1)
    out.append("</msms_run_summary>")


def render_file(f):
    """the text of one file (before the byte-level choices of file_bytes)"""
    br = f.get("broken")
    fmt = f.get("fmt") or {}
    if br == "notxml":
        return "Blah\tblah\\blah\nblah\tblah\n"
    if br == "empty":
        return ""
    if br == "otherxml":
        # well-formed XML that is not PepXML at all (no msms_run_summary anywhere)
        return ('<?xml version="1.0" encoding="UTF-8"?>\n<MzIdentML id="x" version="1.1.0"><SequenceCollection>'
                '<Peptide id="p1"><PeptideSequence>PEPTIDEK</PeptideSequence></Peptide></SequenceCollection>'
                '<search_hit_count n="3"/></MzIdentML>\n')
    out = ['<?xml version="1.0" encoding="UTF-8"?>']
    for kind in fmt.get("pre", ()):
        if kind == "pi":
            out.append('<?xml-stylesheet type="text/xsl" href="pepXML_std.xsl"?>')
        elif kind == "comment":
            out.append("<!-- produced by a search engine, then converted -->")
        elif kind == "longcomment":
            out.append("<!-- " + ("padding before the root element; " * 40 + "\n") * int(fmt.get("padk", 3)) + "-->")
        elif kind == "doctype":
            out.append("<!DOCTYPE msms_pipeline_analysis>")
        elif kind == "blank":
            out.append("\n" * 50 + " " * 3000)
    if f.get("ns", True):
        out.append(f'<msms_pipeline_analysis date="2018-11-29T15:10:44" xmlns="{NS}" summary_xml="x.pepXML"'
                   + (' xmlns:xsi="http://www.w3.org/2001/XMLSchema-instance" xsi:schemaLocation="'
                      + NS + ' http://sashimi.sourceforge.net/schema_revision/pepXML/pepXML_v118.xsd"'
                      if fmt.get("xsi") else "") + ">")
    else:
        out.append('<msms_pipeline_analysis date="2018-11-29T15:10:44">')
    if fmt.get("between"):
        out.append('<analysis_summary analysis="peptideprophet" time="2018-11-29T15:10:44">'
                   '<peptideprophet_summary version="x" min_prob="0.05"><inputfile name="a.pep.xml"/>'
                   '<roc_error_data charge="all"><roc_data_point min_prob="0.9" sensitivity="0.5" error="0.01" '
                   'num_corr="10" num_incorr="1"/></roc_error_data></peptideprophet_summary></analysis_summary>')
        out.append('<dataset_derivation generation_no="0"/>')
    body0 = len(out)
    for r in f["runs"]:
        render_run(r, out)
    if fmt.get("between"):
        out.append('<analysis_summary analysis="database_refresh" time="2018-11-29T15:10:45"/>')
    if fmt.get("noise") is not None and len(out) > body0:
        # comments and processing instructions between any two tags inside the root element
        rng = random.Random(fmt["noise"])
        for _ in range(1 + (len(out) - body0) // 3):
            at = rng.randint(body0, len(out))
            out.insert(at, rng.choice(["<!-- note -->", "<?tool keep?>", "<!--search_hit peptide='X'-->",
                                       "<!-- <search_score name='ghost' value='1'/> -->"]))
        out = [x.replace("</modification_info>", "<!-- m --></modification_info>") for x in out]
    if br is None:
        out.append("</msms_pipeline_analysis>")
        if fmt.get("noise") is not None:
            out.append("<!-- trailing comment -->")
    elif br == "trunc":
        pass
    elif br == "garbage":
        out.append("<<<")
    elif br == "partial":
        # an incomplete run after the complete ones: never delivered by iterparse
        tmp = []
        render_run(f["partial_run"], tmp)
        txt = "\n".join(tmp)
        out.append(txt[: max(20, (len(txt) * 2) // 3)])
    elif br == "mismatch":
        out.append("</msms_run_summary></msms_pipeline_analysis>")
    elif br in ("missing", "isdir", "binary"):
        pass                                     # no text is used: see file_bytes / _write_files
    else:
        raise ValueError(br)
    eol = {"lf": "\n", "crlf": "\r\n", "none": "", "indent": "\n   \t"}[fmt.get("eol", "lf")]
    txt = eol.join(out) + ("\n" if eol != "" else "")
    if fmt.get("nsmode") == "prefix" and f.get("ns", True):
        # the same namespace bound to a prefix: every element name is written p:name
        txt = re.sub(r"<(/?)([A-Za-z_])", r"<\1p:\2", txt).replace(' xmlns="', ' xmlns:p="', 1)
    return txt


def file_bytes(f):
    """the bytes written to disk: encoding / byte-order mark / XML declaration choices"""
    if f.get("broken") == "binary":
        return bytes(random.Random(f.get("binseed", 0)).randrange(256) for _ in range(700))
    txt = render_file(f)
    decl = (f.get("fmt") or {}).get("decl", "utf8")
    head = '<?xml version="1.0" encoding="UTF-8"?>'
    if decl == "utf8" or not txt.startswith(head):
        return txt.encode("utf-8")
    if decl == "none":
        return txt[len(head):].lstrip("\r\n").encode("utf-8")
    if decl == "noenc":
        return ('<?xml version="1.0"?>' + txt[len(head):]).encode("utf-8")
    if decl == "bom":
        return b"\xef\xbb\xbf" + txt.encode("utf-8")
    if decl == "latin1":
        try:
            return ('<?xml version="1.0" encoding="ISO-8859-1"?>' + txt[len(head):]).encode("latin-1")
        except UnicodeEncodeError:
            return txt.encode("utf-8")
    if decl == "utf16":
        return ('<?xml version="1.0" encoding="UTF-16"?>' + txt[len(head):]).encode("utf-16")
    raise ValueError(decl)


FILE_NAMES = ["f{k}.pep.xml", "f{k}.pepXML", "sp ace {k}.pep.xml", "\u00fcn\u00ef{k}.xml", "f{k}", "f{k}.xml.txt",
              "x{k}.interact.pep.xml", "z{r}.pep.xml", "{r}_later_first.pepXML", "{m}.xml"]     # {r}, {m}: not ascending in k


# ----------------------------------------------------------------------------- tree helpers
def all_hits(case):
    """(file, run, spectrum, hit) in document order"""
    for f in case["files"]:
        for r in f["runs"]:
            for s in r["spectra"]:
                for res in s["results"]:
                    for h in res:
                        yield f, r, s, h


def score_dict(h):
    d = {}
    for n, v in h["scores"]:
        d[n] = v
    return d


def ident_cols(case):
    """score columns on which _log_features is certainly the identity"""
    vals = {}
    for _, _, _, h in all_hits(case):
        for n, v in score_dict(h).items():
            vals.setdefault(n, []).append(v)
    ok = set()
    excluded = set(exclude_names(case))
    for n, vs in vals.items():
        if n in excluded:
            ok.add(n)                       # exclude_features: the column is left exactly as parsed
            continue
        if any(("e" in v.lower()) for v in vs):
            continue
        try:
            fs = [float(v) for v in vs]
        except ValueError:
            continue
        if any(not math.isfinite(x) for x in fs):
            continue
        nz = [abs(x) for x in fs if x != 0]
        if any(x < 0 for x in fs) or not nz or max(nz) / min(nz) < 5000:
            ok.add(n)
    return ok


def exclude_names(case):
    ex = case.get("exclude")
    return list(ex["names"]) if ex else []


def spec_label(h, prefix):
    """the property text: a decoy only if every protein carries the decoy prefix"""
    prots = [p.split(" ")[0] for p in [h["prot"]] + h["alts"]]
    return not all(p.startswith(prefix) for p in prots)


PATH_BROKEN = ("missing", "isdir")


def _file_ok(f):
    return well_formed({"files": [f]})


def path_broken_first(case):
    """True when the first file that cannot be parsed is one that does not exist / is a directory"""
    for f in case["files"]:
        if f.get("broken") in PATH_BROKEN:
            return True
        if not _file_ok_modulo_perc(f):
            return False
    return False


def _file_ok_modulo_perc(f):
    import copy
    g = copy.deepcopy(f)
    for r in g["runs"]:
        for sp in r["spectra"]:
            for res in sp["results"]:
                for h in res:
                    h["scores"] = [x for x in h["scores"] if x[0] not in PERC]
    return _file_ok(g)


def well_formed(case):
    """inside the property's quantifier: every required attribute present, nothing broken, no Percolator scores"""
    if not case["files"]:
        return False
    for f in case["files"]:
        if f.get("broken") is not None:
            return False
        n = 0
        for r in f["runs"]:
            if r["raw"] is None:
                return False
            for s in r["spectra"]:
                if None in (s["scan"], s["charge"], s["rt"], s["mass"]):
                    return False
                for res in s["results"]:
                    for h in res:
                        n += 1
                        if h["calc"] is None:
                            return False
                        if any(nm in PERC for nm, _ in h["scores"]):
                            return False
        if n == 0:
            return False
    return True


def mods_ok(h):
    """modifications inside the property's quantifier: one modification_info at most, ascending positions in range"""
    if len(h["infos"]) > 1:
        return False
    for info in h["infos"]:
        ps = [p for p, _ in info]
        if any(not (1 <= p <= len(h["pep"])) for p in ps):
            return False
        if any(a >= b for a, b in zip(ps, ps[1:])):
            return False
    return True


def spec_peptide(h):
    """the property text: each listed modification directly after the modified residue"""
    at = {}
    for info in h["infos"]:
        for p, m in info:
            at.setdefault(p, []).append("[" + m + "]")
    return "".join(c + "".join(at.get(i + 1, [])) for i, c in enumerate(h["pep"]))


# ----------------------------------------------------------------------------- canonical form
def _num_or_text(v):
    """an excluded score column keeps its text, which need not be a number ([R2.20]: compared as text in the table)"""
    try:
        return float(v)
    except (TypeError, ValueError):
        return "text:" + str(v)


def canon_rows(rows, ident, table=False):
    out = []
    for r in rows:
        sc = sorted([n, (_num_or_text(v) if n in ident else "num")] for n, v in r["scores"])
        # [R2.20] table cases: the optional integer attributes may be log-transformed; they are compared in the table
        opt3 = [None, None, None] if table else [r["mc"], r["ntt"], r["nmp"]]
        out.append([r["file"], r["scan"], r["charge"], r["rt"], r["exp"], r["calc"], r["peptide"],
                    r["proteins"], bool(r["label"])] + opt3 + [sc])
    return out


def expected_columns(rows):
    cols = set(FIXED_COLS)
    for r in rows:
        cols.add(f"charge_{r['charge']}")
        if r["mc"] is not None:
            cols.add("missed_cleavages")
        if r["ntt"] is not None:
            cols.add("ntt")
        if r["nmp"] is not None:
            cols.add("num_matched_peptides")
        for n, _ in r["scores"]:
            cols.add(n)
    return sorted(cols)


# ----------------------------------------------------------------------------- model side
def enc_hit(h):
    return " ".join([
        lib.s(h["pep"]), lib.s(h["prot"]), lib.opt(h["calc"]), lib.opt(h["mc"]), lib.opt(h["ntt"]), lib.opt(h["nmp"]),
        lib.lst(h["infos"], lambda info: lib.lst(info, lambda pm: lib.z(pm[0]) + " " + lib.s(pm[1]))),
        lib.lst(h["alts"], lib.s),
        lib.lst(h["scores"], lambda nv: lib.s(nv[0]) + " " + lib.s(nv[1]))])


def enc_spectrum(s):
    return " ".join([lib.opt(s["scan"]), lib.opt(s["charge"]), lib.opt(s["rt"]), lib.opt(s["mass"]),
                     lib.lst(s["results"], lambda res: lib.lst(res, enc_hit))])


def enc_run(r):
    return " ".join([lib.s(r["base"]), lib.opt(r["raw"], lib.s), lib.lst(r["spectra"], enc_spectrum)])


def enc_file(f):
    # "otherxml" is well-formed XML without any run: the model sees an empty, unbroken tree
    return lib.lst(f["runs"], enc_run) + " " + lib.b(f.get("broken") not in (None, "otherxml"))


def encode(c):
    if c["fn"] == "read":
        return "c20.read " + lib.s(c["prefix"]) + " " + lib.lst(c["files"], enc_file)
    if c["fn"] == "table":
        return encode_table(c)
    raise ValueError(c["fn"])


def decode(c, t):
    def psm():
        r = {"file": t.s(), "scan": t.z(), "charge": t.z(), "rt": t.z(), "exp": t.z(), "calc": t.z(),
             "peptide": t.s()}
        r["protein_list"] = t.lst(t.s)
        r["proteins"] = t.s()
        r["label"] = t.b()
        r["mc"] = t.opt()
        r["ntt"] = t.opt()
        r["nmp"] = t.opt()
        r["scores"] = t.lst(lambda: (t.s(), t.s()))
        return r
    if c["fn"] == "table":
        res = t.result(lambda: (t.lst(psm), decode_table(t)))
    else:
        res = t.result(lambda: (t.lst(psm), None))
    t.done()
    if res[0] != "ok":
        if tuple(res) == ("err", "ValueError") and path_broken_first(c):
            # outside the model (which starts from element trees): a path that cannot be opened is an OSError
            return ("err", "OSError")
        return res
    rows, table = res[1]
    out = {"rows": canon_rows(rows, ident_cols(c), table=(c["fn"] == "table")), "columns": expected_columns(rows),
           "nonfloat": [], "anomalies": []}
    if table is not None:
        out["table"] = table
    return ("ok", out)



# ----------------------------------------------------------------------------- the options and the returned table (R2.20)
# Model/PepxmlPost.v computes the returned table from the parsed rows and the options; the floating-point
# computations are its oracles.  They are recorded HERE, from the document alone (never from the implementation's
# answer), with the identical IEEE operations, and their contracts are checked on every recorded value.
from fractions import Fraction

META9 = ["ms_data_file", "scan", "charge", "ret_time", "exp_mass", "calc_mass", "peptide", "proteins", "label"]
ATTR_COLS = ("ret_time", "exp_mass", "calc_mass")
_CONTRACT_FAIL = []
_COUNTS = {"float(text)": 0, "log10": 0, "mass_diff": 0, "abs_mz_diff": 0, "repr": 0, "bin suffix": 0}


def _contract(ok, what, case):
    if not ok and len(_CONTRACT_FAIL) < 50:
        _CONTRACT_FAIL.append((what, {k: v for k, v in case.items()}))


def _repr_parts(x):
    """repr(x) of a double in exponent notation -> (float(mantissa text), int(exponent text)); None otherwise"""
    r = repr(float(x)).lower()
    if "e" not in r:
        return None
    a, b = r.split("e")[:2]
    return float(a), int(b)


_ORACLES = {}


def record_oracles(case):
    """the recorded oracles of Model/PepxmlPost.v for this document (computed once per case object)"""
    got = _ORACLES.get(id(case))
    if got is None or got[0] is not case:
        got = (case, _record_oracles(case))
        _ORACLES[id(case)] = got
    return got[1]


def _record_oracles(case):
    """float(text), log10, mass_diff, abs_mz_diff, repr, the bin suffix; every one computed from the document with the
    IEEE operations of the anchored code, and checked against its contract"""
    import numpy as np
    hits = [(s, h) for _, _, s, h in all_hits(case)]
    num, md, mz, rp = {}, {}, {}, {}
    pos = set()                                   # positive doubles whose log10 may be asked for

    def add_float(x):
        """a double that sits in a float column before _log_features"""
        x = float(x)
        if x > 0 and math.isfinite(x):
            pos.add(x)
        parts = _repr_parts(x) if math.isfinite(x) and x != 0 else None
        if parts is not None:
            rp[x] = parts
            fx, fr = Fraction(x), Fraction(parts[0]) * Fraction(10) ** parts[1]
            _contract(1 <= abs(parts[0]) < 10 and abs(fr - fx) <= abs(fx) / 2 ** 52,
                      "repr: mantissa * 10^exponent is not the double (1 <= |mantissa| < 10)", case)
            _contract(abs(x) < 1e-4 or abs(x) >= 1e16, "repr: exponent notation outside |x| < 1e-4 or |x| >= 1e16", case)
            if parts[0] > 0:
                pos.add(parts[0])
        else:
            _contract(x == 0 or not math.isfinite(x) or 1e-4 <= abs(x) < 1e16,
                      "repr: positional notation inside |x| < 1e-4 or |x| >= 1e16", case)

    def add_text(t):
        if t in num:
            return
        try:
            x = float(t)
        except ValueError:
            x = None
        if x is not None and not math.isfinite(x):
            x = None                                             # inf / nan literals: not generated (assumption)
        num[t] = None if x is None else Fraction(x)
        if x is not None:
            try:
                _contract(float(Fraction(t)) == x, "float(text) is not the correctly rounded decimal value", case)
            except (ValueError, ZeroDivisionError):
                pass
            if x > 0:
                pos.add(x)

    for s, h in hits:
        for _, v in h["scores"]:
            low = v.lower()
            add_text(low)
            if "e" in low:
                add_text(low.split("e")[0])
        for k in ("mc", "ntt", "nmp"):
            if h[k] is not None and h[k] > 0:
                pos.add(float(h[k]))
        if None in (s["mass"], h["calc"]):
            continue
        e, k, z = s["mass"], h["calc"], s["charge"]
        fe, fk = e / SCALE, k / SCALE                            # == float(the attribute text): correctly rounded
        if (e, k) not in md:
            d = float(np.float64(fe) - np.float64(fk))
            md[(e, k)] = d
            _contract(abs(Fraction(d) - Fraction(e - k, SCALE)) <= (abs(Fraction(fe)) + abs(Fraction(fk)) + abs(Fraction(d))) / 2 ** 52,
                      "mass_diff: not within rounding of exp_mass - calc_mass", case)
            add_float(d)
        if z is not None and z != 0 and (e, k, z) not in mz:
            a = float(abs((np.float64(fe) / np.int64(z) + PROTON) - (np.float64(fk) / np.int64(z) + PROTON)))
            mz[(e, k, z)] = a
            _contract(abs(Fraction(a) - abs(Fraction(e - k, SCALE * z))) <= (max(abs(Fraction(fe)), abs(Fraction(fk))) / abs(z) + 2) / 2 ** 50,
                      "abs_mz_diff: not within rounding of |exp_mass - calc_mass| / charge", case)
            add_float(a)
    # log10: numpy on an array (scalar and array paths agree; math.log10 does not, by an ulp)
    lg = {}
    for _round in range(2):
        todo = sorted(x for x in pos if x not in lg)
        if not todo:
            break
        with np.errstate(all="ignore"):
            vals = np.log10(np.array(todo, dtype=np.float64))
        for x, y in zip(todo, vals.tolist()):
            lg[x] = y
            _contract(abs(y - math.log10(x)) <= 4e-16 * max(1.0, abs(y)), "log10: more than 2 ulp away from math.log10", case)
        if _round == 0:
            # num_matched_peptides is already log10(n) when _log_features sees it
            for _, h in hits:
                if h["nmp"] is not None and h["nmp"] > 0:
                    add_float(lg[float(h["nmp"])])
    ks = sorted(lg)
    _contract(all(lg[a] <= lg[b] for a, b in zip(ks, ks[1:])), "log10: not monotone", case)
    _contract(lg.get(1.0, 0.0) == 0.0, "log10(1) != 0", case)
    # bin suffix: np.arange / np.digitize / round(4) / str on the whole mass_diff column
    sfx, rng_ = {}, None
    aligned = bool(hits) and all(None not in (s["mass"], h["calc"]) for s, h in hits)
    if case.get("bin") is not None and aligned:
        size = float(case["bin"])
        col = np.array([md[(s["mass"], h["calc"])] for s, h in hits], dtype=np.float64)
        bins = np.arange(col.min(), col.max() + size, step=size)
        idx = np.digitize(col, bins) - 1
        mods = (bins[idx] + (size / 2.0)).round(4)
        for x, t in zip(col.tolist(), mods.astype(str).tolist()):
            sfx[x] = t
            _contract(abs(float(t) - x) <= size / 2 + 1e-4 + 1e-9 * max(1.0, abs(x)),
                      "bin suffix: further than bin/2 (+ rounding to 4 digits) from the mass difference", case)
        ks = sorted(sfx)
        _contract(all(float(sfx[a]) <= float(sfx[b]) for a, b in zip(ks, ks[1:])), "bin suffix: not monotone", case)
        rng_ = (float(col.min()), float(col.max()))
    for key, n in (("float(text)", len(num)), ("log10", len(lg)), ("mass_diff", len(md)), ("abs_mz_diff", len(mz)),
                   ("repr", len(rp)), ("bin suffix", len(sfx))):
        _COUNTS[key] += n
    return {"num": num, "lg": lg, "md": md, "mz": mz, "rp": rp, "sfx": sfx, "range": rng_}


def encode_table(c):
    o = record_oracles(c)
    fq = lambda x: lib.q(Fraction(x))
    parts = [
        "c20.table", lib.s(c["prefix"]), lib.lst(c["files"], enc_file),
        lib.lst(exclude_names(c), lib.s),
        lib.opt(None if c.get("bin") is None else Fraction(c["bin"]), lib.q),
        lib.b(not c.get("dataset")),
        lib.lst(sorted(o["num"].items()), lambda kv: lib.s(kv[0]) + " " + lib.opt(kv[1], lib.q)),
        lib.lst(sorted(o["lg"].items()), lambda kv: fq(kv[0]) + " " + fq(kv[1])),
        lib.lst(sorted(o["md"].items()), lambda kv: lib.z(kv[0][0]) + " " + lib.z(kv[0][1]) + " " + fq(kv[1])),
        lib.lst(sorted(o["mz"].items()),
                lambda kv: lib.z(kv[0][0]) + " " + lib.z(kv[0][1]) + " " + lib.z(kv[0][2]) + " " + fq(kv[1])),
        lib.lst(sorted(o["rp"].items()), lambda kv: fq(kv[0]) + " " + fq(kv[1][0]) + " " + lib.z(kv[1][1])),
        lib.lst(sorted(o["sfx"].items()), lambda kv: fq(kv[0]) + " " + lib.s(kv[1])),
        lib.opt(o["range"], lambda r: fq(r[0]) + " " + fq(r[1])),
    ]
    return " ".join(parts)


def _fhex(x):
    x = float(x)
    if x != x:
        return ["nan"]
    if x == float("-inf"):
        return ["-inf"]
    if x == 0:
        return ["n", (0.0).hex()]
    return ["n", x.hex()]


KINDS = ["text", "bool", "int", "float"]


def decode_table(t):
    def cell():
        tag = t.int()
        if tag == 0:
            return ["t", t.s()]
        if tag == 1:
            return ["b", t.b()]
        if tag == 2:
            return ["i", t.z()]
        if tag == 3:
            return ["a", t.z()]
        if tag == 4:
            return _fhex(t.q())          # Fraction -> float is correctly rounded: the IEEE result of the one operation
        if tag == 5:
            return ["nan"]
        if tag == 6:
            return ["-inf"]
        raise lib.ModelError(f"cell tag {tag}")

    def col():
        name = t.s()
        kind = KINDS[t.int()]
        role = t.int()
        logged = t.b()
        return name, kind, role, logged, t.lst(cell)
    cols = t.lst(col)
    roles = t.opt(lambda: {"target": t.s(), "spectrum": t.lst(t.s), "peptide": t.s(), "protein": t.s(),
                           "features": t.lst(t.s), "filename": t.s(), "scan": t.s(), "calcmass": t.s(),
                           "expmass": t.s(), "rt": t.s(), "charge": t.s()})
    return {"cols": [[n, k] for n, k, _, _, _ in cols],
            "cells": {n: cs for n, _, _, _, cs in cols},
            "logged": sorted(n for n, _, _, lg_, _ in cols if lg_),
            "badcols": [],
            # the role of a column is observable only through the dataset (to_df=False)
            "features": None if roles is None else [n for n, _, r, _, _ in cols if r == 1],
            "roles": roles}


def _kind_of(dtype):
    d = str(dtype)
    return {"float64": "float", "int64": "int", "bool": "bool"}.get(d, "text")


def _impl_table(case, df, dset):
    """the returned frame (and dataset) in the form of decode_table"""
    import pandas as pd
    names = [str(c) for c in df.columns]
    kinds = [_kind_of(df[c].dtype) for c in df.columns]
    cells = {}
    cols = df.to_dict("list")
    for name, kind in zip(names, kinds):
        out = []
        for x in cols[name]:
            if kind == "text":
                out.append(["nan"] if pd.isna(x) else ["t", str(x)])
            elif kind == "bool":
                out.append(["b", bool(x)])
            elif kind == "int":
                out.append(["i", int(x)])
            elif name in ATTR_COLS:
                out.append(["a", _unscale(x)])
            else:
                out.append(_fhex(x))
        cells[name] = out
    # which numeric columns carry log10 of the document's values (decided from the values alone)
    hits = list(all_hits(case))
    o = record_oracles(case)
    logged, bad = [], []
    for name, kind in zip(names, kinds):
        if name in META9 or kind not in ("float", "int") or len(hits) != len(df):
            continue
        if name in ("missed_cleavages", "ntt"):
            key = "mc" if name == "missed_cleavages" else "ntt"
            want = [None if h[key] is None else float(h[key]) for _, _, _, h in hits]
        elif name == "num_matched_peptides":
            want = [None if (h["nmp"] is None or h["nmp"] < 0) else (float("-inf") if h["nmp"] == 0 else o["lg"][float(h["nmp"])])
                    for _, _, _, h in hits]
        elif name == "mass_diff":
            want = [o["md"].get((s["mass"], h["calc"])) for _, _, s, h in hits]
        elif name == "abs_mz_diff":
            want = [o["mz"].get((s["mass"], h["calc"], s["charge"])) for _, _, s, h in hits]
        elif name.startswith("charge_"):
            continue
        else:
            want = []
            for _, _, _, h in hits:
                v = score_dict(h).get(name)
                try:
                    want.append(None if v is None else float(v))
                except ValueError:
                    want.append(None)
        try:
            mode = column_mode(want, cols[name], abs_tol=1e-9)
        except (TypeError, ValueError):
            mode = "bad"
        if mode == "log":
            logged.append(name)
        elif mode == "bad":
            bad.append(name)
    roles = feats = None
    if dset is not None:
        feats = [str(c) for c in dset.features.columns]
        oc = getattr(dset, "_optional_columns", None) or {}
        roles = {"target": getattr(dset, "_target_column", None),
                 "spectrum": [str(c) for c in dset.spectra.columns],
                 "peptide": getattr(dset, "_peptide_column", None), "protein": getattr(dset, "_protein_column", None),
                 "features": feats, "filename": oc.get("filename"), "scan": oc.get("scan"), "calcmass": oc.get("calcmass"),
                 "expmass": oc.get("expmass"), "rt": oc.get("rt"), "charge": oc.get("charge")}
    return {"cols": [[n, k] for n, k in zip(names, kinds)], "cells": cells, "logged": sorted(logged), "badcols": sorted(bad),
            "features": feats, "roles": roles}

# ----------------------------------------------------------------------------- implementation side
def _unscale(x):
    x = float(x)
    if math.isfinite(x):
        r = round(x * SCALE)
        if r / SCALE == x:
            return r
    return ["float", repr(x)]


def _small_int(x):
    x = float(x)
    if x != x:
        return None
    if math.isfinite(x) and x == int(x):
        return int(x)
    return ["float", repr(x)]


def _unlog(x):
    x = float(x)
    if x != x:
        return None
    if x == float("-inf"):
        return 0
    if math.isfinite(x) and x < 15:
        zv = round(10 ** x)
        if zv > 0 and math.isclose(math.log10(zv), x, rel_tol=1e-12, abs_tol=1e-12):
            return zv
    return ["float", repr(x)]


PROTON = 1.00727646677
_SHARED = None


def _shared_dir():
    global _SHARED
    if _SHARED is None:
        _SHARED = os.path.join(_tmpdir(), "shared dir")
        os.makedirs(_SHARED, exist_ok=True)
    return _SHARED


def _write_files(case, d):
    paths = []
    for k, f in enumerate(case["files"]):
        name = FILE_NAMES[(f.get("fmt") or {}).get("name", 0) % len(FILE_NAMES)].format(
            k=k, r="%02d" % (50 - k), m="bca"[k % 3] + str(k // 3))
        while os.path.join(d, name) in paths:
            name = "_" + name
        p = os.path.join(d, name)
        if os.path.isdir(p):
            shutil.rmtree(p, ignore_errors=True)
        elif os.path.exists(p):
            os.remove(p)
        if f.get("broken") == "missing":
            pass
        elif f.get("broken") == "isdir":
            os.makedirs(p, exist_ok=True)
        else:
            with open(p, "wb") as fh:
                fh.write(file_bytes(f))
        paths.append(p)
    return paths


def _argument(case, paths):
    import pathlib
    kind = case.get("arg")
    if kind is None:
        if case.get("as_str") and len(paths) == 1:
            kind = "str"
        elif case.get("as_tuple"):
            kind = "tuple"
        else:
            kind = "list"
    if kind in ("str", "path") and len(paths) != 1:
        kind = "tuple" if kind == "str" else "pathlist"
    if kind == "list":
        return list(paths)
    if kind == "tuple":
        return tuple(paths)
    if kind == "str":
        return paths[0]
    if kind == "path":
        return pathlib.Path(paths[0])
    if kind == "pathlist":
        return [pathlib.Path(p) for p in paths]
    if kind == "mixed":
        return tuple(pathlib.Path(p) if k % 2 else p for k, p in enumerate(paths))
    if kind == "nparray":
        import numpy as np
        return np.array(paths)
    if kind == "series":
        import pandas as pd
        return pd.Series(paths, index=[10 + 3 * k for k in range(len(paths))][::-1])
    if kind == "gen":
        return (p for p in paths)
    raise ValueError(kind)


def _close(a, b, abs_tol=1e-12):
    return math.isclose(a, b, rel_tol=1e-9, abs_tol=abs_tol)


def column_mode(want, got, abs_tol=1e-12):
    """how a numeric feature column carries the document's values: 'id' (unchanged), 'log' (log10 of every
    non-zero value; zeros below all of them) or 'bad'.  want: float or None per row (None: absent -> NaN)"""
    pairs = []
    for w, g in zip(want, got):
        g = float(g)
        if (w is None) != (g != g):
            return "bad"
        if w is not None:
            pairs.append((w, g))
    if all(_close(w, g, abs_tol) for w, g in pairs):
        return "id"
    if all(w >= 0 for w, _ in pairs):
        nz = [(w, g) for w, g in pairs if w != 0]
        if nz and all(math.isfinite(g) and _close(math.log10(w), g, abs_tol) for w, g in nz):
            low = min(g for _, g in nz)
            if all(g <= low for w, g in pairs if w == 0):
                return "log"
    return "bad"


def _canon_frame(case, df, excluded):
    """data frame -> canonical result"""
    cols = [str(c) for c in df.columns]
    ident = ident_cols(case)
    anomalies = []
    known = set(FIXED_COLS) | {"missed_cleavages", "ntt", "num_matched_peptides"}
    charges = set(int(c) for c in df["charge"].tolist())
    known |= {f"charge_{c}" for c in charges}
    score_cols = [c for c in cols if c not in known]
    nonfloat = sorted(c for c in cols if c not in NONFEAT and c not in excluded and str(df[c].dtype) != "float64")
    for c, want in (("scan", "int64"), ("charge", "int64"), ("ret_time", "float64"), ("exp_mass", "float64"),
                    ("calc_mass", "float64"), ("label", "bool")):
        if str(df[c].dtype) != want:
            nonfloat.append(f"{c}:{df[c].dtype}")
    recs = df.to_dict("list")
    n = len(df)
    hits = list(all_hits(case))
    aligned = len(hits) == n and all(None not in (s["mass"], s["charge"], h["calc"]) for _, _, s, h in hits)
    # ---- per-column check of the numeric features against the document (needs one row per hit)
    bad_cols = set()
    if aligned:
        for c in score_cols:
            want = []
            for _, _, _, h in hits:
                v = score_dict(h).get(c)
                try:
                    want.append(None if v is None else float(v))
                except ValueError:
                    want.append(None)
            if c in excluded:
                # left exactly as parsed: the attribute text itself (or the same number)
                for i, (_, _, _, h) in enumerate(hits):
                    v = score_dict(h).get(c)
                    raw = recs[c][i]
                    if v is None:
                        continue
                    if isinstance(raw, str) and raw != v:
                        bad_cols.add(c)
                continue
            try:
                mode = column_mode(want, [recs[c][i] for i in range(n)])
            except (TypeError, ValueError):
                mode = "bad"
            if mode == "bad" or (c in ident and mode != "id"):
                bad_cols.add(c)
        md, mz = [], []
        for _, _, s, h in hits:
            e, k, z = s["mass"] / SCALE, h["calc"] / SCALE, s["charge"]
            md.append(e - k)
            mz.append(abs((e / z + PROTON) - (k / z + PROTON)) if z != 0 else None)
        for c, want in (("mass_diff", md), ("abs_mz_diff", mz)):
            if c not in recs or any(w is None for w in want):
                continue
            try:
                mode = column_mode(want, [recs[c][i] for i in range(n)], abs_tol=1e-9)
            except (TypeError, ValueError):
                mode = "bad"
            if mode == "bad" or (c in excluded and mode != "id"):
                anomalies.append(f"{c}: the column does not carry this row's value (nor its log10)")
    # ---- open-modification bin: "[<bin centre>]" appended to the peptide
    peptides = [str(x) for x in recs["peptide"]]
    if case.get("bin") is not None:
        size = float(case["bin"])
        seen = {}
        stripped = []
        for i, pep in enumerate(peptides):
            k = pep.rfind("[")
            val = None
            if pep.endswith("]") and k >= 0:
                try:
                    val = float(pep[k + 1:-1])
                except ValueError:
                    val = None
            if val is None or not math.isfinite(val):
                anomalies.append(f"row {i}: peptide {pep!r} has no open-modification bin suffix")
                stripped.append(pep)
                continue
            d = float(recs["exp_mass"][i]) - float(recs["calc_mass"][i])
            if abs(val - d) > size / 2 + 1e-4 + 1e-9 * max(1.0, abs(d)):
                anomalies.append(f"row {i}: bin suffix {val!r} is not the bin of mass difference {d!r} (bin size {size})")
            if seen.setdefault(d, val) != val:
                anomalies.append(f"row {i}: equal mass differences {d!r} in different bins")
            stripped.append(pep[:k])
        order = sorted(seen.items())
        if any(a[1] > b[1] for a, b in zip(order, order[1:])):
            anomalies.append("bin suffixes are not monotone in the mass difference")
        peptides = stripped
    rows = []
    for i in range(n):
        sc = []
        for c in score_cols:
            v = _num_or_text(recs[c][i])
            if isinstance(v, str):
                sc.append([c, v])
                continue
            if v != v:
                continue
            if c in bad_cols:
                sc.append([c, "wrong value", repr(v)])
            else:
                sc.append([c, v if c in ident else "num"])
        # the one-hot column of this row's charge must be set, all others clear
        ch = int(recs["charge"][i])
        for c2 in charges:
            want = 1.0 if c2 == ch else 0.0
            if float(recs[f"charge_{c2}"][i]) != want:
                sc.append([f"charge_{c2}", "wrong one-hot"])
        opt3 = [None, None, None] if case["fn"] == "table" else [
            _small_int(recs["missed_cleavages"][i]) if "missed_cleavages" in recs else None,
            _small_int(recs["ntt"][i]) if "ntt" in recs else None,
            _unlog(recs["num_matched_peptides"][i]) if "num_matched_peptides" in recs else None]
        rows.append([str(recs["ms_data_file"][i]), int(recs["scan"][i]), ch,
                     _unscale(recs["ret_time"][i]), _unscale(recs["exp_mass"][i]), _unscale(recs["calc_mass"][i]),
                     peptides[i], str(recs["proteins"][i]), bool(recs["label"][i])] + opt3
                    + [sorted(sc, key=lambda x: [str(y) for y in x])])
    return {"rows": rows, "columns": sorted(cols), "nonfloat": nonfloat, "anomalies": anomalies}


def _dataset_frame(case, dset, excluded, anomalies):
    """to_df=False: the data frame inside the LinearPsmDataset, plus its public views"""
    import numpy as np
    df = dset.data
    feats = sorted(str(c) for c in dset.features.columns)
    want = sorted(str(c) for c in df.columns if str(c) not in NONFEAT and str(c) not in excluded)
    if feats != want:
        anomalies.append(f"dataset features {feats} instead of {want}")
    if [str(c) for c in dset.spectra.columns] != ["ms_data_file", "scan", "ret_time"]:
        anomalies.append(f"dataset spectrum columns {list(dset.spectra.columns)}")
    if not np.array_equal(np.asarray(dset.targets), df["label"].to_numpy()):
        anomalies.append("dataset targets differ from the label column")
    if list(dset.peptides) != list(df["peptide"]):
        anomalies.append("dataset peptides differ from the peptide column")
    if len(dset) != len(df):
        anomalies.append("len(dataset) differs from the number of rows")
    return df


def _call(case, arg):
    import mokapot
    kw = {}
    if not case.get("default_prefix"):
        kw["decoy_prefix"] = case["prefix"]          # else: decoy_prefix defaults to "decoy_"
    ex = case.get("exclude")
    if ex:
        names = list(ex["names"])
        kw["exclude_features"] = (names[0] if ex["kind"] == "str" else
                                  tuple(names) if ex["kind"] == "tuple" else names)
    if case.get("bin") is not None:
        kw["open_modification_bin_size"] = float(case["bin"])
    if not case.get("dataset"):
        kw["to_df"] = True
    return mokapot.read_pepxml(arg, **kw)


def _read(case):
    import contextlib
    import pandas as pd
    if case.get("shared"):
        d = _shared_dir()                    # the same paths are used again and again with new contents
    else:
        d = tempfile.mkdtemp(dir=_tmpdir())
    excluded = set(exclude_names(case))
    opt = case.get("pdopt")
    cm = contextlib.nullcontext()
    if opt == "infer_string_off":
        cm = pd.option_context("future.infer_string", False)
    elif opt == "storage_python":
        cm = pd.option_context("mode.string_storage", "python")
    try:
        paths = _write_files(case, d)
        outs = []
        with cm:
            for _ in range(2 if case.get("repeat") else 1):
                out = _call(case, _argument(case, paths))
                anomalies = []
                dset = None
                if case.get("dataset"):
                    dset = out
                    out = _dataset_frame(case, out, excluded, anomalies)
                res = _canon_frame(case, out, excluded)
                res["anomalies"] = anomalies + res["anomalies"]
                if case["fn"] == "table":
                    res["table"] = _impl_table(case, out, dset)
                outs.append(res)
    finally:
        if not case.get("shared"):
            shutil.rmtree(d, ignore_errors=True)
    if len(outs) == 2 and lib.jsonable(outs[0]) != lib.jsonable(outs[1]):
        outs[0]["anomalies"].append("a second identical call returned a different result")
    return outs[0]


def impl(c):
    r = call_impl(_read, c)
    if r[0] == "err" and r[1] in ("FileNotFoundError", "IsADirectoryError", "NotADirectoryError", "PermissionError"):
        return ("err", "OSError")
    return r


def same(c, m, i):
    m, i = lib.jsonable(m), lib.jsonable(i)
    try:
        # roles kept in private attributes of the dataset are compared when the implementation exposes them
        ri, rm = i[1]["table"]["roles"], m[1]["table"]["roles"]
        if ri is not None and rm is not None:
            for k, v in ri.items():
                if v is None:
                    rm[k] = None
    except (KeyError, TypeError, IndexError):
        pass
    return m == i


# ----------------------------------------------------------------------------- property oracle
def oracle(c, i):
    """the property text, evaluated on the implementation's output"""
    defects = _defects(c)
    if defects & {"broken", "perc", "nohits", "path"}:
        if tuple(i)[0] == "ok":
            return f"input with defects {sorted(defects)} (malformed / non-PepXML / Percolator-produced) was accepted"
        if defects <= {"broken", "perc"} and tuple(i) != ("err", "ValueError"):
            return f"malformed or Percolator-produced PepXML must raise ValueError, got {i!r}"
        return None
    if not well_formed(c):
        return None
    if outside_quantifier(c):
        return None
    if tuple(i)[0] != "ok":
        return f"a well-formed PepXML document was rejected: {i!r}"
    res = i[1]
    rows = res["rows"]
    hits = list(all_hits(c))
    if len(rows) != len(hits):
        return f"{len(hits)} search hits but {len(rows)} PSMs"
    ident = ident_cols(c)
    for k, (row, (f, r, s, h)) in enumerate(zip(rows, hits)):
        fname = r["base"] if r["base"].endswith(r["raw"]) else r["base"] + r["raw"]
        if row[0] != fname:
            return f"PSM {k}: data-file name {row[0]!r}, run says {fname!r}"
        for j, (nm, want) in enumerate((("scan", s["scan"]), ("charge", s["charge"]), ("retention time", s["rt"]),
                                        ("precursor mass", s["mass"]), ("calculated mass", h["calc"]))):
            if row[1 + j] != want:
                return f"PSM {k}: {nm} {row[1 + j]!r}, document says {want!r} (x{SCALE} for decimals)"
        if mods_ok(h) and row[6] != spec_peptide(h):
            return f"PSM {k}: peptide {row[6]!r}, expected {spec_peptide(h)!r} (each [mass] directly after its residue)"
        prots = [p.split(" ")[0] for p in [h["prot"]] + h["alts"]]
        if row[7] != "\t".join(prots):
            return f"PSM {k}: proteins {row[7]!r}, expected {prots!r}"
        decoy = not spec_label(h, c["prefix"])
        if row[8] != (not decoy):
            return f"PSM {k}: label {row[8]} but proteins {prots!r} with decoy prefix {c['prefix']!r}"
        have = {x[0] for x in row[12]}
        for n, v in score_dict(h).items():
            if n not in have:
                return f"PSM {k}: search score {n!r} is not a numeric feature of the PSM"
            if any(len(x) > 2 and x[0] == n and x[1] == "wrong value" for x in row[12]):
                return f"PSM {k}: search score {n!r} = {v} is carried as {[x[2] for x in row[12] if x[0] == n]}"
            if n in ident and [n, _num_or_text(v)] not in [list(x) for x in row[12]]:
                return f"PSM {k}: search score {n!r} = {v} not carried"
        if any(str(x[1]) == "wrong one-hot" for x in row[12]):
            return f"PSM {k}: charge one-hot columns do not match charge {row[2]}"
    if res["nonfloat"]:
        return f"feature columns that are not numeric: {res['nonfloat']}"
    if res.get("anomalies"):
        return "; ".join(res["anomalies"][:3])
    return None


def outside_quantifier(c):
    """well-formed documents the property text does not speak about: a search score that is no number and is not
    excluded ("all search scores as numeric features" cannot hold; the code raises ValueError), and to_df=False on a
    document without targets or without decoys (LinearPsmDataset refuses it, after the parse)"""
    excluded = set(exclude_names(c))
    for _, _, _, h in all_hits(c):
        for n, v in score_dict(h).items():
            if n in excluded:
                continue
            try:
                if not math.isfinite(float(v)):
                    return True
            except ValueError:
                return True
    if c.get("dataset") and doc_labels(c["files"], c["prefix"]) != {True, False}:
        return True
    return False


def _defects(c):
    """which kinds of defect the generated document has (property-level reading, not the model)"""
    d = set()
    if not c["files"]:
        d.add("nofiles")
    for f in c["files"]:
        if f.get("broken") in PATH_BROKEN:
            d.add("path")
        elif f.get("broken") == "otherxml":
            d.add("nohits")
        elif f.get("broken") is not None:
            d.add("broken")
        nh = 0
        for r in f["runs"]:
            if r["raw"] is None:
                d.add("attr")
            for s in r["spectra"]:
                if None in (s["scan"], s["charge"], s["rt"], s["mass"]):
                    d.add("attr")
                for res in s["results"]:
                    for h in res:
                        nh += 1
                        if h["calc"] is None:
                            d.add("attr")
                        if any(nm in PERC for nm, _ in h["scores"]):
                            d.add("perc")
        if nh == 0 and f.get("broken") is None:
            d.add("nohits")
    return d


# ----------------------------------------------------------------------------- generators
PEP_ALPHA = "ACDEFGHIKLMNPQRSTVWY"
SCORE_NAMES = ["hyperscore", "nextscore", "expect", "xcorr", "deltacn", "sp score", "e-value", "Ions", "score_1",
               "p\u00e9p", "lnrSp", "IonFrac"]


def mk_hit(pep="PEPTIDEK", prot="sp|P1|A_HUMAN desc", calc=9895821, mc=None, ntt=None, nmp=None, infos=(), alts=(),
           scores=(("hyperscore", "14.534"),), style=0, perm=None):
    return {"pep": pep, "prot": prot, "calc": calc, "mc": mc, "ntt": ntt, "nmp": nmp,
            "infos": [[[int(p), str(m)] for p, m in info] for info in infos], "alts": list(alts),
            "scores": [[n, v] for n, v in scores], "style": style, "perm": perm}


def mk_spec(results, scan=8, charge=2, rt=1233720, mass=9896051, style=0):
    return {"scan": scan, "charge": charge, "rt": rt, "mass": mass, "results": results, "style": style}


def mk_run(spectra, base="run1", raw=".mzXML", style=0):
    return {"base": base, "raw": raw, "spectra": spectra, "style": style}


def mk_file(runs, broken=None, ns=True, **kw):
    f = {"runs": runs, "broken": broken, "ns": ns}
    f.update(kw)
    return f


def mk_case(files, prefix="rev_", tags=(), **kw):
    c = {"fn": "read", "prefix": prefix, "files": files, "tags": list(tags)}
    c.update(kw)
    return c


def one_hit_case(h, prefix="rev_", tags=(), **kw):
    return mk_case([mk_file([mk_run([mk_spec([[h]])])])], prefix, tags, **kw)


def gen_exhaustive(ctx):
    cases = []
    # (a) modifications: 0..2 mods, positions -1..5 on a 3-residue peptide, masses of length 1 / 3
    masses = ["7", "1.5"]
    poss = list(range(-1, 6))
    cases.append(one_hit_case(mk_hit(pep="ACD", infos=[[]]), tags=["exh-mods", "mods=0"]))
    cases.append(one_hit_case(mk_hit(pep="ACD", infos=[]), tags=["exh-mods", "noinfo"]))
    for p in poss:
        for m in masses:
            cases.append(one_hit_case(mk_hit(pep="ACD", infos=[[(p, m)]]),
                                      tags=["exh-mods", "mods=1", "inrange" if 1 <= p <= 3 else "outofrange"]))
    for p1, p2 in itertools.product(poss, repeat=2):
        for m1, m2 in itertools.product(masses, repeat=2):
            t = "ascending" if p1 < p2 else ("equal" if p1 == p2 else "descending")
            rng_ok = "inrange" if (1 <= p1 <= 3 and 1 <= p2 <= 3) else "outofrange"
            cases.append(one_hit_case(mk_hit(pep="ACD", infos=[[(p1, m1), (p2, m2)]]),
                                      tags=["exh-mods", "mods=2", t, rng_ok]))
    # three ascending mods, all position triples on 4 residues, mass lengths mixed
    for ps in itertools.combinations(range(1, 5), 3):
        for ms in itertools.product(["9", "15.99", "-17.0265"], repeat=3):
            cases.append(one_hit_case(mk_hit(pep="KMCR", infos=[list(zip(ps, ms))]),
                                      tags=["exh-mods", "mods=3", "ascending", "inrange"]))
    # two modification_info elements (the second works on the already modified peptide)
    for p1, p2 in itertools.product(range(0, 5), repeat=2):
        cases.append(one_hit_case(mk_hit(pep="ACD", infos=[[(p1, "7")], [(p2, "1.5")]]),
                                  tags=["exh-mods", "two-modinfo"]))
    # (b) labels: primary + k alternatives, all target/decoy patterns; description after the accession
    maxalt = 4 if ctx.thorough else 3
    for k in range(0, maxalt + 1):
        for pat in itertools.product((0, 1), repeat=k + 1):
            prots = [("rev_" if d else "") + f"sp|P{j}" + (" rev_ desc" if j % 2 else "") for j, d in enumerate(pat)]
            h = mk_hit(prot=prots[0], alts=prots[1:], perm=sum(pat) * 7 + k)
            cases.append(one_hit_case(h, tags=["exh-label", f"alts={k}",
                                               "all-decoy" if all(pat) else ("all-target" if not any(pat) else "mixed")]))
    # prefix edge cases: empty prefix, prefix == accession, prefix longer than accession, prefix in the description only
    for prot, alts in [("decoy_P1 d", []), ("P1", ["decoy_P2"]), ("decoy_P1", ["decoy_P2 x"]), ("rev_P1", ["DECOY_P2"])]:
        cases.append(one_hit_case(mk_hit(prot=prot, alts=alts), prefix="decoy_", tags=["exh-label", "default-prefix"],
                                  default_prefix=True))
    for prefix, prot in [("", "P1"), ("rev_", "rev_"), ("rev_P1x", "rev_P1"), ("rev_", "P1 rev_P1"), ("rev_", " rev_P1"),
                         ("rev_", "rev_P1"), ("rev_", "REV_P1"), ("rev_", "xrev_P1"), ("decoy_", "decoy_sp|X"), ("rev_", "")]:
        for alts in ([], ["rev_A d"], ["B"]):
            cases.append(one_hit_case(mk_hit(prot=prot, alts=alts), prefix=prefix, tags=["exh-label", "prefix-edge"]))
    # (c) shapes: runs x spectra x results x hits, up to 2 each (0 allowed below the run level)
    for nr in (1, 2):
        for shape in itertools.product((0, 1, 2), repeat=nr):                    # spectra per run
            for nres, nh in itertools.product((0, 1, 2), (0, 1, 2)):
                runs = []
                uid = 0
                for ri, nsq in enumerate(shape):
                    sps = []
                    for si in range(nsq):
                        res = []
                        for qi in range(nres):
                            hs = []
                            for hi in range(nh):
                                uid += 1
                                hs.append(mk_hit(pep="PEPK"[: 1 + uid % 4] + "A" * (uid % 3), prot=f"P{uid} d",
                                                 calc=1000000 + uid, scores=[("hyperscore", f"{uid}.5")]))
                            res.append(hs)
                        sps.append(mk_spec(res, scan=10 * ri + si + 1, charge=2 + (si + ri) % 2,
                                           rt=100000 * ri + 10 * si + 5, mass=5000000 + 7 * ri + si))
                    runs.append(mk_run(sps, base=f"run{ri}", raw=".mzML"))
                nhits = sum(shape) * nres * nh
                cases.append(mk_case([mk_file(runs, ns=bool((nr + nres) % 2))],
                                     tags=["exh-shape", f"runs={nr}", "hits=0" if nhits == 0 else
                                           ("hits=1" if nhits == 1 else "hits>=2")]))
    # (d) file names
    for base, raw in [("f", ".mzXML"), ("f.mzXML", ".mzXML"), ("f.mzXML", "mzXML"), ("f.mzXML", ".mzML"), ("f", ""),
                      ("", ".raw"), (".raw", ".raw"), ("raw", ".raw"), ("a.mzXML.gz", ".mzXML"), ("f.MZXML", ".mzXML"),
                      ("dir/f.x", "f.x"), ("x", "xx"), ("xx", "x"), ("C:\\d\\f", ".mzXML"), ("f", None)]:
        cases.append(mk_case([mk_file([mk_run([mk_spec([[mk_hit()]])], base=base, raw=raw)])],
                             tags=["exh-filename"]))
    # (e) several files: all orders of three distinguishable files, 1..3 files
    def fl(k):
        return mk_file([mk_run([mk_spec([[mk_hit(pep="AAK"[: k + 1], prot=f"F{k}", scores=[(f"s{k}", "1.5"), ("hyperscore", "2")])
                                           for _ in range(k + 1)]], scan=k + 1)], base=f"file{k}")], ns=bool(k % 2))
    for n in (1, 2, 3):
        for combo in itertools.product(range(3), repeat=n):
            cases.append(mk_case([fl(k) for k in combo], tags=["exh-concat", f"files={n}"],
                                 as_str=(n == 1 and combo[0] == 0), as_tuple=(n == 2)))
    return cases


def rand_dec(rng, lo, hi):
    v = rng.randint(lo, hi)
    k = rng.choice([1, 10, 100, 1000, 10000])
    return (v // k) * k


def rand_score_val(rng, name_kind):
    k = rng.random()
    if name_kind == "sci":
        return rng.choice(["1.768e+00", "2.5e-07", "3E-3", "1e-12", "4.2e+01", "0.5"])
    if k < 0.5:
        return dec(rng.randint(1, 500000), rng.randrange(3))
    if k < 0.7:
        return str(rng.randint(0, 60))
    if k < 0.85:
        return dec(-rng.randint(1, 90000), 0)
    if k < 0.92:
        return "0"
    return rng.choice(["0.0001", "0.5", "1", "12.25"])


def rand_protein(rng, prefix, decoy):
    acc = rng.choice(["sp|P%d|X_HUMAN", "tr|Q%d", "P%d", "gi|%d|ref", "ENSP%05d", "pr\u00f6t%d", "a&b<%d>", 'q"%d\'']) % rng.randint(0, 99)
    desc = rng.choice(["", "", " desc", " Some protein OS=Homo sapiens", " " + prefix + "inside", "  two spaces"])
    return (prefix if decoy else rng.choice(["", "", "x" + prefix, prefix.upper() if prefix.upper() != prefix else ""])) + acc + desc


def rand_hit(rng, prefix, malformed=False):
    n = rng.randint(1, 12)
    pep = "".join(rng.choice(PEP_ALPHA) for _ in range(n))
    infos = []
    k = rng.random()
    if k < 0.65:
        nm = rng.choice([0, 1, 1, 2, 2, 3, 4, 5])
        nm = min(nm, n)
        ps = sorted(rng.sample(range(1, n + 1), nm))
        r2 = rng.random()
        if r2 < 0.12 and nm >= 2:
            rng.shuffle(ps)                                  # not ascending
        elif r2 < 0.2 and nm >= 1:
            ps[rng.randrange(nm)] = rng.choice([0, n + 1, n + 3, -1, -n])   # out of range
        elif r2 < 0.28 and nm >= 2:
            j = rng.randrange(nm - 1)
            ps[j + 1] = ps[j]                                # equal positions
        infos = [[(p, rng.choice(["15.9949", "57.0215", "357.2579", "42", "-17.0265", "0.98", "229.16", "1", "+16"]))
                  for p in ps]]
        if rng.random() < 0.06:
            infos.append([(rng.randint(1, n), "79.97")])
    dec_primary = rng.random() < 0.45
    nalt = rng.choice([0, 0, 0, 1, 1, 2, 3])
    alts = [rand_protein(rng, prefix, rng.random() < (0.7 if dec_primary else 0.3)) for _ in range(nalt)]
    names = rng.sample(SCORE_NAMES, rng.randint(0, 4))
    scores = []
    for nm_ in names:
        scores.append((nm_, rand_score_val(rng, "sci" if nm_ in ("expect", "e-value") and rng.random() < 0.6 else "dec")))
    if scores and rng.random() < 0.1:
        scores.append((scores[0][0], rand_score_val(rng, "dec")))          # duplicate name: the last value wins
    return mk_hit(pep=pep, prot=rand_protein(rng, prefix, dec_primary),
                  calc=rand_dec(rng, 3000000, 40000000),
                  mc=rng.choice([None, 0, 1, 2, 3]) if rng.random() < 0.8 else rng.randint(0, 9),
                  ntt=rng.choice([None, 0, 1, 2, 2]),
                  nmp=rng.choice([None, None, 0, 1, 7, 100, 1234, 99999, rng.randint(1, 100000)]),
                  infos=infos, alts=alts, scores=scores, style=rng.randrange(8), perm=rng.choice([None, rng.randrange(1000)]))


def rand_doc(rng, prefix, nfiles=None, small=False):
    files = []
    nfiles = nfiles or rng.choice([1, 1, 1, 2, 3])
    for fi in range(nfiles):
        runs = []
        for ri in range(rng.choice([1, 1, 2, 3])):
            spectra = []
            for si in range(rng.choice([0, 1, 2, 3, 4] if not small else [1, 2])):
                results = []
                for _ in range(rng.choice([1, 1, 1, 1, 0, 2])):
                    results.append([rand_hit(rng, prefix) for _ in range(rng.choice([0, 1, 1, 2, 3, 4]))])
                spectra.append(mk_spec(results, scan=rng.randint(1, 99999), charge=rng.choice([1, 2, 2, 3, 3, 4, 5, 7]),
                                       rt=rand_dec(rng, 0, 72000000), mass=rand_dec(rng, 3000000, 40000000),
                                       style=rng.randrange(3)))
            raw = rng.choice([".mzXML", ".mzML", ".raw", "", ".d"])
            base = rng.choice(["run%d", "/data/x/run%d", "run%d.mzML", "r\u00fcn %d", "run%d.raw"]) % rng.randint(0, 5)
            runs.append(mk_run(spectra, base=base, raw=raw, style=rng.randrange(2)))
        files.append(mk_file(runs, ns=rng.random() < 0.7))
    # guarantee that every file has a hit (else KeyError: covered by the malformed stream)
    for f in files:
        if not any(True for r in f["runs"] for s in r["spectra"] for res in s["results"] for _ in res):
            if not f["runs"][0]["spectra"]:
                f["runs"][0]["spectra"].append(mk_spec([[]], scan=1))
            sp = f["runs"][0]["spectra"][0]
            if not sp["results"]:
                sp["results"].append([])
            sp["results"][0].append(rand_hit(rng, prefix))
    return files


def gen_random(ctx):
    rng = ctx.sub("structured")
    cases = []
    n = 4000 if ctx.thorough else 260
    for k in range(n):
        prefix = rng.choice(["rev_", "rev_", "decoy_", "DECOY_", "XXX", "r", "###REV###"])
        files = rand_doc(rng, prefix)
        nh = sum(1 for _ in all_hits({"files": files}))
        tags = ["random", f"files={len(files)}", "hits<=3" if nh <= 3 else ("hits<=10" if nh <= 10 else "hits>10")]
        hs = [h for _, _, _, h in all_hits({"files": files})]
        if any(len(h["infos"]) and len(h["infos"][0]) >= 2 for h in hs):
            tags.append("multi-mod")
        if any(not mods_ok(h) for h in hs):
            tags.append("mods-outside-quantifier")
        if any(h["alts"] for h in hs):
            tags.append("alt-proteins")
        extra = {}
        if prefix == "decoy_" and k % 2 == 0:
            extra["default_prefix"] = True
            tags.append("default-prefix")
        cases.append(mk_case(files, prefix, tags, as_str=(len(files) == 1 and k % 3 == 0), as_tuple=(k % 5 == 0), **extra))
    return cases


def gen_malformed(ctx):
    rng = ctx.sub("malformed")
    cases = []
    good = lambda: rand_doc(rng, "rev_", nfiles=1, small=True)[0]
    # fixed shapes
    cases.append(mk_case([], tags=["malformed", "no-files"]))
    for br in ("notxml", "empty"):
        cases.append(mk_case([mk_file([], broken=br)], tags=["malformed", br]))
        cases.append(mk_case([good(), mk_file([], broken=br)], tags=["malformed", br, "after-good"]))
        cases.append(mk_case([mk_file([], broken=br), good()], tags=["malformed", br, "before-good"]))
    cases.append(mk_case([mk_file([])], tags=["malformed", "no-runs"]))
    cases.append(mk_case([mk_file([mk_run([])])], tags=["malformed", "no-hits"]))
    cases.append(mk_case([mk_file([mk_run([mk_spec([])])])], tags=["malformed", "no-hits"]))
    cases.append(mk_case([mk_file([mk_run([mk_spec([[]])])])], tags=["malformed", "no-hits"]))
    cases.append(mk_case([good(), mk_file([mk_run([mk_spec([[]])])])], tags=["malformed", "no-hits", "after-good"]))
    n = 1200 if ctx.thorough else 130
    for k in range(n):
        kind = rng.choice(["trunc", "garbage", "partial", "mismatch", "perc", "perc", "attr", "attr", "nohits", "mix"])
        files = rand_doc(rng, "rev_", nfiles=rng.choice([1, 1, 2, 3]), small=True)
        tags = ["malformed", kind]

        def break_file(f, how):
            f["broken"] = how
            if how == "partial":
                f["partial_run"] = rand_doc(rng, "rev_", nfiles=1, small=True)[0]["runs"][0]
                if rng.random() < 0.3:
                    f["partial_run"]["spectra"][0]["scan"] = None
            if rng.random() < 0.25:
                f["runs"] = []

        def drop_attr(f):
            r = rng.choice(f["runs"])
            opts = ["raw"]
            if r["spectra"]:
                opts += ["scan", "charge", "rt", "mass"] * 2
                if any(h for s in r["spectra"] for res in s["results"] for h in res):
                    opts += ["calc"] * 3
            o = rng.choice(opts)
            if o == "raw":
                r["raw"] = None
            elif o == "calc":
                hs = [h for s in r["spectra"] for res in s["results"] for h in res]
                rng.choice(hs)["calc"] = None
            else:
                rng.choice(r["spectra"])[o] = None

        def add_perc(f):
            hs = [h for r in f["runs"] for s in r["spectra"] for res in s["results"] for h in res]
            h = rng.choice(hs)
            h["scores"].append([rng.choice(PERC), "0.01"])
            if rng.random() < 0.2:
                h["scores"].append(["percolator pep", "0.5"])       # different case: legal

        f = rng.choice(files)
        if kind in ("trunc", "garbage", "partial", "mismatch"):
            break_file(f, kind)
        elif kind == "perc":
            add_perc(f)
        elif kind == "attr":
            drop_attr(f)
        elif kind == "nohits":
            for r in f["runs"]:
                for s in r["spectra"]:
                    s["results"] = [[] for _ in s["results"]]
        else:
            for g in files:
                what = rng.choice(["ok", "attr", "perc", "trunc", "partial", "nohits"])
                tags.append("mix-" + what)
                if what == "attr":
                    drop_attr(g)
                elif what == "perc":
                    add_perc(g)
                elif what in ("trunc", "partial"):
                    break_file(g, what)
                elif what == "nohits":
                    g["runs"] = [mk_run([])]
        cases.append(mk_case(files, "rev_", tags))
    # legal look-alikes of the Percolator names
    for nm in ["percolator pep", "Percolator", "Percolator PEP ", "Percolator q-value", "PeptideProphet"]:
        cases.append(one_hit_case(mk_hit(scores=[("hyperscore", "1.5"), (nm, "0.25")]), tags=["malformed", "perc-lookalike"]))
    for nm in PERC:
        cases.append(one_hit_case(mk_hit(scores=[(nm, "0.25")]), tags=["malformed", "perc"]))
    return cases


# ----------------------------------------------------------------------------- white-box review: further streams
ARG_KINDS = ["list", "tuple", "str", "path", "pathlist", "mixed", "nparray", "series", "gen"]
SPECIAL_PREFIXES = ["rev.", "decoy|", "(rev)_", "rev_+", "DECOY[1]_", "^rev_", "rev_$", "r*v_", "rev\\_", "dec?y_",
                    "{rev}", "rev_|decoy_", ".", "[a-z]+_", "d\u00e9c_", "rev_\\d"]
DECLS = ["utf8", "none", "noenc", "bom", "latin1", "utf16"]
EOLS = ["lf", "crlf", "none", "indent"]
PRES = ["pi", "comment", "longcomment", "doctype", "blank"]
BINS = ["0.01", "0.5", "1", "0.02", "0.1", "2.5"]
DERIVED = ["mass_diff", "abs_mz_diff", "missed_cleavages", "ntt", "num_matched_peptides"]
SCORE_NAMES2 = ["Expect", "delta.cn", "score (log)", "x", "Percolator PEP2", "hyperscore ", "Sp-Rank", "1st"]


def near_misses(prefix):
    """strings that almost are the prefix (str.startswith is False for each of them)"""
    out = []
    if len(prefix) >= 1:
        out.append(prefix[:-1])                                    # last character missing
        out.append(prefix[1:])                                     # first character missing
        for k in range(len(prefix)):
            ch = "X" if prefix[k] != "X" else "Y"
            out.append(prefix[:k] + ch + prefix[k + 1:])           # one character replaced
            if prefix[k].swapcase() != prefix[k]:
                out.append(prefix[:k] + prefix[k].swapcase() + prefix[k + 1:])
        out.append(prefix[: len(prefix) // 2] + "_" + prefix[len(prefix) // 2:])
        out.append(" " + prefix)
    return [x for x in dict.fromkeys(out) if not x.startswith(prefix)]


def rand_protein2(rng, prefix, decoy):
    if decoy or rng.random() < 0.5 or not near_misses(prefix):
        return rand_protein(rng, prefix, decoy)
    acc = rng.choice(["sp|P%d|X_HUMAN", "P%d", "ENSP%05d"]) % rng.randint(0, 99)
    return rng.choice(near_misses(prefix)) + acc + rng.choice(["", " desc", " " + prefix + "x"])


def rand_fmt(rng, rich=True):
    fmt = {"name": rng.randrange(len(FILE_NAMES))}
    if rng.random() < 0.6:
        fmt["decl"] = rng.choice(DECLS)
    k = rng.choice([0, 0, 1, 1, 2, 3])
    pre = rng.sample(PRES, k)
    if pre:
        fmt["pre"] = pre
        fmt["padk"] = rng.choice([1, 3, 3, 30])
    for key in ("xsi", "between"):
        if rng.random() < 0.4:
            fmt[key] = True
    if rng.random() < 0.4:
        fmt["noise"] = rng.randrange(1000)
    if rng.random() < 0.5:
        fmt["eol"] = rng.choice(EOLS)
    if rng.random() < 0.35:
        fmt["nsmode"] = "prefix"
    return fmt


def enrich_doc(rng, files, prefix):
    """value domains the first generator never leaves: number-literal styles, very large scan numbers, two-digit
    charges, calculated masses close to the precursor mass, long peptides with many modifications, N-terminal
    modification attributes, further score names / value shapes, proteins that nearly carry the prefix"""
    close = rng.random() < 0.6
    extra_name = rng.choice(SCORE_NAMES2) if rng.random() < 0.5 else None
    extra_kind = rng.choice(["negsci", "uppersci", "big", "binary", "mixedsci", "tiny"])
    for f in files:
        for r in f["runs"]:
            for s in r["spectra"]:
                s["style"] = rng.randrange(10)
                k = rng.random()
                if k < 0.04:
                    s["scan"] = 2 ** 31 + rng.randint(0, 1000)
                elif k < 0.07:
                    s["scan"] = 2 ** 53 + 1 + 2 * rng.randint(0, 1000)
                elif k < 0.1:
                    s["scan"] = 0
                if rng.random() < 0.15:
                    s["charge"] = rng.choice([10, 11, 12, 25])
                if rng.random() < 0.05:
                    s["rt"] = 0
                for res in s["results"]:
                    for h in res:
                        h["nstyle"] = rng.randrange(5)
                        if rng.random() < 0.25:
                            h["rejected"] = rng.choice([0, 1])
                        if close:
                            delta = rng.choice([0, 0, rng.randint(1, 60), rng.randint(1, 60), -rng.randint(1, 60),
                                                10000 * rng.randint(1, 3) + rng.randint(0, 40), 159949, 799663, -10078,
                                                rng.randint(1, 2000000)])
                            h["calc"] = max(1, s["mass"] - delta)
                        if rng.random() < 0.1:
                            n = rng.randint(20, 45)
                            h["pep"] = "".join(rng.choice(PEP_ALPHA) for _ in range(n))
                            ps = sorted(rng.sample(range(1, n + 1), rng.randint(3, 8)))
                            h["infos"] = [[[p_, rng.choice(["15.9949", "57.0215", "42", "-17.0265", "229.16", "1", "0.984016"])]
                                           for p_ in ps]]
                        if h["infos"] and rng.random() < 0.3:
                            h["nterm"] = True
                        if rng.random() < 0.3:
                            dec_primary = rng.random() < 0.5
                            h["prot"] = rand_protein2(rng, prefix, dec_primary)
                            h["alts"] = [rand_protein2(rng, prefix, rng.random() < (0.7 if dec_primary else 0.3))
                                         for _ in h["alts"]]
                        if extra_name is not None and rng.random() < 0.9:
                            if extra_kind == "negsci":
                                v = rng.choice(["-1.5e-03", "2.5e-07", "-4.0E+01", "0.0e+00", "7e2"])
                            elif extra_kind == "uppersci":
                                v = rng.choice(["1.768E+00", "2.5E-07", "3E-3", "1E-12", "4.2E+01"])
                            elif extra_kind == "big":
                                v = rng.choice(["123456789.5", "1000000", "0.5", "98765.4321", "3"])
                            elif extra_kind == "binary":
                                v = rng.choice(["0", "1"])
                            elif extra_kind == "tiny":
                                v = rng.choice(["0.00001", "0.5", "0", "12", "0.000002", "250000"])
                            else:
                                v = rng.choice(["1e-5", "0.5", "12", "3.5e+00", "100"])
                            h["scores"].append([extra_name, v])
    return files


def doc_labels(files, prefix):
    return {spec_label(h, prefix) for _, _, _, h in all_hits({"files": files})}


def doc_score_names(files):
    names = []
    for _, _, _, h in all_hits({"files": files}):
        for n, _ in h["scores"]:
            if n not in names:
                names.append(n)
    return names


def rand_exclude(rng, files):
    names = doc_score_names(files)
    charges = sorted({s["charge"] for _, _, s, _ in all_hits({"files": files}) if s["charge"] is not None})
    pool = names * 3 + DERIVED + [f"charge_{c}" for c in charges] + ["scan", "peptide", "no such column"]
    kind = rng.choice(["str", "list", "tuple"])
    k = 1 if kind == "str" else rng.randint(1, 3)
    return {"kind": kind, "names": list(dict.fromkeys(rng.choice(pool) for _ in range(k)))}


def rand_options(rng, files, prefix, tags):
    o = {"arg": rng.choice(ARG_KINDS)}
    tags.append("arg=" + o["arg"])
    if rng.random() < 0.4:
        o["exclude"] = rand_exclude(rng, files)
        tags.append("exclude=" + o["exclude"]["kind"])
    if rng.random() < 0.35:
        o["bin"] = rng.choice(BINS)
        tags.append("open-mod-bin")
    if rng.random() < 0.3 and doc_labels(files, prefix) == {True, False}:
        o["dataset"] = True
        tags.append("to_df=False")
    if rng.random() < 0.5:
        o["shared"] = True
        tags.append("reused-path")
    k = rng.random()
    if k < 0.06:
        o["pdopt"] = "infer_string_off"
    elif k < 0.1:
        o["pdopt"] = "storage_python"
    if "pdopt" in o:
        tags.append("pandas-option")
    if rng.random() < 0.1:
        o["repeat"] = True
        tags.append("called-twice")
    return o


def fmt_tags(files):
    t = set()
    for f in files:
        fmt = f.get("fmt") or {}
        if fmt.get("decl", "utf8") != "utf8":
            t.add("decl=" + fmt["decl"])
        if fmt.get("nsmode") == "prefix" and f.get("ns", True):
            t.add("ns=prefixed")
        if fmt.get("eol", "lf") != "lf":
            t.add("eol=" + fmt["eol"])
        if fmt.get("pre"):
            t.add("prolog")
            if "longcomment" in fmt["pre"] and fmt.get("padk", 3) >= 30:
                t.add("prolog>32K")
        if fmt.get("noise") is not None:
            t.add("comments+PIs")
        if fmt.get("between"):
            t.add("analysis_summary")
    return sorted(t)


def opt_doc(nfiles=2, prefix="rev_"):
    """a fixed small document with everything the property talks about: two runs, several hits per spectrum, several
    modifications, alternative proteins, both labels, optional attributes present and absent, exponent scores"""
    files = []
    for k in range(nfiles):
        h1 = mk_hit(pep="MPEPTCDEK", prot=prefix + "sp|Q%d|A desc" % k, calc=9895821 + k, mc=1, ntt=2, nmp=120,
                    infos=[[(1, "15.9949"), (6, "57.0215"), (9, "229.16")]], alts=[prefix + "B%d x" % k],
                    scores=[("hyperscore", "14.534"), ("expect", "1.768e+00"), ("deltacn", "0.25")], style=k)
        h2 = mk_hit(pep="TATGVQGK", prot="sp|P%d|B desc" % k, calc=9895709, mc=0, nmp=3,
                    alts=[prefix + "C", "D%d" % k], scores=[("hyperscore", "11.25"), ("expect", "2.5e-07")], style=1, perm=5)
        h3 = mk_hit(pep="RPAPLLR", prot=prefix + "E", calc=8215235 - 30 * k, ntt=1,
                    infos=[[(7, "1")]], scores=[("hyperscore", "9.293"), ("expect", "3E-3"), ("deltacn", "0")], style=2)
        h4 = mk_hit(pep="AAK", prot="F%d" % k, calc=8215200, scores=[("hyperscore", "0.5"), ("expect", "4.2e+01")])
        r1 = mk_run([mk_spec([[h1, h2]], scan=8 + k, charge=2, rt=1233720, mass=9896051),
                     mk_spec([[h3], [h4]], scan=9, charge=3, rt=1234420 + k, mass=8225355)], base="run%d" % k, style=k % 2)
        r2 = mk_run([mk_spec([[mk_hit(pep="KK", prot="G", calc=2741000, scores=[("hyperscore", "3")])]], scan=77,
                             charge=1, rt=5, mass=2741001)], base="/data/rün", raw=".raw")
        files.append(mk_file([r1, r2] if k != 1 else [r1], ns=(k != 2)))
    return files


def gen_formats(ctx):
    """every byte-level / markup-level way of writing the same document, one dimension at a time"""
    cases = []

    def add(fmt, tags, ns=True, nfiles=1):
        files = opt_doc(nfiles)
        for f in files:
            f["fmt"] = dict(fmt)
            f["ns"] = ns
        cases.append(mk_case(files, "rev_", ["formats"] + tags + fmt_tags(files)))
    for decl in DECLS:
        for ns, nsmode in ((True, None), (True, "prefix"), (False, None)):
            add({"decl": decl, **({"nsmode": nsmode} if nsmode else {})}, ["f-decl"], ns=ns)
    for eol in EOLS:
        for noise in (None, 7):
            add({"eol": eol, **({"noise": noise} if noise is not None else {})}, ["f-eol"])
    for pre in [[p] for p in PRES] + [["pi", "comment", "doctype"], ["longcomment", "pi"], ["blank", "doctype", "longcomment"]]:
        for padk in ((3, 30) if "longcomment" in pre else (3,)):
            add({"pre": pre, "padk": padk}, ["f-prolog"])
            add({"pre": pre, "padk": padk, "nsmode": "prefix", "decl": "utf16"}, ["f-prolog"])
    for xsi in (False, True):
        for between in (False, True):
            add({"xsi": xsi, "between": between, "noise": 11 if between else None}, ["f-root"], nfiles=2)
    for k in range(len(FILE_NAMES)):
        add({"name": k}, ["f-name"], nfiles=2)
    return cases


def gen_exh_options(ctx):
    """every container type of the file argument; every combination of exclude_features / open_modification_bin_size /
    to_df on 1..3 files"""
    cases = []
    for arg in ARG_KINDS:
        for n in (1, 2):
            cases.append(mk_case(opt_doc(n), "rev_", ["exh-options", "arg=" + arg, f"files={n}"], arg=arg))
    for arg, nm in (("tuple", 0), ("series", 7), ("pathlist", 8)):
        files = opt_doc(12)
        for f in files:
            f["fmt"] = {"name": nm}
        cases.append(mk_case(files, "rev_", ["exh-options", "arg=" + arg, "files=12"], arg=arg))
    excl = [None, {"kind": "str", "names": ["expect"]}, {"kind": "list", "names": ["hyperscore", "mass_diff", "ntt"]},
            {"kind": "tuple", "names": ["charge_2", "no such column", "deltacn", "num_matched_peptides", "abs_mz_diff"]}]
    for n in (1, 2, 3):
        for ex in excl:
            for b in (None, "0.01", "0.5"):
                for ds in (False, True):
                    if ex is None and b is None and not ds:
                        continue
                    tags = ["exh-options", f"files={n}"]
                    kw = {}
                    if ex is not None:
                        kw["exclude"] = ex
                        tags.append("exclude=" + ex["kind"])
                    if b is not None:
                        kw["bin"] = b
                        tags.append("open-mod-bin")
                    if ds:
                        kw["dataset"] = True
                        tags.append("to_df=False")
                    cases.append(mk_case(opt_doc(n), "rev_", tags, **kw))
    return cases


def gen_prefixes(ctx):
    """decoy prefixes made of characters that mean something to regular expressions / glob patterns, against proteins
    that carry the prefix exactly and proteins that nearly do"""
    cases = []
    for pre in SPECIAL_PREFIXES + ["rev_", "decoy_"]:
        nm = near_misses(pre)
        hits = []
        for j, lead in enumerate([pre] + nm):
            hits.append(mk_hit(pep="PEPK"[: 1 + j % 4] + "A" * (j % 3), prot=lead + f"sp|P{j}|X d", calc=1000000 + j,
                               scores=[("hyperscore", f"{j}.5")]))
        for j, lead in enumerate(nm[:6]):
            hits.append(mk_hit(pep="KK" + "C" * (j % 3), prot=pre + f"Q{j}", alts=[lead + f"R{j} d", pre + "S"],
                               calc=2000000 + j, scores=[("hyperscore", f"{j}.25")], perm=j))
            hits.append(mk_hit(pep="RR" + "D" * (j % 3), prot=pre + f"T{j} " + lead, alts=[pre + f"U{j} " + lead],
                               calc=3000000 + j, scores=[("hyperscore", f"{j}.75")]))
        hits.append(mk_hit(pep="AK", prot=pre, scores=[("hyperscore", "1")]))
        sp = [mk_spec([hits[i:i + 4]], scan=i + 1, charge=2 + i % 2) for i in range(0, len(hits), 4)]
        cases.append(mk_case([mk_file([mk_run(sp)])], pre, ["prefix-special" if pre in SPECIAL_PREFIXES else "prefix-plain",
                                                            "near-miss-proteins"]))
    return cases


def gen_options(ctx):
    rng = ctx.sub("options")
    cases = []
    n = 5000 if ctx.thorough else 420
    for k in range(n):
        prefix = rng.choice(["rev_", "rev_", "rev_", "decoy_", "DECOY_", "XXX", "r"] + SPECIAL_PREFIXES)
        files = rand_doc(rng, prefix)
        enrich_doc(rng, files, prefix)
        tags = ["options", f"files={len(files)}"]
        if prefix in SPECIAL_PREFIXES:
            tags.append("prefix-special")
        for f in files:
            if rng.random() < 0.8:
                f["fmt"] = rand_fmt(rng)
        opts = rand_options(rng, files, prefix, tags)
        if prefix == "decoy_" and k % 2 == 0:
            opts["default_prefix"] = True
            tags.append("default-prefix")
        hs = [h for _, _, _, h in all_hits({"files": files})]
        tags.append("hits<=3" if len(hs) <= 3 else ("hits<=10" if len(hs) <= 10 else "hits>10"))
        if any(h["alts"] for h in hs):
            tags.append("alt-proteins")
        if any(len(h["infos"]) and len(h["infos"][0]) >= 2 for h in hs):
            tags.append("multi-mod")
        if any(s["scan"] is not None and s["scan"] >= 2 ** 31 for _, _, s, _ in all_hits({"files": files})):
            tags.append("scan>=2^31")
        cases.append(mk_case(files, prefix, tags + fmt_tags(files), **opts))
    return cases


def big_doc(rng, prefix, nhits, nfiles):
    files = []
    per = max(1, nhits // nfiles)
    for fi in range(nfiles):
        runs = []
        left = per
        ri = 0
        while left > 0:
            spectra = []
            for si in range(rng.randint(40, 120)):
                if left <= 0:
                    break
                nh = min(left, rng.choice([1, 1, 2, 3, 5]))
                left -= nh
                spectra.append(mk_spec([[rand_hit(rng, prefix) for _ in range(nh)]], scan=1000 * ri + si + 1,
                                       charge=rng.choice([1, 2, 2, 3, 3, 4]), rt=rand_dec(rng, 0, 72000000),
                                       mass=rand_dec(rng, 3000000, 40000000), style=rng.randrange(10)))
            runs.append(mk_run(spectra, base=f"big{fi}_{ri}", raw=".mzML", style=ri % 2))
            ri += 1
        files.append(mk_file(runs, ns=bool(fi % 2 == 0)))
    enrich_doc(rng, files, prefix)
    return files


def gen_big(ctx):
    """documents far larger than one read buffer of the parser (lxml.iterparse reads 32 KiB at a time)"""
    rng = ctx.sub("big")
    cases = []
    plan = [(900, 1, {}), (1200, 3, {"bin": "0.02", "exclude": {"kind": "list", "names": ["expect", "ntt"]}, "shared": True})]
    if ctx.thorough:
        plan += [(5000, 2, {"arg": "pathlist"}), (3000, 1, {"bin": "0.5", "dataset": True})]
    for nhits, nfiles, opts in plan:
        files = big_doc(rng, "rev_", nhits, nfiles)
        for f in files:
            f["fmt"] = rand_fmt(rng)
        if opts.get("dataset") and doc_labels(files, "rev_") != {True, False}:
            opts = {k: v for k, v in opts.items() if k != "dataset"}
        tags = ["big", f"files={nfiles}", "hits>=900"] + fmt_tags(files)
        if "bin" in opts:
            tags.append("open-mod-bin")
        if "exclude" in opts:
            tags.append("exclude=" + opts["exclude"]["kind"])
        if opts.get("dataset"):
            tags.append("to_df=False")
        cases.append(mk_case(files, "rev_", tags, **opts))
    return cases


def gen_state(ctx):
    """call order and leftovers: different documents written to the SAME paths one after the other (and back again),
    with the same and with another decoy prefix; every one is also read twice"""
    rng = ctx.sub("state")
    cases = []
    docs = [rand_doc(rng, "rev_", nfiles=2, small=True) for _ in range(3 if not ctx.thorough else 8)]
    seq = list(range(len(docs))) + list(range(len(docs)))[::-1] + [0]
    for j, k in enumerate(seq):
        import copy
        files = copy.deepcopy(docs[k])
        for f in files:
            f["fmt"] = {"name": 0}
        cases.append(mk_case(files, "rev_" if j % 3 else "r", ["state", "reused-path", "called-twice"], shared=True,
                             repeat=True, arg="tuple" if j % 2 else "list", seq=j))
    return cases


def gen_malformed2(ctx):
    rng = ctx.sub("malformed2")
    cases = []
    good = lambda: rand_doc(rng, "rev_", nfiles=1, small=True)[0]
    for br in PATH_BROKEN + ("binary", "otherxml"):
        cases.append(mk_case([mk_file([], broken=br)], tags=["malformed", br]))
        cases.append(mk_case([good(), mk_file([], broken=br)], tags=["malformed", br, "after-good"], arg="pathlist"))
        cases.append(mk_case([mk_file([], broken=br), good()], tags=["malformed", br, "before-good"], arg="tuple"))
        cases.append(mk_case([good(), mk_file([], broken=br), mk_file([], broken="notxml")],
                             tags=["malformed", br, "after-good"], shared=True))
    n = 1000 if ctx.thorough else 120
    for k in range(n):
        kind = rng.choice(["trunc", "garbage", "partial", "mismatch", "perc", "perc", "attr", "nohits", "binary", "missing"])
        files = rand_doc(rng, "rev_", nfiles=rng.choice([1, 2, 3]), small=True)
        enrich_doc(rng, files, "rev_")
        tags = ["malformed", "malformed+options", kind]
        for f in files:
            if rng.random() < 0.7:
                f["fmt"] = rand_fmt(rng)
        opts = rand_options(rng, files, "rev_", tags)
        opts.pop("dataset", None)
        j = rng.randrange(len(files))
        f = files[j]
        hs = [h for r in f["runs"] for s in r["spectra"] for res in s["results"] for h in res]
        if kind in ("trunc", "garbage", "mismatch", "binary", "missing"):
            f["broken"] = kind
            f["binseed"] = rng.randrange(1000)
            if kind == "missing":
                files[j] = mk_file([], broken="missing", fmt=f.get("fmt"))
        elif kind == "partial":
            f["broken"] = "partial"
            f["partial_run"] = rand_doc(rng, "rev_", nfiles=1, small=True)[0]["runs"][0]
        elif kind == "perc":
            nm = rng.choice(PERC)
            rng.choice(hs)["scores"].append([nm, "0.01"])
            if rng.random() < 0.5:
                opts["exclude"] = {"kind": rng.choice(["str", "list"]), "names": [nm]}      # excluding it does not legalise it
                tags.append("perc-excluded")
        elif kind == "attr":
            sp = rng.choice([s for r in f["runs"] for s in r["spectra"]])
            o = rng.choice(["scan", "charge", "rt", "mass", "calc"])
            if o == "calc":
                rng.choice(hs)["calc"] = None
            else:
                sp[o] = None
        elif kind == "nohits":
            for r in f["runs"]:
                for s in r["spectra"]:
                    s["results"] = [[] for _ in s["results"]]
        cases.append(mk_case(files, "rev_", tags + fmt_tags(files), **opts))
    return cases


RESERVED = ["ms_data_file", "scan", "charge", "ret_time", "exp_mass", "calc_mass", "peptide", "proteins", "label",
            "missed_cleavages", "ntt", "num_matched_peptides", "mass_diff", "abs_mz_diff"]
KEY_COLLISION = "pepxml:score-name-collides-with-parser-key"


def collides(case):
    """a search_score named like one of the parser's own dictionary keys / derived columns"""
    charges = {f"charge_{s['charge']}" for _, _, s, _ in all_hits(case)}
    return any(n in RESERVED or n in charges for _, _, _, h in all_hits(case) for n, _ in h["scores"])


def finding_key(c, m, i):
    if c.get("fn") == "read" and collides(c):
        return KEY_COLLISION
    return None


def gen_collisions(ctx):
    """search scores named like the parser's own keys (a known finding: the score and the field overwrite each other)"""
    cases = []
    for name in RESERVED + ["charge_2", "charge_3"]:
        h1 = mk_hit(pep="PEPTIDEK", prot="rev_P1 d", alts=["rev_P2"], scores=[("hyperscore", "14.5"), (name, "0.75")],
                    mc=1, ntt=2, nmp=10, infos=[[(1, "5")]], perm=3)
        h2 = mk_hit(pep="AAK", prot="P3 d", scores=[("hyperscore", "4.5"), (name, "0.25")], mc=1, ntt=2, nmp=10)
        cases.append(mk_case([mk_file([mk_run([mk_spec([[h1, h2]])])])], tags=["score-name-collision"]))
        cases.append(mk_case([mk_file([mk_run([mk_spec([[h2], [mk_hit(scores=[("hyperscore", "1.5")])]])])])],
                             tags=["score-name-collision"]))
    return cases


def extra_checks(ctx):
    """[R2.20] the contracts of the recorded floating-point oracles, checked on every value recorded during the run"""
    fails, seen = [], set()
    for what, c in _CONTRACT_FAIL:
        if what in seen:
            continue
        seen.add(what)
        fails.append({"what": "oracle contract: " + what, "failing_input": c})
    return fails[:10], {"oracle_values_checked": dict(_COUNTS)}


def tbl_doc(cols, charges=None, deltas=None, mc=None, ntt=None, nmp=None, decoys=None, nfiles=1, order=None):
    """n hits (one per spectrum, spread over nfiles files); cols: {score name: [text or None per hit]}"""
    n = len(next(iter(cols.values()))) if cols else len(charges or deltas or mc or ntt or nmp or decoys)
    hits = []
    for i in range(n):
        scores = [("hyperscore", f"{i + 1}.5")]
        for name in (order[i] if order else list(cols)):
            if cols[name][i] is not None:
                scores.append((name, cols[name][i]))
        mass = 9896051 + 1000 * i
        delta = deltas[i] if deltas else 230 * (i + 1)
        dec_ = decoys[i] if decoys else bool(i % 2)
        h = mk_hit(pep="PEPK"[: 2 + i % 3] + "R" * (i % 2), prot=("rev_" if dec_ else "") + f"P{i} d", calc=mass - delta,
                   mc=mc[i] if mc else None, ntt=ntt[i] if ntt else None, nmp=nmp[i] if nmp else None, scores=scores)
        hits.append(mk_spec([[h]], scan=i + 1, charge=charges[i] if charges else 2 + i % 2, mass=mass, rt=100000 + i))
    per = max(1, -(-n // nfiles))
    return [mk_file([mk_run(hits[k:k + per], base=f"t{k}")]) for k in range(0, n, per)]


# value lists of one score column, chosen at the boundaries of _log_features
TBL_VALUES = [
    # max / min of the non-zero values against 10000 (1.1 / 11000: the exact quotient is below 10000, the double is not)
    ["1", "10000"], ["1", "9999.9999"], ["0.00001", "0.1"], ["1.1", "11000"], ["0.3", "3000"], ["0.7", "7000"],
    ["1.3", "13000"], ["1.7", "17000"], ["1.9", "19000"], ["0.0003", "3"], ["2", "19999.999999999996"], ["5", "50000", "7"],
    # binary / zeros / missing / negative
    ["0", "1", "1"], ["0", "0"], ["1", "1"], ["0", "1", None], ["0", "20000", "1"], ["0", "0", "5"], ["0", "2", "20000"],
    ["-1", "5", "50000"], ["-0", "1", "10000"], [None, "3", None], ["0.5", None, "5000"], ["0", None, "0"],
    # exponent notation: powers 4 apart or not, upper case, a missing / zero / negative value beside it
    ["1e-5", "1e-1"], ["1e-4", "1e-1"], ["1e-4", "5"], ["2e-3", "90"], ["2.5E-07", "0.1"], ["2.5e-07", None, "0.1"],
    ["0e0", "1e-9"], ["-1e-5", "1e5"], ["1e5", "1e1"], ["1e+05", "10"], ["1.768e+00", "4.2e+01"], ["3E-3", "30"],
    ["1e-12", "0.5", "7e2"], ["2.5e-07", "0", "25"], ["0.0e+00", "1e-9", "1"],
]


def gen_table_exh(ctx):
    """[R2.20] the decisions of the post-processing, one at a time: every boundary of the _log_features rule on a score
    column, optional integer attributes that are logged, charges in numeric order, every kind of excluded column,
    texts that are no numbers, to_df=False without targets / decoys, equal mass differences in several files"""
    cases = []

    def add(files, tags, **kw):
        cases.append(mk_case(files, "rev_", ["table-exh"] + tags, **kw))
    for vals in TBL_VALUES:
        for ex in (None, {"kind": "str", "names": ["s"]}):
            for ds in ((False, True) if len(vals) >= 2 else (False,)):
                kw = {}
                if ex:
                    kw["exclude"] = ex
                if ds:
                    kw["dataset"] = True
                add(tbl_doc({"s": vals}), ["log-rule"] + (["exclude=str"] if ex else []) + (["to_df=False"] if ds else []), **kw)
    # two score columns with different decisions; first appearance order of the names across hits and files
    add(tbl_doc({"a": ["1", "20000", None], "b": [None, "0.5", "2"]}, order=[["a"], ["b", "a"], ["b"]], nfiles=2),
        ["column-order"])
    add(tbl_doc({"b": [None, "1e-9", "2"], "a": ["1", "2", "3"]}, mc=[None, 1, 2], ntt=[2, None, None], nmp=[None, None, 5],
                order=[["a"], ["b", "a"], ["a", "b"]], nfiles=3), ["column-order"])
    # optional integer attributes
    for mc, ntt, nmp in [([1, 10000, 3], [2, 2, 2], [0, 10, 1]), ([0, 1, 1], [0, 0, 0], [1, 10, 10]),
                         ([1, None, 20000], [None, 1, 2], [1, 100, None]), ([3, 3, 3], [1, 2, 30000], [7, 0, 1234]),
                         ([None, None, 2], [1, 1, 1], [1, 1, 1])]:
        for ex in (None, {"kind": "list", "names": ["missed_cleavages", "num_matched_peptides"]},
                   {"kind": "tuple", "names": ["ntt", "hyperscore"]}):
            add(tbl_doc({"s": ["1", "2", "3"]}, mc=mc, ntt=ntt, nmp=nmp), ["optional-ints"] + (["exclude=" + ex["kind"]] if ex else []),
                **({"exclude": ex} if ex else {}))
    # charges: numeric order of the one-hot columns, two-digit charges, charge 0 (abs_mz_diff NaN)
    for ch in ([10, 2, 2, 1], [3, 3, 3], [12, 11, 9, 100], [0, 2, 10], [7, 1]):
        for ex in (None, {"kind": "list", "names": [f"charge_{ch[0]}", "charge"]}):
            add(tbl_doc({"s": [str(k + 1) for k in range(len(ch))]}, charges=ch), ["charges"] + (["exclude=list"] if ex else []),
                **({"exclude": ex} if ex else {}))
    # every kind of excluded name
    base = lambda: tbl_doc({"s": ["1e-5", "0.1", "3"], "u": ["4", "5", None]}, mc=[1, 2, 3], nmp=[10, 100, 1000],
                           deltas=[1, 100000, 30])
    for nm in ["s", "u", "hyperscore", "missed_cleavages", "num_matched_peptides", "mass_diff", "abs_mz_diff", "charge_2",
               "charge_3", "charge", "label", "peptide", "ms_data_file", "no such column", "S", "s "]:
        for kind in ("str", "list"):
            add(base(), ["exclude-each", "exclude=" + kind], exclude={"kind": kind, "names": [nm]})
    add(base(), ["exclude-each", "exclude=tuple"], exclude={"kind": "tuple", "names": ["s", "u", "mass_diff", "charge_2", "x"]})
    # texts that are no numbers: ValueError unless the column is excluded, then the text is kept
    for vals in (["N/A", "2"], ["1,5", "2"], ["", "2"], ["1e", "2"], ["e5", "2"], ["1e5e2", "3"], ["0x10", "2"]):
        add(tbl_doc({"s": vals}), ["non-numeric"])
        add(tbl_doc({"s": vals}), ["non-numeric", "exclude=str"], exclude={"kind": "str", "names": ["s"]})
        add(tbl_doc({"s": vals}), ["non-numeric", "exclude=list"], exclude={"kind": "list", "names": ["hyperscore"]})
    # to_df=False: both labels needed
    for dec_ in ([False, False, False], [True, True], [True, False, True], [False]):
        for ex in (None, {"kind": "str", "names": ["s"]}):
            add(tbl_doc({"s": [str(3 * k + 1) for k in range(len(dec_))]}, decoys=dec_), ["dataset-labels", "to_df=False"],
                dataset=True, **({"exclude": ex} if ex else {}))
    # mass differences: equal ones in different files (one suffix), tiny ones (exponent notation in the float column),
    # zero, negative
    for deltas in ([230, 230, 460, 230], [1, 100000, 30, 1], [0, 0, 0], [1, 2, 3], [-5, 5, 159949, -10078], [0, 1, 20000],
                   [7, 70000], [3, 3]):
        for b in (None, "0.01", "0.5"):
            for nf in (1, 2):
                for ex in (None, {"kind": "list", "names": ["mass_diff"]}):
                    kw = {}
                    if b:
                        kw["bin"] = b
                    if ex:
                        kw["exclude"] = ex
                    add(tbl_doc({"s": [str(k + 1) for k in range(len(deltas))]}, deltas=deltas, nfiles=nf,
                                charges=[2] * len(deltas)),
                        ["mass-diffs", f"files={nf}"] + (["open-mod-bin"] if b else []) + (["exclude=list"] if ex else []), **kw)
    return cases


def as_table(cases):
    """[R2.20] these cases are compared with the model of the whole reader (Model/PepxmlPost.v, entry c20.table)"""
    for c in cases:
        if not collides(c):
            c["fn"] = "table"
            c["tags"].append("table-model")
    return cases


def gen(ctx):
    return (gen_collisions(ctx) + gen_exhaustive(ctx) + gen_random(ctx) + gen_malformed(ctx)
            + gen_formats(ctx) + as_table(gen_exh_options(ctx)) + gen_prefixes(ctx) + as_table(gen_options(ctx))
            + as_table(gen_big(ctx)) + gen_state(ctx) + as_table(gen_malformed2(ctx)) + as_table(gen_table_exh(ctx)))


def nontrivial(c):
    if "malformed" in c.get("tags", []):
        return True
    hs = [h for _, _, _, h in all_hits(c)]
    return len(hs) >= 2 or any(h["alts"] or sum(len(i) for i in h["infos"]) >= 2 for h in hs)


# ----------------------------------------------------------------------------- shrinking
def shrink(c):
    import copy
    for key in ("exclude", "bin", "dataset", "pdopt", "repeat", "arg", "shared"):
        if c.get(key):
            yield {k: v for k, v in c.items() if k != key}
    for fi, f in enumerate(c["files"]):
        if f.get("fmt"):
            c2 = copy.deepcopy(c)
            c2["files"][fi]["fmt"] = None
            yield c2
            for key in list(f["fmt"]):
                c2 = copy.deepcopy(c)
                del c2["files"][fi]["fmt"][key]
                yield c2
    files = c["files"]
    if len(files) > 1:
        for k in range(len(files)):
            yield dict(c, files=files[:k] + files[k + 1:])
    for fi, f in enumerate(files):
        for ri in range(len(f["runs"])):
            if len(f["runs"]) > 1:
                c2 = copy.deepcopy(c)
                del c2["files"][fi]["runs"][ri]
                yield c2
        for ri, r in enumerate(f["runs"]):
            for si in range(len(r["spectra"])):
                if len(r["spectra"]) > 1:
                    c2 = copy.deepcopy(c)
                    del c2["files"][fi]["runs"][ri]["spectra"][si]
                    yield c2
            for si, s in enumerate(r["spectra"]):
                for qi, res in enumerate(s["results"]):
                    if len(s["results"]) > 1:
                        c2 = copy.deepcopy(c)
                        del c2["files"][fi]["runs"][ri]["spectra"][si]["results"][qi]
                        yield c2
                    for hi, h in enumerate(res):
                        if len(res) > 1:
                            c2 = copy.deepcopy(c)
                            del c2["files"][fi]["runs"][ri]["spectra"][si]["results"][qi][hi]
                            yield c2
                        for key in ("alts", "scores", "infos"):
                            for j in range(len(h[key])):
                                c2 = copy.deepcopy(c)
                                del c2["files"][fi]["runs"][ri]["spectra"][si]["results"][qi][hi][key][j]
                                yield c2
                        for ii, info in enumerate(h["infos"]):
                            for j in range(len(info)):
                                c2 = copy.deepcopy(c)
                                del c2["files"][fi]["runs"][ri]["spectra"][si]["results"][qi][hi]["infos"][ii][j]
                                yield c2
                        for key in ("mc", "ntt", "nmp", "perm"):
                            if h.get(key) is not None:
                                c2 = copy.deepcopy(c)
                                c2["files"][fi]["runs"][ri]["spectra"][si]["results"][qi][hi][key] = None
                                yield c2
