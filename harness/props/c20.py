"""C20 — PepXML parsing: correspondence of Model/Pepxml.v with mokapot.read_pepxml(..., to_df=True).

The harness generates the *document tree* (files -> runs -> spectrum queries -> search results ->
search hits), renders it to PepXML text itself, gives the text to the real code and the tree to
the extracted model, and compares the rows of the data frame column by column."""
import atexit
import itertools
import math
import os
import random
import shutil
import tempfile

from .. import lib
from ..lib import call_impl

PROP = "C20"
RULE = ("cases: (1) exhaustive small scope: all 0..2-modification lists over positions -1..5 on a 3-residue "
        "peptide with masses of length 1 and 3 (ascending, equal, descending, out of range), all target/decoy "
        "patterns of primary + <=3 (quick) / <=4 (thorough) alternative proteins, all run/spectrum/result/hit "
        "count shapes up to 2x2x2x2, all base_name/raw_data suffix relations; (2) random structured documents: "
        "1..3 files x 1..3 runs x 0..4 spectra x 0..2 search results x 0..4 hits, 0..5 modifications "
        "(mostly ascending), 0..3 alternative proteins with mixed prefixes and descriptions, optional "
        "attributes present/absent, namespace on/off, shuffled child order, duplicate score names, explicit and default decoy_prefix; "
        "(3) malformed stream: non-XML text, empty file, truncated / garbage-terminated XML, XML without hits, "
        "Percolator score names, missing required attributes, empty file list.  distinct = distinct "
        "(prefix, document trees, rendering styles); non-trivial = >=2 hits, or a hit with >=2 modifications or "
        ">=1 alternative protein, or a malformed document")
ASSUMPTIONS = [
    "lxml (iterparse, Element.iter, Element.get) is an oracle: the model starts from the element tree; "
    "generated attribute values contain no TAB/CR/LF (XML attribute-value normalisation is not modelled)",
    "search_score names never collide with the parser's own dictionary keys / derived columns "
    "(ms_data_file, scan, charge, ret_time, exp_mass, calc_mass, peptide, proteins, label, missed_cleavages, "
    "ntt, num_matched_peptides, mass_diff, abs_mz_diff, charge_<n>); search_score values are numeric literals",
    "numeric attributes are decimal literals with <= 4 fractional digits, passed to the model as integers "
    "scaled by 10^4 (the model only moves them); num_matched_peptides >= 0, missed cleavages / ntt in 0..9 "
    "(so that _log_features is the identity on them)",
    "numeric feature post-processing (_log_features, log10 of num_matched_peptides, mass_diff, abs_mz_diff, "
    "charge one-hot) is an oracle: compared are presence of the column, float dtype, NaN pattern, and the value "
    "only for columns on which the transform is certainly the identity (no exponent notation, a negative value "
    "present or max/min of the non-zero values < 5000)",
    "base_name, peptide and protein attributes are always present (their absence is an AttributeError / None "
    "propagation that the model does not cover)",
]
TRUSTED_EXTRA = ["lxml.etree.iterparse / Element.iter document order (oracle)",
                 "pandas DataFrame.from_records / concat / get_dummies / apply keep row order (checked by the row comparison)"]

NS = "http://regis-web.systemsbiology.net/pepXML"
SCALE = 10000
FIXED_COLS = ["ms_data_file", "scan", "charge", "ret_time", "exp_mass", "calc_mass", "peptide", "proteins",
              "label", "mass_diff", "abs_mz_diff"]
NONFEAT = {"ms_data_file", "scan", "ret_time", "label", "exp_mass", "calc_mass", "peptide", "proteins", "charge"}
PERC = ["Percolator q-Value", "Percolator PEP", "Percolator SVMScore"]

_TMP = None


def _tmpdir():
    global _TMP
    if _TMP is None:
        _TMP = tempfile.mkdtemp(prefix="c20_")
        atexit.register(shutil.rmtree, _TMP, ignore_errors=True)
    return _TMP


# ----------------------------------------------------------------------------- rendering
def esc(v):
    return (v.replace("&", "&amp;").replace("<", "&lt;").replace(">", "&gt;").replace('"', "&quot;"))


def dec(zv, style=0):
    """scaled integer -> decimal literal"""
    sign = "-" if zv < 0 else ""
    a = abs(zv)
    ip, fp = divmod(a, SCALE)
    frac = "%04d" % fp
    if style == 0:
        frac = frac.rstrip("0")
        return sign + str(ip) + ("." + frac if frac else "")
    if style == 1:
        return sign + str(ip) + "." + frac
    frac = frac.rstrip("0")
    return sign + str(ip) + "." + (frac or "0")


def attrs(pairs):
    return "".join(f' {k}="{esc(v)}"' for k, v in pairs if v is not None)


def render_hit(h, out, rank):
    st = h.get("style", 0)
    a = [("hit_rank", str(rank)), ("peptide", h["pep"]), ("peptide_prev_aa", "K")]
    if h["calc"] is not None:
        a.append(("calc_neutral_pep_mass", dec(h["calc"], st % 3)))
    if h["mc"] is not None:
        a.append(("num_missed_cleavages", str(h["mc"])))
    a.append(("protein", h["prot"]))
    if h["ntt"] is not None:
        a.append(("num_tol_term", str(h["ntt"])))
    if h["nmp"] is not None:
        a.append(("num_matched_peptides", str(h["nmp"])))
    a.append(("massdiff", "0.01"))
    out.append("<search_hit" + attrs(a) + ">")
    kids = []
    for info in h["infos"]:
        s = "<modification_info" + (' modified_peptide="x"' if st % 2 else "") + ">"
        for pos, mass in info:
            if st % 2:
                s += f'<mod_aminoacid_mass mass="{esc(mass)}" position="{pos}"/>'
            else:
                s += f'\n<mod_aminoacid_mass position="{pos}" mass="{esc(mass)}" variable="1.5"/>'
        s += "</modification_info>"
        kids.append(("m", s))
    for alt in h["alts"]:
        kids.append(("a", "<alternative_protein" + attrs([("protein", alt), ("num_tol_term", "2")]) + "/>"))
    for name, val in h["scores"]:
        kids.append(("s", "<search_score" + attrs([("name", name), ("value", val)]) + "/>"))
    # interleave the three kinds, keeping the relative order inside each kind
    perm = h.get("perm")
    if perm is not None:
        rng = random.Random(perm)
        groups = {"m": [k for k in kids if k[0] == "m"], "a": [k for k in kids if k[0] == "a"],
                  "s": [k for k in kids if k[0] == "s"]}
        order = [k[0] for k in kids]
        rng.shuffle(order)
        kids = [groups[t].pop(0) for t in order]
    for _, s in kids:
        out.append(s)
    if st % 4 == 3:
        out.append('<analysis_result analysis="x"><!-- nothing --></analysis_result>')
    out.append("</search_hit>")


def render_spectrum(s, out, idx):
    st = s.get("style", 0)
    a = [("spectrum", f"sp.{idx}"), ("start_scan", "1")]
    if s["scan"] is not None:
        a.append(("end_scan", ("00" if st == 2 else "") + str(s["scan"])))
    if s["mass"] is not None:
        a.append(("precursor_neutral_mass", dec(s["mass"], st % 3)))
    if s["charge"] is not None:
        a.append(("assumed_charge", str(s["charge"])))
    a.append(("index", str(idx)))
    if s["rt"] is not None:
        a.append(("retention_time_sec", dec(s["rt"], (st + 1) % 3)))
    out.append("<spectrum_query" + attrs(a) + ">")
    for res in s["results"]:
        out.append("<search_result>")
        for k, h in enumerate(res):
            render_hit(h, out, k + 1)
        out.append("</search_result>")
    out.append("</spectrum_query>")


def render_run(r, out):
    a = [("base_name", r["base"]), ("raw_data_type", "raw"), ("raw_data", r["raw"])]
    out.append("<msms_run_summary" + attrs(a) + ">")
    if r.get("style", 0) % 2:
        out.append('<sample_enzyme name="Trypsin"><specificity cut="KR" no_cut="P" sense="C"/></sample_enzyme>')
        out.append(f'<search_summary base_name="{esc(r["base"])}" search_engine="X"><!-- c --></search_summary>')
    for k, s in enumerate(r["spectra"]):
        render_spectrum(s, out, k + 1)
    out.append("</msms_run_summary>")


def render_file(f):
    br = f.get("broken")
    if br == "notxml":
        return "Blah\tblah\\blah\nblah\tblah\n"
    if br == "empty":
        return ""
    out = ['<?xml version="1.0" encoding="UTF-8"?>']
    if f.get("ns", True):
        out.append(f'<msms_pipeline_analysis date="2018-11-29T15:10:44" xmlns="{NS}" summary_xml="x.pepXML">')
    else:
        out.append('<msms_pipeline_analysis date="2018-11-29T15:10:44">')
    for r in f["runs"]:
        render_run(r, out)
    if br is None:
        out.append("</msms_pipeline_analysis>")
    elif br == "trunc":
        pass
    elif br == "garbage":
        out.append("<<<")
    elif br == "partial":
        # an incomplete run after the complete ones: never delivered by iterparse
        tmp = []
        render_run(f["partial_run"], tmp)
        txt = "\n".join(tmp)
        out.append(txt[: max(20, (len(txt) * 2) // 3)])
    elif br == "mismatch":
        out.append("</msms_run_summary></msms_pipeline_analysis>")
    else:
        raise ValueError(br)
    return "\n".join(out) + "\n"


# ----------------------------------------------------------------------------- tree helpers
def all_hits(case):
    """(file, run, spectrum, hit) in document order"""
    for f in case["files"]:
        for r in f["runs"]:
            for s in r["spectra"]:
                for res in s["results"]:
                    for h in res:
                        yield f, r, s, h


def score_dict(h):
    d = {}
    for n, v in h["scores"]:
        d[n] = v
    return d


def ident_cols(case):
    """score columns on which _log_features is certainly the identity"""
    vals = {}
    for _, _, _, h in all_hits(case):
        for n, v in score_dict(h).items():
            vals.setdefault(n, []).append(v)
    ok = set()
    for n, vs in vals.items():
        if any(("e" in v.lower()) for v in vs):
            continue
        try:
            fs = [float(v) for v in vs]
        except ValueError:
            continue
        if any(not math.isfinite(x) for x in fs):
            continue
        nz = [abs(x) for x in fs if x != 0]
        if any(x < 0 for x in fs) or not nz or max(nz) / min(nz) < 5000:
            ok.add(n)
    return ok


def well_formed(case):
    """inside the property's quantifier: every required attribute present, nothing broken, no Percolator scores"""
    if not case["files"]:
        return False
    for f in case["files"]:
        if f.get("broken") is not None:
            return False
        n = 0
        for r in f["runs"]:
            if r["raw"] is None:
                return False
            for s in r["spectra"]:
                if None in (s["scan"], s["charge"], s["rt"], s["mass"]):
                    return False
                for res in s["results"]:
                    for h in res:
                        n += 1
                        if h["calc"] is None:
                            return False
                        if any(nm in PERC for nm, _ in h["scores"]):
                            return False
        if n == 0:
            return False
    return True


def mods_ok(h):
    """modifications inside the property's quantifier: one modification_info at most, ascending positions in range"""
    if len(h["infos"]) > 1:
        return False
    for info in h["infos"]:
        ps = [p for p, _ in info]
        if any(not (1 <= p <= len(h["pep"])) for p in ps):
            return False
        if any(a >= b for a, b in zip(ps, ps[1:])):
            return False
    return True


def spec_peptide(h):
    """the property text: each listed modification directly after the modified residue"""
    at = {}
    for info in h["infos"]:
        for p, m in info:
            at.setdefault(p, []).append("[" + m + "]")
    return "".join(c + "".join(at.get(i + 1, [])) for i, c in enumerate(h["pep"]))


# ----------------------------------------------------------------------------- canonical form
def canon_rows(rows, ident):
    out = []
    for r in rows:
        sc = sorted([n, (float(v) if n in ident else "num")] for n, v in r["scores"])
        out.append([r["file"], r["scan"], r["charge"], r["rt"], r["exp"], r["calc"], r["peptide"],
                    r["proteins"], bool(r["label"]), r["mc"], r["ntt"], r["nmp"], sc])
    return out


def expected_columns(rows):
    cols = set(FIXED_COLS)
    for r in rows:
        cols.add(f"charge_{r['charge']}")
        if r["mc"] is not None:
            cols.add("missed_cleavages")
        if r["ntt"] is not None:
            cols.add("ntt")
        if r["nmp"] is not None:
            cols.add("num_matched_peptides")
        for n, _ in r["scores"]:
            cols.add(n)
    return sorted(cols)


# ----------------------------------------------------------------------------- model side
def enc_hit(h):
    return " ".join([
        lib.s(h["pep"]), lib.s(h["prot"]), lib.opt(h["calc"]), lib.opt(h["mc"]), lib.opt(h["ntt"]), lib.opt(h["nmp"]),
        lib.lst(h["infos"], lambda info: lib.lst(info, lambda pm: lib.z(pm[0]) + " " + lib.s(pm[1]))),
        lib.lst(h["alts"], lib.s),
        lib.lst(h["scores"], lambda nv: lib.s(nv[0]) + " " + lib.s(nv[1]))])


def enc_spectrum(s):
    return " ".join([lib.opt(s["scan"]), lib.opt(s["charge"]), lib.opt(s["rt"]), lib.opt(s["mass"]),
                     lib.lst(s["results"], lambda res: lib.lst(res, enc_hit))])


def enc_run(r):
    return " ".join([lib.s(r["base"]), lib.opt(r["raw"], lib.s), lib.lst(r["spectra"], enc_spectrum)])


def enc_file(f):
    return lib.lst(f["runs"], enc_run) + " " + lib.b(f.get("broken") is not None)


def encode(c):
    if c["fn"] == "read":
        return "c20.read " + lib.s(c["prefix"]) + " " + lib.lst(c["files"], enc_file)
    raise ValueError(c["fn"])


def decode(c, t):
    def psm():
        r = {"file": t.s(), "scan": t.z(), "charge": t.z(), "rt": t.z(), "exp": t.z(), "calc": t.z(),
             "peptide": t.s()}
        r["protein_list"] = t.lst(t.s)
        r["proteins"] = t.s()
        r["label"] = t.b()
        r["mc"] = t.opt()
        r["ntt"] = t.opt()
        r["nmp"] = t.opt()
        r["scores"] = t.lst(lambda: (t.s(), t.s()))
        return r
    res = t.result(lambda: t.lst(psm))
    t.done()
    if res[0] != "ok":
        return res
    rows = res[1]
    return ("ok", {"rows": canon_rows(rows, ident_cols(c)), "columns": expected_columns(rows), "nonfloat": []})


# ----------------------------------------------------------------------------- implementation side
def _unscale(x):
    x = float(x)
    if math.isfinite(x):
        r = round(x * SCALE)
        if r / SCALE == x:
            return r
    return ["float", repr(x)]


def _small_int(x):
    x = float(x)
    if x != x:
        return None
    if math.isfinite(x) and x == int(x):
        return int(x)
    return ["float", repr(x)]


def _unlog(x):
    x = float(x)
    if x != x:
        return None
    if x == float("-inf"):
        return 0
    if math.isfinite(x) and x < 15:
        zv = round(10 ** x)
        if zv > 0 and math.isclose(math.log10(zv), x, rel_tol=1e-12, abs_tol=1e-12):
            return zv
    return ["float", repr(x)]


def _read(case):
    import numpy as np
    import mokapot
    d = tempfile.mkdtemp(dir=_tmpdir())
    try:
        paths = []
        for k, f in enumerate(case["files"]):
            p = os.path.join(d, f"f{k}.pep.xml")
            with open(p, "w", encoding="utf-8", newline="") as fh:
                fh.write(render_file(f))
            paths.append(p)
        arg = paths
        if case.get("as_str") and len(paths) == 1:
            arg = paths[0]
        elif case.get("as_tuple"):
            arg = tuple(paths)
        if case.get("default_prefix"):
            df = mokapot.read_pepxml(arg, to_df=True)            # decoy_prefix defaults to "decoy_"
        else:
            df = mokapot.read_pepxml(arg, decoy_prefix=case["prefix"], to_df=True)
    finally:
        shutil.rmtree(d, ignore_errors=True)
    cols = [str(c) for c in df.columns]
    ident = ident_cols(case)
    known = set(FIXED_COLS) | {"missed_cleavages", "ntt", "num_matched_peptides"}
    charges = set(int(c) for c in df["charge"].tolist())
    known |= {f"charge_{c}" for c in charges}
    score_cols = [c for c in cols if c not in known]
    nonfloat = sorted(c for c in cols if c not in NONFEAT and str(df[c].dtype) != "float64")
    for c, want in (("scan", "int64"), ("charge", "int64"), ("ret_time", "float64"), ("exp_mass", "float64"),
                    ("calc_mass", "float64"), ("label", "bool")):
        if str(df[c].dtype) != want:
            nonfloat.append(f"{c}:{df[c].dtype}")
    rows = []
    recs = df.to_dict("list")
    for i in range(len(df)):
        sc = []
        for c in score_cols:
            v = float(recs[c][i])
            if v != v:
                continue
            sc.append([c, v if c in ident else "num"])
        # the one-hot column of this row's charge must be set, all others clear
        ch = int(recs["charge"][i])
        for c2 in charges:
            want = 1.0 if c2 == ch else 0.0
            if float(recs[f"charge_{c2}"][i]) != want:
                sc.append([f"charge_{c2}", "wrong one-hot"])
        rows.append([str(recs["ms_data_file"][i]), int(recs["scan"][i]), ch,
                     _unscale(recs["ret_time"][i]), _unscale(recs["exp_mass"][i]), _unscale(recs["calc_mass"][i]),
                     str(recs["peptide"][i]), str(recs["proteins"][i]), bool(recs["label"][i]),
                     _small_int(recs["missed_cleavages"][i]) if "missed_cleavages" in recs else None,
                     _small_int(recs["ntt"][i]) if "ntt" in recs else None,
                     _unlog(recs["num_matched_peptides"][i]) if "num_matched_peptides" in recs else None,
                     sorted(sc)])
    return {"rows": rows, "columns": sorted(cols), "nonfloat": nonfloat}


def impl(c):
    return call_impl(_read, c)


def same(c, m, i):
    return lib.jsonable(m) == lib.jsonable(i)


# ----------------------------------------------------------------------------- property oracle
def oracle(c, i):
    """the property text, evaluated on the implementation's output"""
    defects = _defects(c)
    if defects & {"broken", "perc", "nohits"}:
        if tuple(i)[0] == "ok":
            return f"input with defects {sorted(defects)} (malformed / non-PepXML / Percolator-produced) was accepted"
        if defects <= {"broken", "perc"} and tuple(i) != ("err", "ValueError"):
            return f"malformed or Percolator-produced PepXML must raise ValueError, got {i!r}"
        return None
    if not well_formed(c):
        return None
    if tuple(i)[0] != "ok":
        return f"a well-formed PepXML document was rejected: {i!r}"
    res = i[1]
    rows = res["rows"]
    hits = list(all_hits(c))
    if len(rows) != len(hits):
        return f"{len(hits)} search hits but {len(rows)} PSMs"
    ident = ident_cols(c)
    for k, (row, (f, r, s, h)) in enumerate(zip(rows, hits)):
        fname = r["base"] if r["base"].endswith(r["raw"]) else r["base"] + r["raw"]
        if row[0] != fname:
            return f"PSM {k}: data-file name {row[0]!r}, run says {fname!r}"
        for j, (nm, want) in enumerate((("scan", s["scan"]), ("charge", s["charge"]), ("retention time", s["rt"]),
                                        ("precursor mass", s["mass"]), ("calculated mass", h["calc"]))):
            if row[1 + j] != want:
                return f"PSM {k}: {nm} {row[1 + j]!r}, document says {want!r} (x{SCALE} for decimals)"
        if mods_ok(h) and row[6] != spec_peptide(h):
            return f"PSM {k}: peptide {row[6]!r}, expected {spec_peptide(h)!r} (each [mass] directly after its residue)"
        prots = [p.split(" ")[0] for p in [h["prot"]] + h["alts"]]
        if row[7] != "\t".join(prots):
            return f"PSM {k}: proteins {row[7]!r}, expected {prots!r}"
        decoy = all(p.startswith(c["prefix"]) for p in prots)
        if row[8] != (not decoy):
            return f"PSM {k}: label {row[8]} but proteins {prots!r} with decoy prefix {c['prefix']!r}"
        have = {n for n, _ in row[12]}
        for n, v in score_dict(h).items():
            if n not in have:
                return f"PSM {k}: search score {n!r} is not a numeric feature of the PSM"
            if n in ident and [n, float(v)] not in [list(x) for x in row[12]]:
                return f"PSM {k}: search score {n!r} = {v} not carried"
        if any(str(x[1]) == "wrong one-hot" for x in row[12]):
            return f"PSM {k}: charge one-hot columns do not match charge {row[2]}"
    if res["nonfloat"]:
        return f"feature columns that are not numeric: {res['nonfloat']}"
    return None


def _defects(c):
    """which kinds of defect the generated document has (property-level reading, not the model)"""
    d = set()
    if not c["files"]:
        d.add("nofiles")
    for f in c["files"]:
        if f.get("broken") is not None:
            d.add("broken")
        nh = 0
        for r in f["runs"]:
            if r["raw"] is None:
                d.add("attr")
            for s in r["spectra"]:
                if None in (s["scan"], s["charge"], s["rt"], s["mass"]):
                    d.add("attr")
                for res in s["results"]:
                    for h in res:
                        nh += 1
                        if h["calc"] is None:
                            d.add("attr")
                        if any(nm in PERC for nm, _ in h["scores"]):
                            d.add("perc")
        if nh == 0 and f.get("broken") is None:
            d.add("nohits")
    return d


# ----------------------------------------------------------------------------- generators
PEP_ALPHA = "ACDEFGHIKLMNPQRSTVWY"
SCORE_NAMES = ["hyperscore", "nextscore", "expect", "xcorr", "deltacn", "sp score", "e-value", "Ions", "score_1",
               "p\u00e9p", "lnrSp", "IonFrac"]


def mk_hit(pep="PEPTIDEK", prot="sp|P1|A_HUMAN desc", calc=9895821, mc=None, ntt=None, nmp=None, infos=(), alts=(),
           scores=(("hyperscore", "14.534"),), style=0, perm=None):
    return {"pep": pep, "prot": prot, "calc": calc, "mc": mc, "ntt": ntt, "nmp": nmp,
            "infos": [[[int(p), str(m)] for p, m in info] for info in infos], "alts": list(alts),
            "scores": [[n, v] for n, v in scores], "style": style, "perm": perm}


def mk_spec(results, scan=8, charge=2, rt=1233720, mass=9896051, style=0):
    return {"scan": scan, "charge": charge, "rt": rt, "mass": mass, "results": results, "style": style}


def mk_run(spectra, base="run1", raw=".mzXML", style=0):
    return {"base": base, "raw": raw, "spectra": spectra, "style": style}


def mk_file(runs, broken=None, ns=True, **kw):
    f = {"runs": runs, "broken": broken, "ns": ns}
    f.update(kw)
    return f


def mk_case(files, prefix="rev_", tags=(), **kw):
    c = {"fn": "read", "prefix": prefix, "files": files, "tags": list(tags)}
    c.update(kw)
    return c


def one_hit_case(h, prefix="rev_", tags=(), **kw):
    return mk_case([mk_file([mk_run([mk_spec([[h]])])])], prefix, tags, **kw)


def gen_exhaustive(ctx):
    cases = []
    # (a) modifications: 0..2 mods, positions -1..5 on a 3-residue peptide, masses of length 1 / 3
    masses = ["7", "1.5"]
    poss = list(range(-1, 6))
    cases.append(one_hit_case(mk_hit(pep="ACD", infos=[[]]), tags=["exh-mods", "mods=0"]))
    cases.append(one_hit_case(mk_hit(pep="ACD", infos=[]), tags=["exh-mods", "noinfo"]))
    for p in poss:
        for m in masses:
            cases.append(one_hit_case(mk_hit(pep="ACD", infos=[[(p, m)]]),
                                      tags=["exh-mods", "mods=1", "inrange" if 1 <= p <= 3 else "outofrange"]))
    for p1, p2 in itertools.product(poss, repeat=2):
        for m1, m2 in itertools.product(masses, repeat=2):
            t = "ascending" if p1 < p2 else ("equal" if p1 == p2 else "descending")
            rng_ok = "inrange" if (1 <= p1 <= 3 and 1 <= p2 <= 3) else "outofrange"
            cases.append(one_hit_case(mk_hit(pep="ACD", infos=[[(p1, m1), (p2, m2)]]),
                                      tags=["exh-mods", "mods=2", t, rng_ok]))
    # three ascending mods, all position triples on 4 residues, mass lengths mixed
    for ps in itertools.combinations(range(1, 5), 3):
        for ms in itertools.product(["9", "15.99", "-17.0265"], repeat=3):
            cases.append(one_hit_case(mk_hit(pep="KMCR", infos=[list(zip(ps, ms))]),
                                      tags=["exh-mods", "mods=3", "ascending", "inrange"]))
    # two modification_info elements (the second works on the already modified peptide)
    for p1, p2 in itertools.product(range(0, 5), repeat=2):
        cases.append(one_hit_case(mk_hit(pep="ACD", infos=[[(p1, "7")], [(p2, "1.5")]]),
                                  tags=["exh-mods", "two-modinfo"]))
    # (b) labels: primary + k alternatives, all target/decoy patterns; description after the accession
    maxalt = 4 if ctx.thorough else 3
    for k in range(0, maxalt + 1):
        for pat in itertools.product((0, 1), repeat=k + 1):
            prots = [("rev_" if d else "") + f"sp|P{j}" + (" rev_ desc" if j % 2 else "") for j, d in enumerate(pat)]
            h = mk_hit(prot=prots[0], alts=prots[1:], perm=sum(pat) * 7 + k)
            cases.append(one_hit_case(h, tags=["exh-label", f"alts={k}",
                                               "all-decoy" if all(pat) else ("all-target" if not any(pat) else "mixed")]))
    # prefix edge cases: empty prefix, prefix == accession, prefix longer than accession, prefix in the description only
    for prot, alts in [("decoy_P1 d", []), ("P1", ["decoy_P2"]), ("decoy_P1", ["decoy_P2 x"]), ("rev_P1", ["DECOY_P2"])]:
        cases.append(one_hit_case(mk_hit(prot=prot, alts=alts), prefix="decoy_", tags=["exh-label", "default-prefix"],
                                  default_prefix=True))
    for prefix, prot in [("", "P1"), ("rev_", "rev_"), ("rev_P1x", "rev_P1"), ("rev_", "P1 rev_P1"), ("rev_", " rev_P1"),
                         ("rev_", "rev_P1"), ("rev_", "REV_P1"), ("rev_", "xrev_P1"), ("decoy_", "decoy_sp|X"), ("rev_", "")]:
        for alts in ([], ["rev_A d"], ["B"]):
            cases.append(one_hit_case(mk_hit(prot=prot, alts=alts), prefix=prefix, tags=["exh-label", "prefix-edge"]))
    # (c) shapes: runs x spectra x results x hits, up to 2 each (0 allowed below the run level)
    for nr in (1, 2):
        for shape in itertools.product((0, 1, 2), repeat=nr):                    # spectra per run
            for nres, nh in itertools.product((0, 1, 2), (0, 1, 2)):
                runs = []
                uid = 0
                for ri, nsq in enumerate(shape):
                    sps = []
                    for si in range(nsq):
                        res = []
                        for qi in range(nres):
                            hs = []
                            for hi in range(nh):
                                uid += 1
                                hs.append(mk_hit(pep="PEPK"[: 1 + uid % 4] + "A" * (uid % 3), prot=f"P{uid} d",
                                                 calc=1000000 + uid, scores=[("hyperscore", f"{uid}.5")]))
                            res.append(hs)
                        sps.append(mk_spec(res, scan=10 * ri + si + 1, charge=2 + (si + ri) % 2,
                                           rt=100000 * ri + 10 * si + 5, mass=5000000 + 7 * ri + si))
                    runs.append(mk_run(sps, base=f"run{ri}", raw=".mzML"))
                nhits = sum(shape) * nres * nh
                cases.append(mk_case([mk_file(runs, ns=bool((nr + nres) % 2))],
                                     tags=["exh-shape", f"runs={nr}", "hits=0" if nhits == 0 else
                                           ("hits=1" if nhits == 1 else "hits>=2")]))
    # (d) file names
    for base, raw in [("f", ".mzXML"), ("f.mzXML", ".mzXML"), ("f.mzXML", "mzXML"), ("f.mzXML", ".mzML"), ("f", ""),
                      ("", ".raw"), (".raw", ".raw"), ("raw", ".raw"), ("a.mzXML.gz", ".mzXML"), ("f.MZXML", ".mzXML"),
                      ("dir/f.x", "f.x"), ("x", "xx"), ("xx", "x"), ("C:\\d\\f", ".mzXML"), ("f", None)]:
        cases.append(mk_case([mk_file([mk_run([mk_spec([[mk_hit()]])], base=base, raw=raw)])],
                             tags=["exh-filename"]))
    # (e) several files: all orders of three distinguishable files, 1..3 files
    def fl(k):
        return mk_file([mk_run([mk_spec([[mk_hit(pep="AAK"[: k + 1], prot=f"F{k}", scores=[(f"s{k}", "1.5"), ("hyperscore", "2")])
                                           for _ in range(k + 1)]], scan=k + 1)], base=f"file{k}")], ns=bool(k % 2))
    for n in (1, 2, 3):
        for combo in itertools.product(range(3), repeat=n):
            cases.append(mk_case([fl(k) for k in combo], tags=["exh-concat", f"files={n}"],
                                 as_str=(n == 1 and combo[0] == 0), as_tuple=(n == 2)))
    return cases


def rand_dec(rng, lo, hi):
    v = rng.randint(lo, hi)
    k = rng.choice([1, 10, 100, 1000, 10000])
    return (v // k) * k


def rand_score_val(rng, name_kind):
    k = rng.random()
    if name_kind == "sci":
        return rng.choice(["1.768e+00", "2.5e-07", "3E-3", "1e-12", "4.2e+01", "0.5"])
    if k < 0.5:
        return dec(rng.randint(1, 500000), rng.randrange(3))
    if k < 0.7:
        return str(rng.randint(0, 60))
    if k < 0.85:
        return dec(-rng.randint(1, 90000), 0)
    if k < 0.92:
        return "0"
    return rng.choice(["0.0001", "0.5", "1", "12.25"])


def rand_protein(rng, prefix, decoy):
    acc = rng.choice(["sp|P%d|X_HUMAN", "tr|Q%d", "P%d", "gi|%d|ref", "ENSP%05d", "pr\u00f6t%d", "a&b<%d>", 'q"%d\'']) % rng.randint(0, 99)
    desc = rng.choice(["", "", " desc", " Some protein OS=Homo sapiens", " " + prefix + "inside", "  two spaces"])
    return (prefix if decoy else rng.choice(["", "", "x" + prefix, prefix.upper() if prefix.upper() != prefix else ""])) + acc + desc


def rand_hit(rng, prefix, malformed=False):
    n = rng.randint(1, 12)
    pep = "".join(rng.choice(PEP_ALPHA) for _ in range(n))
    infos = []
    k = rng.random()
    if k < 0.65:
        nm = rng.choice([0, 1, 1, 2, 2, 3, 4, 5])
        nm = min(nm, n)
        ps = sorted(rng.sample(range(1, n + 1), nm))
        r2 = rng.random()
        if r2 < 0.12 and nm >= 2:
            rng.shuffle(ps)                                  # not ascending
        elif r2 < 0.2 and nm >= 1:
            ps[rng.randrange(nm)] = rng.choice([0, n + 1, n + 3, -1, -n])   # out of range
        elif r2 < 0.28 and nm >= 2:
            j = rng.randrange(nm - 1)
            ps[j + 1] = ps[j]                                # equal positions
        infos = [[(p, rng.choice(["15.9949", "57.0215", "357.2579", "42", "-17.0265", "0.98", "229.16", "1", "+16"]))
                  for p in ps]]
        if rng.random() < 0.06:
            infos.append([(rng.randint(1, n), "79.97")])
    dec_primary = rng.random() < 0.45
    nalt = rng.choice([0, 0, 0, 1, 1, 2, 3])
    alts = [rand_protein(rng, prefix, rng.random() < (0.7 if dec_primary else 0.3)) for _ in range(nalt)]
    names = rng.sample(SCORE_NAMES, rng.randint(0, 4))
    scores = []
    for nm_ in names:
        scores.append((nm_, rand_score_val(rng, "sci" if nm_ in ("expect", "e-value") and rng.random() < 0.6 else "dec")))
    if scores and rng.random() < 0.1:
        scores.append((scores[0][0], rand_score_val(rng, "dec")))          # duplicate name: the last value wins
    return mk_hit(pep=pep, prot=rand_protein(rng, prefix, dec_primary),
                  calc=rand_dec(rng, 3000000, 40000000),
                  mc=rng.choice([None, 0, 1, 2, 3]) if rng.random() < 0.8 else rng.randint(0, 9),
                  ntt=rng.choice([None, 0, 1, 2, 2]),
                  nmp=rng.choice([None, None, 0, 1, 7, 100, 1234, 99999, rng.randint(1, 100000)]),
                  infos=infos, alts=alts, scores=scores, style=rng.randrange(8), perm=rng.choice([None, rng.randrange(1000)]))


def rand_doc(rng, prefix, nfiles=None, small=False):
    files = []
    nfiles = nfiles or rng.choice([1, 1, 1, 2, 3])
    for fi in range(nfiles):
        runs = []
        for ri in range(rng.choice([1, 1, 2, 3])):
            spectra = []
            for si in range(rng.choice([0, 1, 2, 3, 4] if not small else [1, 2])):
                results = []
                for _ in range(rng.choice([1, 1, 1, 1, 0, 2])):
                    results.append([rand_hit(rng, prefix) for _ in range(rng.choice([0, 1, 1, 2, 3, 4]))])
                spectra.append(mk_spec(results, scan=rng.randint(1, 99999), charge=rng.choice([1, 2, 2, 3, 3, 4, 5, 7]),
                                       rt=rand_dec(rng, 0, 72000000), mass=rand_dec(rng, 3000000, 40000000),
                                       style=rng.randrange(3)))
            raw = rng.choice([".mzXML", ".mzML", ".raw", "", ".d"])
            base = rng.choice(["run%d", "/data/x/run%d", "run%d.mzML", "r\u00fcn %d", "run%d.raw"]) % rng.randint(0, 5)
            runs.append(mk_run(spectra, base=base, raw=raw, style=rng.randrange(2)))
        files.append(mk_file(runs, ns=rng.random() < 0.7))
    # guarantee that every file has a hit (else KeyError: covered by the malformed stream)
    for f in files:
        if not any(True for r in f["runs"] for s in r["spectra"] for res in s["results"] for _ in res):
            if not f["runs"][0]["spectra"]:
                f["runs"][0]["spectra"].append(mk_spec([[]], scan=1))
            sp = f["runs"][0]["spectra"][0]
            if not sp["results"]:
                sp["results"].append([])
            sp["results"][0].append(rand_hit(rng, prefix))
    return files


def gen_random(ctx):
    rng = ctx.sub("structured")
    cases = []
    n = 4000 if ctx.thorough else 260
    for k in range(n):
        prefix = rng.choice(["rev_", "rev_", "decoy_", "DECOY_", "XXX", "r", "###REV###"])
        files = rand_doc(rng, prefix)
        nh = sum(1 for _ in all_hits({"files": files}))
        tags = ["random", f"files={len(files)}", "hits<=3" if nh <= 3 else ("hits<=10" if nh <= 10 else "hits>10")]
        hs = [h for _, _, _, h in all_hits({"files": files})]
        if any(len(h["infos"]) and len(h["infos"][0]) >= 2 for h in hs):
            tags.append("multi-mod")
        if any(not mods_ok(h) for h in hs):
            tags.append("mods-outside-quantifier")
        if any(h["alts"] for h in hs):
            tags.append("alt-proteins")
        extra = {}
        if prefix == "decoy_" and k % 2 == 0:
            extra["default_prefix"] = True
            tags.append("default-prefix")
        cases.append(mk_case(files, prefix, tags, as_str=(len(files) == 1 and k % 3 == 0), as_tuple=(k % 5 == 0), **extra))
    return cases


def gen_malformed(ctx):
    rng = ctx.sub("malformed")
    cases = []
    good = lambda: rand_doc(rng, "rev_", nfiles=1, small=True)[0]
    # fixed shapes
    cases.append(mk_case([], tags=["malformed", "no-files"]))
    for br in ("notxml", "empty"):
        cases.append(mk_case([mk_file([], broken=br)], tags=["malformed", br]))
        cases.append(mk_case([good(), mk_file([], broken=br)], tags=["malformed", br, "after-good"]))
        cases.append(mk_case([mk_file([], broken=br), good()], tags=["malformed", br, "before-good"]))
    cases.append(mk_case([mk_file([])], tags=["malformed", "no-runs"]))
    cases.append(mk_case([mk_file([mk_run([])])], tags=["malformed", "no-hits"]))
    cases.append(mk_case([mk_file([mk_run([mk_spec([])])])], tags=["malformed", "no-hits"]))
    cases.append(mk_case([mk_file([mk_run([mk_spec([[]])])])], tags=["malformed", "no-hits"]))
    cases.append(mk_case([good(), mk_file([mk_run([mk_spec([[]])])])], tags=["malformed", "no-hits", "after-good"]))
    n = 1200 if ctx.thorough else 130
    for k in range(n):
        kind = rng.choice(["trunc", "garbage", "partial", "mismatch", "perc", "perc", "attr", "attr", "nohits", "mix"])
        files = rand_doc(rng, "rev_", nfiles=rng.choice([1, 1, 2, 3]), small=True)
        tags = ["malformed", kind]

        def break_file(f, how):
            f["broken"] = how
            if how == "partial":
                f["partial_run"] = rand_doc(rng, "rev_", nfiles=1, small=True)[0]["runs"][0]
                if rng.random() < 0.3:
                    f["partial_run"]["spectra"][0]["scan"] = None
            if rng.random() < 0.25:
                f["runs"] = []

        def drop_attr(f):
            r = rng.choice(f["runs"])
            opts = ["raw"]
            if r["spectra"]:
                opts += ["scan", "charge", "rt", "mass"] * 2
                if any(h for s in r["spectra"] for res in s["results"] for h in res):
                    opts += ["calc"] * 3
            o = rng.choice(opts)
            if o == "raw":
                r["raw"] = None
            elif o == "calc":
                hs = [h for s in r["spectra"] for res in s["results"] for h in res]
                rng.choice(hs)["calc"] = None
            else:
                rng.choice(r["spectra"])[o] = None

        def add_perc(f):
            hs = [h for r in f["runs"] for s in r["spectra"] for res in s["results"] for h in res]
            h = rng.choice(hs)
            h["scores"].append([rng.choice(PERC), "0.01"])
            if rng.random() < 0.2:
                h["scores"].append(["percolator pep", "0.5"])       # different case: legal

        f = rng.choice(files)
        if kind in ("trunc", "garbage", "partial", "mismatch"):
            break_file(f, kind)
        elif kind == "perc":
            add_perc(f)
        elif kind == "attr":
            drop_attr(f)
        elif kind == "nohits":
            for r in f["runs"]:
                for s in r["spectra"]:
                    s["results"] = [[] for _ in s["results"]]
        else:
            for g in files:
                what = rng.choice(["ok", "attr", "perc", "trunc", "partial", "nohits"])
                tags.append("mix-" + what)
                if what == "attr":
                    drop_attr(g)
                elif what == "perc":
                    add_perc(g)
                elif what in ("trunc", "partial"):
                    break_file(g, what)
                elif what == "nohits":
                    g["runs"] = [mk_run([])]
        cases.append(mk_case(files, "rev_", tags))
    # legal look-alikes of the Percolator names
    for nm in ["percolator pep", "Percolator", "Percolator PEP ", "Percolator q-value", "PeptideProphet"]:
        cases.append(one_hit_case(mk_hit(scores=[("hyperscore", "1.5"), (nm, "0.25")]), tags=["malformed", "perc-lookalike"]))
    for nm in PERC:
        cases.append(one_hit_case(mk_hit(scores=[(nm, "0.25")]), tags=["malformed", "perc"]))
    return cases


def gen(ctx):
    return gen_exhaustive(ctx) + gen_random(ctx) + gen_malformed(ctx)


def nontrivial(c):
    if "malformed" in c.get("tags", []):
        return True
    hs = [h for _, _, _, h in all_hits(c)]
    return len(hs) >= 2 or any(h["alts"] or sum(len(i) for i in h["infos"]) >= 2 for h in hs)


# ----------------------------------------------------------------------------- shrinking
def shrink(c):
    import copy
    files = c["files"]
    if len(files) > 1:
        for k in range(len(files)):
            yield dict(c, files=files[:k] + files[k + 1:])
    for fi, f in enumerate(files):
        for ri in range(len(f["runs"])):
            if len(f["runs"]) > 1:
                c2 = copy.deepcopy(c)
                del c2["files"][fi]["runs"][ri]
                yield c2
        for ri, r in enumerate(f["runs"]):
            for si in range(len(r["spectra"])):
                if len(r["spectra"]) > 1:
                    c2 = copy.deepcopy(c)
                    del c2["files"][fi]["runs"][ri]["spectra"][si]
                    yield c2
            for si, s in enumerate(r["spectra"]):
                for qi, res in enumerate(s["results"]):
                    if len(s["results"]) > 1:
                        c2 = copy.deepcopy(c)
                        del c2["files"][fi]["runs"][ri]["spectra"][si]["results"][qi]
                        yield c2
                    for hi, h in enumerate(res):
                        if len(res) > 1:
                            c2 = copy.deepcopy(c)
                            del c2["files"][fi]["runs"][ri]["spectra"][si]["results"][qi][hi]
                            yield c2
                        for key in ("alts", "scores", "infos"):
                            for j in range(len(h[key])):
                                c2 = copy.deepcopy(c)
                                del c2["files"][fi]["runs"][ri]["spectra"][si]["results"][qi][hi][key][j]
                                yield c2
                        for ii, info in enumerate(h["infos"]):
                            for j in range(len(info)):
                                c2 = copy.deepcopy(c)
                                del c2["files"][fi]["runs"][ri]["spectra"][si]["results"][qi][hi]["infos"][ii][j]
                                yield c2
                        for key in ("mc", "ntt", "nmp", "perm"):
                            if h.get(key) is not None:
                                c2 = copy.deepcopy(c)
                                c2["files"][fi]["runs"][ri]["spectra"][si]["results"][qi][hi][key] = None
                                yield c2
