"""C10 — PIN / Parquet parsing: correspondence of Model/PinCols.v with mokapot.read_pin / read_percolator."""
import os
import shutil
import tempfile
from pathlib import Path

from .. import lib
from ..lib import call_impl

PROP = "C10"
RULE = ("generated PSM tables written as tab-delimited text or Parquet and parsed by the real read_pin: "
        "(1) sweep: every (column-scan chunk size c in 2..25 (quick: a stride), feature count n with every residue of "
        "(n + #identifier columns) mod c) x identifier sets of 2..5 columns; (2) random tables: 0..60 features, shuffled "
        "column order, random letter case of reserved names, optional filename/calcmass/expmass/ret_time/charge and "
        "rollup-level columns, labels as 1/-1, 1/0 or booleans, NaN in none/one/several feature columns, "
        "row-scan chunk sizes 1..rows+1, max_workers 1..4; (3) malformed: missing or duplicated required column, "
        "labels 2/-2, user-specified optional column that does not exist. distinct = distinct case; non-trivial = "
        "table has >=1 NaN column, or >=1 optional/level column, or feature count >= c")
ASSUMPTIONS = [
    "column names are ASCII; str.lower modelled for A-Z only",
    "cell values are opaque to the model (mapped to integer ids by the harness); pandas/pyarrow (de)serialisation is an oracle",
    "row-chunked NaN scan is modelled as 'column contains a NaN' (row chunk size varied only on the implementation side)",
]
TRUSTED_EXTRA = ["pandas.read_csv / pyarrow Parquet reader (oracle: cell values, dtypes, NaN detection)"]

REQ = ["SpecId", "Label", "ScanNr", "Peptide", "Proteins"]


def _case(rng, name):
    m = rng.choice(["same", "lower", "upper", "mixed"])
    if m == "same":
        return name
    if m == "lower":
        return name.lower()
    if m == "upper":
        return name.upper()
    return "".join(ch.upper() if rng.random() < 0.5 else ch.lower() for ch in name)


def _table(rng, nfeat, cs, opt=None, levels=None, nrows=None, label_enc=None, nan=None, shuffle=True,
           fmt=None, tags=()):
    opt = opt if opt is not None else [o for o in ["filename", "calcmass", "expmass", "ret_time"] if rng.random() < 0.5]
    levels = levels if levels is not None else [l for l in ["ModifiedPeptide", "Precursor", "PeptideGroup"] if rng.random() < 0.3]
    nrows = nrows or rng.randint(1, 25)
    label_enc = label_enc or rng.choice(["pm1", "01", "bool"])
    cols = [_case(rng, c) for c in REQ] + [_case(rng, c) for c in opt] + [_case(rng, c) for c in levels]
    charge = rng.choice([[], [], ["charge"], ["Charge2", "Charge3"], ["charge_column"], ["charge_column", "Charge2"]])
    cols += charge
    feats = ["feat%d" % i for i in range(nfeat)]
    cols += feats
    if shuffle:
        rng.shuffle(cols)
    nan = nan if nan is not None else rng.choice(["none", "none", "one", "several", "allrows"])
    nan_cols = []
    if feats and nan != "none":
        k = 1 if nan in ("one", "allrows") else rng.randint(min(2, len(feats)), min(5, len(feats)))
        nan_cols = rng.sample(feats + [c for c in charge], min(k, len(feats) + len(charge)))
    data = {}
    for c in cols:
        lc = c.lower()
        if lc == "specid":
            data[c] = ["psm_%d" % i for i in range(nrows)]
        elif lc == "label":
            tg = [rng.random() < 0.6 for _ in range(nrows)]
            if label_enc == "pm1":
                data[c] = [1 if t else -1 for t in tg]
            elif label_enc == "01":
                data[c] = [1 if t else 0 for t in tg]
            else:
                data[c] = [bool(t) for t in tg]
        elif lc == "scannr":
            data[c] = [rng.randint(1, 40) for _ in range(nrows)]
        elif lc == "peptide":
            data[c] = ["K.PEP%dK.A" % rng.randint(0, 9) for _ in range(nrows)]
        elif lc == "proteins":
            data[c] = ["prot%d" % rng.randint(0, 5) for _ in range(nrows)]
        elif lc == "filename":
            data[c] = ["run%d.mzML" % rng.randint(0, 2) for _ in range(nrows)]
        elif lc in ("calcmass", "expmass"):
            data[c] = [500 + rng.randint(0, 40) * 0.25 for _ in range(nrows)]
        elif lc == "ret_time":
            data[c] = [rng.randint(0, 60) * 0.5 for _ in range(nrows)]
        elif lc in ("modifiedpeptide", "precursor", "peptidegroup"):
            data[c] = ["lv%d" % rng.randint(0, 5) for _ in range(nrows)]
        else:
            data[c] = [rng.randint(0, 50) * 0.5 for _ in range(nrows)]
    for c in nan_cols:
        if nan == "allrows":
            data[c] = [None] * nrows
        else:
            for r in rng.sample(range(nrows), rng.randint(1, nrows)):
                data[c][r] = None
    return {"fn": "read", "cols": cols, "data": data, "cs": cs, "rowchunk": rng.choice([1, 2, 3, nrows - 1 or 1, nrows, nrows + 1, 2000000]),
            "workers": rng.randint(1, 4), "fmt": fmt or rng.choice(["tsv", "tsv", "parquet"]),
            "user_opts": {}, "label_enc": label_enc, "tags": list(tags) + [label_enc, "nan=" + nan]}


def gen(ctx):
    cases = []
    rng = ctx.sub("sweep")
    # (1) residue sweep
    chunk_sizes = range(2, 26) if ctx.thorough else [2, 3, 5, 7, 19]
    for cs in chunk_sizes:
        for opt in ([], ["expmass"], ["filename", "expmass"], ["filename", "ret_time", "expmass"]):
            k = len(opt) + 2     # scan + label + optional spectrum columns
            base = rng.randint(0, 2) * cs
            for r in range(cs):
                # choose nfeat such that (nfeat + k) % cs == r
                nfeat = (r - k) % cs + base
                cases.append(_table(rng, nfeat, cs, opt=list(opt), levels=[], nrows=rng.randint(1, 6), nan="none",
                                    shuffle=False, fmt="tsv", tags=("sweep", f"cs={cs}", f"nid={k}")))
    # default chunk size 19 with 18 / 37 features and three identifier columns (F2)
    for nfeat in (18, 37, 17, 19, 36, 38):
        cases.append(_table(rng, nfeat, 19, opt=["expmass"], levels=[], nrows=4, nan="none", shuffle=False, fmt="tsv",
                            tags=("sweep", "default-chunk", "nid=3")))
    # (2) random tables
    rng = ctx.sub("random")
    for k in range(500 if ctx.thorough else 120):
        cs = rng.choice([2, 3, 4, 5, 7, 10, 19, 19, 25, 64])
        nfeat = rng.randint(0, 60)
        cases.append(_table(rng, nfeat, cs, tags=("random",)))
    # (2b) caller-named optional columns (filename_column=, calcmass_column=, expmass_column=, rt_column=): the optional
    #      columns carry unconventional names and the matching options are passed to read_pin
    rng = ctx.sub("useropt")
    ALT = {"filename": ("filename_column", "RunFile"), "calcmass": ("calcmass_column", "TheoMass"),
           "expmass": ("expmass_column", "ObsMass"), "ret_time": ("rt_column", "RT")}
    for k in range(200 if ctx.thorough else 60):
        opt = [o for o in ["filename", "calcmass", "expmass", "ret_time"] if rng.random() < 0.65] or ["expmass"]
        c = _table(rng, rng.randint(0, 12), rng.choice([3, 5, 19]), opt=opt, tags=("useropt-valid",))
        ren = [o for o in opt if rng.random() < 0.7] or [opt[0]]
        for o in ren:
            key, new = ALT[o]
            old_name = [x for x in c["cols"] if x.lower() == o][0]
            c["cols"][c["cols"].index(old_name)] = new
            c["data"][new] = c["data"].pop(old_name)
            c["user_opts"][key] = new
        c["tags"].append("renamed=" + "+".join(sorted(ren)))
        cases.append(c)
    # (3) malformed
    rng = ctx.sub("malformed")
    for k in range(120 if ctx.thorough else 40):
        c = _table(rng, rng.randint(0, 8), 19, nan="none", tags=("malformed",))
        kind = rng.choice(["missing", "dup", "label2", "labelneg2", "useropt-missing", "useropt-ok"])
        cols, data = c["cols"], c["data"]
        if kind == "missing":
            victim = rng.choice([x for x in cols if x.lower() in [r.lower() for r in REQ]])
            cols.remove(victim)
            del data[victim]
        elif kind == "dup":
            victim = rng.choice([x for x in cols if x.lower() in [r.lower() for r in REQ]])
            alt = victim.swapcase() if victim.swapcase() != victim else victim + "x"
            if alt in cols or alt.lower() != victim.lower():
                alt = victim.upper() if victim.upper() != victim else victim.lower()
            if alt in cols:
                continue
            cols.append(alt)
            data[alt] = list(data[victim])
        elif kind in ("label2", "labelneg2"):
            lab = [x for x in cols if x.lower() == "label"][0]
            if c["label_enc"] == "bool":
                data[lab] = [1 if v else -1 for v in data[lab]]
                c["label_enc"] = "pm1"
            data[lab][rng.randrange(len(data[lab]))] = 2 if kind == "label2" else -2
        elif kind == "useropt-missing":
            c["user_opts"] = {rng.choice(["filename_column", "calcmass_column", "expmass_column", "rt_column", "charge_column"]): "nope"}
        else:
            feats = [x for x in cols if x.startswith("feat")]
            if not feats:
                continue
            c["user_opts"] = {rng.choice(["filename_column", "calcmass_column", "expmass_column", "rt_column", "charge_column"]): rng.choice(feats)}
        c["tags"].append(kind)
        cases.append(c)
    return cases


# ----------------------------------------------------------------------------- model side
def _cellmap(c):
    """value -> integer id per column (same mapping applied to the implementation's output)"""
    m = {}
    for col in c["cols"]:
        vals = c["data"][col]
        d = {}
        for v in vals:
            key = _key(v)
            if key not in d:
                d[key] = len(d) + 1
        m[col] = d
    return m


def _key(v):
    if v is None:
        return "nan"
    if isinstance(v, bool):
        return "b%d" % int(v)
    if isinstance(v, (int, float)):
        return "n%r" % float(v)
    return "s" + str(v)


def encode(c):
    cols = c["cols"]
    uo = c.get("user_opts", {})
    opts = [uo.get(k) for k in ("filename_column", "calcmass_column", "expmass_column", "rt_column", "charge_column")]
    lab = [x for x in cols if x.lower() == "label"]
    label_is_bool = c["label_enc"] == "bool"
    cm = _cellmap(c)
    nrows = len(next(iter(c["data"].values()))) if c["data"] else 0
    rows = []
    for r in range(nrows):
        row = []
        for col in cols:
            v = c["data"][col][r]
            if col.lower() == "label":
                row.append(int(v) if v is not None else 0)
            else:
                row.append(cm[col][_key(v)])
        rows.append(row)
    nan_cols = [col for col in cols if any(v is None for v in c["data"][col])]
    return "c10.read %s %s %s %s %s %s" % (
        lib.z(c["cs"]), lib.lst(cols, lib.s), " ".join(lib.opt(o, lib.s) for o in opts),
        lib.b(label_is_bool), lib.lst(rows, lambda r: lib.lst(r)), lib.lst(nan_cols, lib.s))


def decode(c, t):
    def body():
        d = {}
        d["features"] = t.lst(t.s)
        d["spectrum"] = t.lst(t.s)
        d["metadata"] = t.lst(t.s)
        d["levels"] = t.lst(t.s)
        for k in ("target", "peptide", "protein", "specid", "scan"):
            d[k] = t.s()
        for k in ("filename", "calcmass", "expmass", "rt", "charge"):
            d[k] = t.opt(t.s)
        d["spectra_rows"] = t.lst(lambda: t.lst())
        d["targets"] = t.lst(t.b)
        return d
    return t.result(body)


# ----------------------------------------------------------------------------- implementation side
def _write(c, d):
    import pandas as pd
    df = pd.DataFrame({col: c["data"][col] for col in c["cols"]}, columns=c["cols"])
    if c["fmt"] == "parquet":
        p = Path(d) / "table.parquet"
        df.to_parquet(p, index=False, row_group_size=max(1, min(c["rowchunk"], 1000)))
    else:
        p = Path(d) / "table.tsv"
        df.to_csv(p, sep="\t", index=False, na_rep="")
    return p


_SHARED_DIR = None


def _read(c):
    import mokapot
    import mokapot.parsers.pin as pin
    # every second case is written to ONE path that all such cases of the run share (the file is replaced, as a pipeline
    # that regenerates its PIN file does): parsing must depend on what the file holds now, not on an earlier parse of that path
    shared = int(str(lib.stable_hash(c["cols"]))[:8], 16) % 2 == 0
    if shared:
        global _SHARED_DIR
        if _SHARED_DIR is None or not os.path.isdir(_SHARED_DIR):
            _SHARED_DIR = tempfile.mkdtemp(prefix="c10shared_", dir=os.environ.get("VERIF_TMP", "/tmp"))
            import atexit
            atexit.register(shutil.rmtree, _SHARED_DIR, True)
        d = _SHARED_DIR
    else:
        d = tempfile.mkdtemp(prefix="c10_", dir=os.environ.get("VERIF_TMP", "/tmp"))
    old = (pin.CHUNK_SIZE_COLUMNS_FOR_DROP_COLUMNS, pin.CHUNK_SIZE_ROWS_FOR_DROP_COLUMNS)
    try:
        p = _write(c, d)
        pin.CHUNK_SIZE_COLUMNS_FOR_DROP_COLUMNS = c["cs"]
        pin.CHUNK_SIZE_ROWS_FOR_DROP_COLUMNS = c["rowchunk"]
        ds = mokapot.read_pin(p, max_workers=c["workers"], **c.get("user_opts", {}))
        assert len(ds) == 1
        ds = ds[0]
        cm = _cellmap(c)
        sp = list(ds.spectrum_columns)
        sdf = ds.spectra_dataframe
        rows = []
        for _, r in sdf.iterrows():
            rows.append([cm[col].get(_key(_norm(r[col])), -1) for col in sp])
        out = {
            "features": list(ds.feature_columns), "spectrum": sp, "metadata": list(ds.metadata_columns),
            "levels": list(ds.level_columns), "target": ds.target_column, "peptide": ds.peptide_column,
            "protein": ds.protein_column, "specid": ds.specId_column, "scan": ds.scan_column,
            "filename": ds.filename_column, "calcmass": ds.calcmass_column, "expmass": ds.expmass_column,
            "rt": ds.rt_column, "charge": ds.charge_column,
            "spectra_rows": rows, "targets": [bool(v) for v in sdf[ds.target_column].tolist()],
            "sdf_columns": list(sdf.columns), "index": [int(i) for i in sdf.index.tolist()],
        }
        return out
    finally:
        pin.CHUNK_SIZE_COLUMNS_FOR_DROP_COLUMNS, pin.CHUNK_SIZE_ROWS_FOR_DROP_COLUMNS = old
        if not shared:
            shutil.rmtree(d, ignore_errors=True)


def _norm(v):
    try:
        import numpy as np
        if isinstance(v, np.generic):
            v = v.item()
    except Exception:
        pass
    if isinstance(v, float) and v != v:
        return None
    return v


def impl(c):
    return call_impl(_read, c)


def same(c, m, i):
    if m[0] != i[0]:
        return False
    if m[0] == "err":
        return m[1] == i[1]
    a, b = m[1], i[1]
    for k in ("features", "spectrum", "metadata", "levels", "target", "peptide", "protein", "specid", "scan",
              "filename", "calcmass", "expmass", "rt", "charge", "spectra_rows", "targets"):
        if a[k] != b[k]:
            return False
    n = len(b["targets"])
    if b["index"] != list(range(n)):
        return False
    if b["sdf_columns"] != b["spectrum"] + [b["target"]]:
        return False
    return True


def nontrivial(c):
    t = c.get("tags", [])
    return "malformed" in t or "nan=none" not in t or any(x.lower() in ("filename", "calcmass", "expmass", "ret_time", "modifiedpeptide", "precursor", "peptidegroup") for x in c["cols"]) \
        or sum(1 for x in c["cols"] if x.startswith("feat")) >= c["cs"]


def _wellformed(c):
    low = [x.lower() for x in c["cols"]]
    if any(low.count(r.lower()) != 1 for r in REQ):
        return False
    for o in ("filename", "calcmass", "expmass", "ret_time", "charge_column"):
        if low.count(o) > 1:
            return False
    if c.get("user_opts"):
        if "useropt-valid" not in c.get("tags", []) or not all(v in c["cols"] for v in c["user_opts"].values()):
            return False
    lab = [x for x in c["cols"] if x.lower() == "label"][0]
    return all(v in (1, 0, -1, True, False) for v in c["data"][lab])


def oracle(c, i):
    """property text on the implementation output, independent of the model"""
    if not _wellformed(c):
        return None
    if i[0] != "ok":
        return f"well-formed table rejected: {i!r}"
    r = i[1]
    cols = c["cols"]
    low = {x.lower(): x for x in cols}
    uo = c.get("user_opts", {})
    for k, key in (("filename", "filename_column"), ("calcmass", "calcmass_column"), ("expmass", "expmass_column"),
                   ("ret_time", "rt_column")):
        if uo.get(key):
            low[k] = uo[key]          # the caller named the column that plays this role
    reserved = {low[k] for k in ("specid", "label", "scannr", "peptide", "proteins")}
    for k in ("filename", "calcmass", "expmass", "ret_time"):
        if k in low:
            reserved.add(low[k])
    for x in cols:
        if x.lower() in ("modifiedpeptide", "precursor", "peptidegroup"):
            reserved.add(x)
    alt_charge = [x for x in cols if x.lower().startswith("charge")]
    if "charge_column" in low and len(alt_charge) > 1:
        reserved.add(low["charge_column"])
    nan_cols = {x for x in cols if any(v is None for v in c["data"][x])}
    exp_feat = [x for x in cols if x not in reserved and x not in nan_cols]
    if r["features"] != exp_feat:
        return f"features {r['features']} != non-reserved NaN-free columns {exp_feat}"
    exp_sp = [low[k] for k in ("filename", "scannr", "ret_time", "expmass") if k in low]
    if r["spectrum"] != exp_sp:
        return f"spectrum key {r['spectrum']} != {exp_sp}"
    lab = low["label"]
    exp_t = [v is True or (v == 1 and v is not False) for v in c["data"][lab]]
    if r["targets"] != exp_t:
        return f"targets {r['targets']} != rows labelled 1/true {exp_t}"
    cm = _cellmap(c)
    exp_rows = [[cm[col][_key(c['data'][col][k])] for col in exp_sp] for k in range(len(exp_t))]
    if r["spectra_rows"] != exp_rows:
        return "spectra_dataframe does not hold one entry per input row in file order"
    return None


def finding_key(c, m, i):
    return None


def shrink(c):
    cols = c["cols"]
    feats = [x for x in cols if x.startswith("feat")]
    nrows = len(c["data"][cols[0]]) if cols else 0
    if nrows > 1:
        yield dict(c, data={k: v[: nrows // 2] for k, v in c["data"].items()})
    for x in cols:
        if x.lower() not in [r.lower() for r in REQ] and not x.startswith("feat"):
            yield dict(c, cols=[y for y in cols if y != x], data={k: v for k, v in c["data"].items() if k != x})
